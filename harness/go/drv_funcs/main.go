// drv_funcs evaluates applications of the template function library
// (github.com/vektra/mockery/v3/template_funcs.FuncMap) THROUGH text/template, so that the
// argument order of the template call convention (direct call and pipeline form) is
// exercised.  It is copied into a scratch copy of the mockery tree (zz_verif/drv_funcs)
// and built there.
//
// stdin:  JSON {"env":{name:hex}, "files":{relpath:hex}, "dirs":[relpath],
//
//	"cases":[{"fn":"split","pipe":false,"args":[{"s":hex}|{"i":"-3"}|{"l":[hex]}|{"f":"1.5"}]}]}
//
// stdout: JSON {"outs":[{"k":"bool","t":true}|{"k":"str","a":hex}|{"k":"list","l":[hex]}|
//
//	        {"k":"int","i":"7"}|{"k":"float","f":"2"}|{"k":"err","a":hex(msg)}],
//	"utab":[[cp,isLetter,isUpper,isLower,toUpper,toLower,isSpace,isNumber,isPunct],...]}
//
// The Unicode table lists Go's classification for every code point occurring in an argument
// (it instantiates the Unicode parameters of the Coq model: a data translator).
package main

import (
	"bytes"
	"encoding/hex"
	"encoding/json"
	"fmt"
	"os"
	"path/filepath"
	"regexp"
	"sort"
	"strconv"
	"strings"
	"text/template"
	"unicode"
	"unicode/utf8"

	mockerytemplate "github.com/vektra/mockery/v3/template"
	"github.com/vektra/mockery/v3/template_funcs"
)

type Arg struct {
	S *string  `json:"s,omitempty"`
	I *string  `json:"i,omitempty"`
	L []string `json:"l"`
	F *string  `json:"f,omitempty"`
}
type Case struct {
	Fn   string `json:"fn"`
	Pipe bool   `json:"pipe"`
	Args []Arg  `json:"args"`
}
type In struct {
	Env   map[string]string `json:"env"`
	Files map[string]string `json:"files"`
	Dirs  []string          `json:"dirs"`
	Cases []Case            `json:"cases"`
	Hist  *Hist             `json:"hist,omitempty"`
}

// Hist asks for the history mode: evaluate Sample, use the library the way mockery itself does
// (create Templates file:// templates through mockery's own constructor template.New in a
// directory that contains the Decoys, execute them, render config-style templates), then
// evaluate Sample again.  The function map is process-wide: nothing may differ.
type Hist struct {
	Sample    []Case            `json:"sample"`
	Decoys    map[string]string `json:"decoys"`
	Templates int               `json:"templates"`
}
type HistRes struct {
	Before    []Out    `json:"before"`
	After     []Out    `json:"after"`
	EmbBefore []string `json:"emb_before"`
	EmbAfter  []string `json:"emb_after"`
	KeysDiff  []string `json:"keys_diff"`
	Log       []string `json:"log"`
}
type Out struct {
	K string   `json:"k"`
	A string   `json:"a,omitempty"`
	L []string `json:"l,omitempty"`
	T bool     `json:"t,omitempty"`
	I string   `json:"i,omitempty"`
	F string   `json:"f,omitempty"`
}
type Res struct {
	Outs []Out     `json:"outs"`
	Refs []*Out    `json:"refs"`
	Utab [][]int64 `json:"utab"`
	Hist *HistRes  `json:"hist,omitempty"`
}

func unhex(s string) string {
	b, err := hex.DecodeString(s)
	if err != nil {
		panic(err)
	}
	return string(b)
}
func hx(s string) string { return hex.EncodeToString([]byte(s)) }

var runes = map[rune]bool{utf8.RuneError: true}

func note(s string) {
	for _, r := range s {
		runes[r] = true
	}
}

func b2i(b bool) int64 {
	if b {
		return 1
	}
	return 0
}

func runCase(c Case) (out Out) {
	defer func() {
		// text/template converts panics of called functions into errors; anything arriving
		// here would be a crash of the run.
		if r := recover(); r != nil {
			out = Out{K: "crash", A: hx(fmt.Sprint(r))}
		}
	}()
	data := map[string]any{}
	names := []string{}
	for i, a := range c.Args {
		n := fmt.Sprintf("A%d", i)
		names = append(names, "."+n)
		switch {
		case a.S != nil:
			s := unhex(*a.S)
			note(s)
			data[n] = s
		case a.I != nil:
			v, err := strconv.ParseInt(*a.I, 10, 64)
			if err != nil {
				panic(err)
			}
			data[n] = int(v)
		case a.F != nil:
			v, err := strconv.ParseFloat(*a.F, 64)
			if err != nil {
				panic(err)
			}
			data[n] = v
		default:
			l := []string{}
			for _, e := range a.L {
				s := unhex(e)
				note(s)
				l = append(l, s)
			}
			data[n] = l
		}
	}
	var text string
	if c.Pipe && len(names) > 0 {
		k := len(names) - 1
		text = "{{ " + names[k] + " | " + c.Fn + " " + strings.Join(names[:k], " ") + " | __obs }}"
	} else {
		text = "{{ __obs (" + c.Fn + " " + strings.Join(names, " ") + ") }}"
	}
	var seen any
	got := false
	fm := template.FuncMap{"__obs": func(v any) string { seen = v; got = true; return "" }}
	t, err := template.New("probe").Funcs(template_funcs.FuncMap).Funcs(fm).Parse(text)
	if err != nil {
		return Out{K: "err", A: hx("parse: " + err.Error())}
	}
	var buf bytes.Buffer
	if err := t.Execute(&buf, data); err != nil {
		return Out{K: "err", A: hx(err.Error())}
	}
	if !got {
		return Out{K: "err", A: hx("no observation")}
	}
	switch v := seen.(type) {
	case bool:
		return Out{K: "bool", T: v}
	case string:
		return Out{K: "str", A: hx(v)}
	case []string:
		l := []string{}
		for _, e := range v {
			l = append(l, hx(e))
		}
		return Out{K: "list", L: l}
	case int:
		return Out{K: "int", I: strconv.FormatInt(int64(v), 10)}
	case float64:
		return Out{K: "float", F: strconv.FormatFloat(v, 'g', -1, 64)}
	default:
		return Out{K: "other", A: hx(fmt.Sprintf("%T %v", seen, seen))}
	}
}

// refCase evaluates the Go standard-library namesake directly (subject string taken from the
// LAST argument), independently of template_funcs: the reference of the property text
// "the string functions equal their Go standard-library namesakes with the subject string as
// last argument".  nil = no stdlib namesake / ill-typed call.
func refCase(c Case) *Out {
	str := func(i int) (string, bool) {
		if i < len(c.Args) && c.Args[i].S != nil {
			return unhex(*c.Args[i].S), true
		}
		return "", false
	}
	num := func(i int) (int, bool) {
		if i < len(c.Args) && c.Args[i].I != nil {
			v, err := strconv.ParseInt(*c.Args[i].I, 10, 64)
			return int(v), err == nil
		}
		return 0, false
	}
	lst := func(v []string) *Out {
		l := []string{}
		for _, e := range v {
			l = append(l, hx(e))
		}
		return &Out{K: "list", L: l}
	}
	sv := func(v string) *Out { return &Out{K: "str", A: hx(v)} }
	bv := func(v bool) *Out { return &Out{K: "bool", T: v} }
	n := len(c.Args)
	a0, ok0 := str(0)
	a1, ok1 := str(1)
	switch c.Fn {
	case "contains", "hasPrefix", "hasSuffix", "split", "splitAfter", "trim", "trimLeft", "trimRight", "trimPrefix", "trimSuffix":
		if n != 2 || !ok0 || !ok1 {
			return nil
		}
		switch c.Fn {
		case "contains":
			return bv(strings.Contains(a1, a0))
		case "hasPrefix":
			return bv(strings.HasPrefix(a1, a0))
		case "hasSuffix":
			return bv(strings.HasSuffix(a1, a0))
		case "split":
			return lst(strings.Split(a1, a0))
		case "splitAfter":
			return lst(strings.SplitAfter(a1, a0))
		case "trim":
			return sv(strings.Trim(a1, a0))
		case "trimLeft":
			return sv(strings.TrimLeft(a1, a0))
		case "trimRight":
			return sv(strings.TrimRight(a1, a0))
		case "trimPrefix":
			return sv(strings.TrimPrefix(a1, a0))
		case "trimSuffix":
			return sv(strings.TrimSuffix(a1, a0))
		}
	case "join":
		if n == 2 && ok0 && c.Args[1].S == nil && c.Args[1].I == nil && c.Args[1].F == nil {
			l := []string{}
			for _, e := range c.Args[1].L {
				l = append(l, unhex(e))
			}
			return sv(strings.Join(l, a0))
		}
	case "replace":
		k, okk := num(2)
		s, oks := str(3)
		if n == 4 && ok0 && ok1 && okk && oks {
			return sv(strings.Replace(s, a0, a1, k))
		}
	case "replaceAll":
		s, oks := str(2)
		if n == 3 && ok0 && ok1 && oks {
			return sv(strings.ReplaceAll(s, a0, a1))
		}
	case "splitAfterN":
		k, okk := num(1)
		s, oks := str(2)
		if n == 3 && ok0 && okk && oks {
			return lst(strings.SplitAfterN(s, a0, k))
		}
	case "trimSpace", "lower", "upper", "quoteMeta", "base", "clean", "dir", "expandEnv", "getenv":
		if n != 1 || !ok0 {
			return nil
		}
		switch c.Fn {
		case "trimSpace":
			return sv(strings.TrimSpace(a0))
		case "lower":
			return sv(strings.ToLower(a0))
		case "upper":
			return sv(strings.ToUpper(a0))
		case "quoteMeta":
			return sv(regexp.QuoteMeta(a0))
		case "base":
			return sv(filepath.Base(a0))
		case "clean":
			return sv(filepath.Clean(a0))
		case "dir":
			return sv(filepath.Dir(a0))
		case "expandEnv":
			return sv(os.ExpandEnv(a0))
		case "getenv":
			return sv(os.Getenv(a0))
		}
	}
	return nil
}

// embText writes the application as template text with literal arguments (nil: not expressible).
func embText(c Case) *string {
	parts := []string{c.Fn}
	for _, a := range c.Args {
		switch {
		case a.S != nil:
			parts = append(parts, strconv.Quote(unhex(*a.S)))
		case a.I != nil:
			parts = append(parts, *a.I)
		default:
			return nil
		}
	}
	t := "{{ printf \"%q\" (" + strings.Join(parts, " ") + ") }}"
	return &t
}

// runEmbedded evaluates the application in a fresh template created by mockery's constructor
// under a non-file name (what an embedded template sees); the observable is the rendered text
// or "ERR".
func runEmbedded(c Case) (res string) {
	defer func() {
		if r := recover(); r != nil {
			res = "CRASH " + fmt.Sprint(r)
		}
	}()
	t := embText(c)
	if t == nil || c.Fn == "randInt" {
		return "-"
	}
	tm, err := mockerytemplate.New(*t, "embedded-probe")
	if err != nil {
		return "ERR parse"
	}
	var buf bytes.Buffer
	if err := tm.Execute(&buf, mockerytemplate.Data{}); err != nil {
		return "ERR"
	}
	return hx(buf.String())
}

func keySet() map[string]bool {
	m := map[string]bool{}
	for k := range template_funcs.FuncMap {
		m[k] = true
	}
	return m
}

func runHistory(h *Hist) *HistRes {
	r := &HistRes{Log: []string{}, KeysDiff: []string{}}
	keys0 := keySet()
	for _, c := range h.Sample {
		r.Before = append(r.Before, runCase(c))
		r.EmbBefore = append(r.EmbBefore, runEmbedded(c))
	}
	tdir, err := os.MkdirTemp("", "drvfuncs-templ")
	if err != nil {
		panic(err)
	}
	defer os.RemoveAll(tdir)
	for n, c := range h.Decoys {
		p := filepath.Join(tdir, n)
		if err := os.MkdirAll(filepath.Dir(p), 0o755); err != nil {
			panic(err)
		}
		if err := os.WriteFile(p, []byte(unhex(c)), 0o644); err != nil {
			panic(err)
		}
	}
	// 1. templated config values, rendered the way package config does it
	for _, text := range []string{"{{ getenv \"A\" }}/{{ .X | lower }}", "{{ readFile \"f.txt\" | trimSpace }}", "mocks_{{ snakecase .X }}"} {
		tm, err := template.New("config-template").Funcs(template_funcs.FuncMap).Parse(text)
		if err != nil {
			r.Log = append(r.Log, "config parse: "+err.Error())
			continue
		}
		var buf bytes.Buffer
		if err := tm.Execute(&buf, map[string]any{"X": "SomeName"}); err != nil {
			r.Log = append(r.Log, "config exec error")
		} else {
			r.Log = append(r.Log, "config -> "+buf.String())
		}
	}
	// 2. file:// templates through mockery's own constructor
	for i := 0; i < h.Templates; i++ {
		name := filepath.Join(tdir, fmt.Sprintf("t%d.templ", i))
		text := "// {{ getenv \"A\" }} {{ exported \"name\" }}\n{{ if false }}{{ readFile \"partial.txt\" }}{{ end }}"
		if err := os.WriteFile(name, []byte(text), 0o644); err != nil {
			panic(err)
		}
		func() {
			defer func() {
				if rec := recover(); rec != nil {
					r.Log = append(r.Log, "file template crashed: "+fmt.Sprint(rec))
				}
			}()
			tm, err := mockerytemplate.New(text, "file://"+name)
			if err != nil {
				r.Log = append(r.Log, "file template parse: "+err.Error())
				return
			}
			var buf bytes.Buffer
			if err := tm.Execute(&buf, mockerytemplate.Data{}); err != nil {
				r.Log = append(r.Log, "file template exec error")
			} else {
				r.Log = append(r.Log, "file template -> "+buf.String())
			}
		}()
	}
	for _, c := range h.Sample {
		r.After = append(r.After, runCase(c))
		r.EmbAfter = append(r.EmbAfter, runEmbedded(c))
	}
	keys1 := keySet()
	for k := range keys0 {
		if !keys1[k] {
			r.KeysDiff = append(r.KeysDiff, "-"+k)
		}
	}
	for k := range keys1 {
		if !keys0[k] {
			r.KeysDiff = append(r.KeysDiff, "+"+k)
		}
	}
	sort.Strings(r.KeysDiff)
	return r
}

func main() {
	var in In
	if err := json.NewDecoder(os.Stdin).Decode(&in); err != nil {
		fmt.Fprintln(os.Stderr, err)
		os.Exit(2)
	}
	dir, err := os.MkdirTemp("", "drvfuncs")
	if err != nil {
		panic(err)
	}
	defer os.RemoveAll(dir)
	for _, d := range in.Dirs {
		if err := os.MkdirAll(filepath.Join(dir, d), 0o755); err != nil {
			panic(err)
		}
	}
	for n, c := range in.Files {
		p := filepath.Join(dir, n)
		if err := os.MkdirAll(filepath.Dir(p), 0o755); err != nil {
			panic(err)
		}
		if err := os.WriteFile(p, []byte(unhex(c)), 0o644); err != nil {
			panic(err)
		}
	}
	if err := os.Chdir(dir); err != nil {
		panic(err)
	}
	os.Clearenv()
	for n, v := range in.Env {
		if err := os.Setenv(n, unhex(v)); err != nil {
			panic(err)
		}
	}
	res := Res{Outs: []Out{}}
	for _, c := range in.Cases {
		res.Outs = append(res.Outs, runCase(c))
		res.Refs = append(res.Refs, refCase(c))
	}
	if in.Hist != nil {
		res.Hist = runHistory(in.Hist)
	}
	// close the table under the simple case mappings (the model looks up mapped runes again)
	for round := 0; round < 2; round++ {
		add := []rune{}
		for r := range runes {
			add = append(add, unicode.ToUpper(r), unicode.ToLower(r))
		}
		for _, r := range add {
			runes[r] = true
		}
	}
	cps := []rune{}
	for r := range runes {
		cps = append(cps, r)
	}
	sort.Slice(cps, func(i, j int) bool { return cps[i] < cps[j] })
	for _, r := range cps {
		res.Utab = append(res.Utab, []int64{int64(r), b2i(unicode.IsLetter(r)), b2i(unicode.IsUpper(r)), b2i(unicode.IsLower(r)),
			int64(unicode.ToUpper(r)), int64(unicode.ToLower(r)), b2i(unicode.IsSpace(r)), b2i(unicode.IsNumber(r)), b2i(unicode.IsPunct(r))})
	}
	os.Chdir("/")
	if err := json.NewEncoder(os.Stdout).Encode(res); err != nil {
		panic(err)
	}
}
