// drv_tmpl calls config.(*Config).ParseTemplates (the template resolver of the templated
// config parameters dir/filename/pkgname/structname/template-schema) directly and prints
// the five resolved values or the error class.  It is copied into a scratch copy of the
// mockery tree (zz_verif/drv_tmpl) and built there.
//
// stdin:  JSON [{"iface":bool,"name":hex,"file":hex,"pkgname":hex,"pkgpath":hex,
//                "template":hex,"config":hex,"cwd":"<existing directory>",
//                "dir":hex,"filename":hex,"pkg":hex,"structname":hex,"schema":hex}, ...]
// stdout: one JSON object per case and line, in order, flushed after every call:
//         {"k":"ok","v":[dir,filename,pkgname,structname,schema] (hex)}
//         | {"k":"infinite"} | {"k":"parse"} | {"k":"exec"} | {"k":"other","m":..} | {"k":"panic","m":..}
//         each with "ms" (wall) and "cpu_ms"
package main

import (
	"context"
	"encoding/hex"
	"encoding/json"
	"errors"
	"fmt"
	"go/types"
	"io"
	"os"
	"strings"
	"syscall"
	"time"

	"github.com/rs/zerolog"
	"github.com/vektra/mockery/v3/config"
	"golang.org/x/tools/go/packages"
)

type Case struct {
	Iface      bool   `json:"iface"`
	Name       string `json:"name"`
	File       string `json:"file"`
	PkgName    string `json:"pkgname"`
	PkgPath    string `json:"pkgpath"`
	Template   string `json:"template"`
	Config     string `json:"config"`
	Cwd        string `json:"cwd"`
	Dir        string `json:"dir"`
	FileName   string `json:"filename"`
	Pkg        string `json:"pkg"`
	StructName string `json:"structname"`
	Schema     string `json:"schema"`
}

type Out struct {
	K  string   `json:"k"`
	V  []string `json:"v,omitempty"`
	M  string   `json:"m,omitempty"`
	Ms int64    `json:"ms"`
	// CPU time of the call (user+system, whole process), robust against a loaded machine
	CPUMs int64 `json:"cpu_ms"`
}

func unhex(s string) string {
	b, err := hex.DecodeString(s)
	if err != nil {
		panic(err)
	}
	return string(b)
}
func hx(s string) string { return hex.EncodeToString([]byte(s)) }
func p(s string) *string { return &s }

func cpuMs() int64 {
	var ru syscall.Rusage
	if err := syscall.Getrusage(syscall.RUSAGE_SELF, &ru); err != nil {
		return 0
	}
	return (ru.Utime.Sec+ru.Stime.Sec)*1000 + int64(ru.Utime.Usec+ru.Stime.Usec)/1000
}

func runCase(c Case) (out Out) {
	t0 := time.Now()
	c0 := cpuMs()
	defer func() {
		if r := recover(); r != nil {
			out = Out{K: "panic", M: fmt.Sprint(r)}
		}
		out.Ms = time.Since(t0).Milliseconds()
		out.CPUMs = cpuMs() - c0
	}()
	if err := os.Chdir(c.Cwd); err != nil {
		return Out{K: "other", M: "chdir: " + err.Error()}
	}
	cfg := &config.Config{
		ConfigFile:     p(unhex(c.Config)),
		Dir:            p(unhex(c.Dir)),
		FileName:       p(unhex(c.FileName)),
		PkgName:        p(unhex(c.Pkg)),
		StructName:     p(unhex(c.StructName)),
		Template:       p(unhex(c.Template)),
		TemplateSchema: p(unhex(c.Schema)),
	}
	var iface *config.Interface
	pkg := &packages.Package{Types: types.NewPackage(unhex(c.PkgPath), unhex(c.PkgName))}
	if c.Iface {
		iface = config.NewInterface(unhex(c.Name), unhex(c.File), nil, pkg, cfg)
	}
	log := zerolog.New(io.Discard)
	err := cfg.ParseTemplates(log.WithContext(context.Background()), iface, pkg)
	if err != nil {
		switch {
		case errors.Is(err, config.ErrInfiniteLoop):
			return Out{K: "infinite"}
		case strings.HasPrefix(err.Error(), "failed to parse "):
			return Out{K: "parse", M: err.Error()}
		case strings.HasPrefix(err.Error(), "failed to execute "):
			return Out{K: "exec", M: err.Error()}
		}
		return Out{K: "other", M: err.Error()}
	}
	return Out{K: "ok", V: []string{hx(*cfg.Dir), hx(*cfg.FileName), hx(*cfg.PkgName), hx(*cfg.StructName), hx(*cfg.TemplateSchema)}}
}

func main() {
	os.Unsetenv("PWD") // os.Getwd must ask the kernel, not a stale environment
	var cases []Case
	if err := json.NewDecoder(os.Stdin).Decode(&cases); err != nil {
		fmt.Fprintln(os.Stderr, "bad input:", err)
		os.Exit(2)
	}
	// one result per line, written as soon as the call returns: the harness sees which
	// call does not return
	enc := json.NewEncoder(os.Stdout)
	for _, c := range cases {
		if err := enc.Encode(runCase(c)); err != nil {
			os.Exit(2)
		}
	}
}
