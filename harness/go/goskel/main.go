// goskel translates freshly generated mock files into the instruction language of
// coq/Mock/Conc.v (C05).  Standard library only (go/parser, go/ast).
//
//	goskel file.go...      ->  JSON on stdout, exit 0
//	                           anything it does not understand that touches shared state: exit 2,
//	                           message on stderr (FAIL CLOSED - never guess)
//
// A matryer mock is a struct with a field `calls struct{ <M> []struct{...} ... }` and fields
// `lock<M>`.  Method ids are the positions of <M> in `calls`.  Each method with that receiver
// becomes a set of straight-line paths (if-statements fork, return/panic end a path, deferred
// calls are appended when a path ends, loop bodies may contain local work only):
//
//	recv.lock<M>.Lock()/Unlock()/RLock()/RUnlock()      -> Lock m / Unlock m / RLock m / RUnlock m
//	recv.calls.<M> = append(recv.calls.<M>, <local>)    -> ReadLog m ; WriteApp m
//	recv.calls.<M> = nil                                -> WriteNil m
//	any other read of recv.calls.<M>                    -> Snap m
//	recv.<M>Func (read)                                 -> ReadFunc m
//	recv.<M>Func(<args>)                                -> <args> ; ReadFunc m ; CallFunc m
//	statements over locals/parameters only              -> Local
//	anything else mentioning the receiver, any package-level variable  -> error
//
// A testify file (imports github.com/stretchr/testify/mock): every function body must consist
// of locals and calls into the embedded mock.Mock / *mock.Call / *mock.Mock field:
//
//	recv.Called(...) -> Embedded 0 ; recv.mock.On(...) -> Embedded 1 ; recv.Call.<X>(...) -> Embedded 2
//	&recv.Mock, recv.<generated method>(...)            -> Local
//	assignment to anything reachable from the receiver, package-level variables  -> error
//	a closure (handed to testify: Run/RunAndReturn/Cleanup) reading or writing a captured variable
//	that is assigned after its declaration   -> Snap k / WriteNil k on an unprotected location k
//	(the kernel check then fails: not a testify_instr, not well locked)
package main

import (
	"encoding/json"
	"fmt"
	"go/ast"
	"go/parser"
	"go/token"
	"os"
	"sort"
	"strings"
)

type Instr [2]any // [name, m]   (m = -1 when the instruction has no method)

type Path struct {
	End string  `json:"end"` // "return" | "panic"
	Ins []Instr `json:"ins"`
}
type Role struct {
	K  string `json:"k"` // call | calls | reset | resetall | testify
	M  int    `json:"m"`
	Ms []int  `json:"ms,omitempty"`
}
type Body struct {
	Name  string `json:"name"`
	Role  Role   `json:"role"`
	Paths []Path `json:"paths"`
	Defer bool   `json:"defer"`
}
type Mock struct {
	Name    string   `json:"name"`
	Methods []string `json:"methods"`
	Bodies  []Body   `json:"bodies"`
}
type File struct {
	File  string `json:"file"`
	Kind  string `json:"kind"`
	Mocks []Mock `json:"mocks"`
}

func fail(fset *token.FileSet, pos token.Pos, format string, a ...any) {
	fmt.Fprintf(os.Stderr, "goskel: %s: %s\n", fset.Position(pos), fmt.Sprintf(format, a...))
	os.Exit(2)
}

type tr struct {
	fset    *token.FileSet
	kind    string
	recv    string         // receiver identifier ("" for plain functions)
	methods map[string]int // matryer: <M> -> id
	own     map[string]bool // names of the generated methods of the receiver's type
	globals map[*ast.ValueSpec]bool
	done    []Path
	defers  [][]Instr
	usedDefer bool
	written map[*ast.Object]bool // variables of the enclosing function that are assigned after their declaration
	shared  map[*ast.Object]int  // captured mutable variables -> location number
}

// writtenVars: the variables (by object) that are written somewhere in fn after their declaration:
// left-hand sides of = / op= (through index, field, dereference), ++/--, range with =, &x.
func writtenVars(body *ast.BlockStmt) map[*ast.Object]bool {
	w := map[*ast.Object]bool{}
	mark := func(e ast.Expr, decl ast.Node) {
		id := rootIdent(e)
		if id == nil || id.Obj == nil || id.Obj.Kind != ast.Var {
			return
		}
		if _, plain := e.(*ast.Ident); plain && decl != nil && id.Obj.Decl == decl {
			return // the declaration itself (x := ...)
		}
		w[id.Obj] = true
	}
	ast.Inspect(body, func(n ast.Node) bool {
		switch x := n.(type) {
		case *ast.AssignStmt:
			for _, l := range x.Lhs {
				if x.Tok == token.DEFINE {
					mark(l, x)
				} else {
					mark(l, nil)
				}
			}
		case *ast.IncDecStmt:
			mark(x.X, nil)
		case *ast.RangeStmt:
			if x.Tok == token.ASSIGN {
				if x.Key != nil {
					mark(x.Key, nil)
				}
				if x.Value != nil {
					mark(x.Value, nil)
				}
			}
		case *ast.UnaryExpr:
			if x.Op == token.AND {
				if id, ok := x.X.(*ast.Ident); ok && id.Obj != nil && id.Obj.Kind == ast.Var {
					w[id.Obj] = true // its address escapes
				}
			}
		}
		return true
	})
	return w
}

// captured: accesses of a closure to variables declared outside it that are mutable (written after
// their declaration anywhere in the enclosing function).  A closure handed to testify (Run /
// RunAndReturn / Cleanup) runs on the goroutine of whoever calls the mocked method, outside testify's
// mutex: such a variable is shared state without a lock -> Snap k (read) / WriteNil k (write) of a
// location k that no lock protects.  Immutable captures (the `run` parameter, a variable assigned
// once at its declaration) are plain values.
func (t *tr) captured(lit *ast.FuncLit) []Instr {
	type acc struct{ read, write bool }
	found := map[*ast.Object]*acc{}
	var order []*ast.Object
	note := func(id *ast.Ident, write bool) {
		if id == nil || id.Obj == nil || id.Obj.Kind != ast.Var {
			return
		}
		if pos := id.Obj.Pos(); pos >= lit.Pos() && pos < lit.End() {
			return // declared inside the closure
		}
		if !t.written[id.Obj] {
			return
		}
		a := found[id.Obj]
		if a == nil {
			a = &acc{}
			found[id.Obj] = a
			order = append(order, id.Obj)
		}
		if write {
			a.write = true
		} else {
			a.read = true
		}
	}
	ast.Inspect(lit.Body, func(n ast.Node) bool {
		switch x := n.(type) {
		case *ast.AssignStmt:
			for _, l := range x.Lhs {
				note(rootIdent(l), true)
			}
		case *ast.IncDecStmt:
			note(rootIdent(x.X), true)
		case *ast.Ident:
			note(x, false)
		}
		return true
	})
	var out []Instr
	for _, o := range order {
		k, ok := t.shared[o]
		if !ok {
			k = len(t.shared)
			t.shared[o] = k
		}
		if found[o].write {
			out = append(out, Instr{"WriteNil", k})
		} else {
			out = append(out, Instr{"Snap", k})
		}
	}
	return out
}

func rootIdent(e ast.Expr) *ast.Ident {
	for {
		switch x := e.(type) {
		case *ast.Ident:
			return x
		case *ast.SelectorExpr:
			e = x.X
		case *ast.IndexExpr:
			e = x.X
		case *ast.IndexListExpr:
			e = x.X
		case *ast.StarExpr:
			e = x.X
		case *ast.ParenExpr:
			e = x.X
		case *ast.SliceExpr:
			e = x.X
		case *ast.TypeAssertExpr:
			e = x.X
		case *ast.CallExpr:
			e = x.Fun
		case *ast.UnaryExpr:
			e = x.X
		default:
			return nil
		}
	}
}

// selector chain  a.b.c  ->  ["a","b","c"] ; nil if not a pure chain
func chain(e ast.Expr) []string {
	switch x := e.(type) {
	case *ast.Ident:
		return []string{x.Name}
	case *ast.SelectorExpr:
		c := chain(x.X)
		if c == nil {
			return nil
		}
		return append(c, x.Sel.Name)
	case *ast.ParenExpr:
		return chain(x.X)
	}
	return nil
}

func (t *tr) isRecv(id *ast.Ident) bool { return t.recv != "" && id != nil && id.Name == t.recv }

func (t *tr) checkGlobal(id *ast.Ident) {
	if id.Obj != nil {
		if vs, ok := id.Obj.Decl.(*ast.ValueSpec); ok && t.globals[vs] {
			fail(t.fset, id.Pos(), "package-level variable %s used in a generated body (shared state)", id.Name)
		}
	}
}

func local() []Instr { return []Instr{{"Local", -1}} }

// instructions of evaluating e (reads only)
func (t *tr) expr(e ast.Expr) []Instr {
	if e == nil {
		return nil
	}
	switch x := e.(type) {
	case *ast.Ident:
		t.checkGlobal(x)
		if t.isRecv(x) {
			fail(t.fset, x.Pos(), "the receiver itself escapes")
		}
		return nil
	case *ast.BasicLit:
		return nil
	case *ast.ParenExpr:
		return t.expr(x.X)
	case *ast.StarExpr:
		return t.expr(x.X)
	case *ast.UnaryExpr:
		if x.Op == token.AND {
			if c := chain(x.X); t.kind == "testify" && len(c) == 2 && t.recv != "" && c[0] == t.recv && c[1] == "Mock" {
				return nil // &recv.Mock : the address of the embedded mock.Mock, no access
			}
		}
		return t.expr(x.X)
	case *ast.BinaryExpr:
		return append(t.expr(x.X), t.expr(x.Y)...)
	case *ast.KeyValueExpr:
		return t.expr(x.Value)
	case *ast.CompositeLit:
		var out []Instr
		for _, el := range x.Elts {
			out = append(out, t.expr(el)...)
		}
		return out
	case *ast.IndexExpr:
		return append(t.expr(x.X), t.expr(x.Index)...)
	case *ast.IndexListExpr:
		return t.expr(x.X)
	case *ast.SliceExpr:
		out := t.expr(x.X)
		out = append(out, t.expr(x.Low)...)
		out = append(out, t.expr(x.High)...)
		return append(out, t.expr(x.Max)...)
	case *ast.TypeAssertExpr:
		return t.expr(x.X)
	case *ast.FuncLit:
		// a closure: its body may only do local work or embedded-mock calls (it runs at an unknown time,
		// possibly on another goroutine); captured mutable variables are unprotected shared locations
		sub := &tr{fset: t.fset, kind: t.kind, recv: t.recv, methods: t.methods, own: t.own, globals: t.globals, written: t.written, shared: t.shared}
		open := sub.block(x.Body.List, [][]Instr{nil})
		for _, p := range open {
			sub.finish(p, "return")
		}
		out := t.captured(x)
		for _, p := range sub.done {
			for _, in := range p.Ins {
				if in[0] != "Local" && in[0] != "Embedded" && in[0] != "Snap" && in[0] != "WriteNil" {
					fail(t.fset, x.Pos(), "closure touches shared mock state (%v)", in)
				}
			}
			out = append(out, p.Ins...)
		}
		return out
	case *ast.SelectorExpr:
		return t.selector(x, nil)
	case *ast.CallExpr:
		if id, ok := x.Fun.(*ast.Ident); ok && (id.Obj == nil) {
			// builtin, conversion or package-level function of the generated file: arguments only
			var out []Instr
			for _, a := range x.Args {
				out = append(out, t.expr(a)...)
			}
			return out
		}
		var args []Instr
		for _, a := range x.Args {
			args = append(args, t.expr(a)...)
		}
		switch f := x.Fun.(type) {
		case *ast.SelectorExpr:
			return t.selector(f, &args)
		default:
			return append(args, t.expr(x.Fun)...)
		}
	case *ast.ArrayType, *ast.StructType, *ast.FuncType, *ast.InterfaceType, *ast.MapType, *ast.ChanType, *ast.Ellipsis:
		return nil
	}
	fail(t.fset, e.Pos(), "unsupported expression %T", e)
	return nil
}

// a selector expression; args != nil when it is the function of a call
func (t *tr) selector(x *ast.SelectorExpr, args *[]Instr) []Instr {
	root := rootIdent(x)
	if root != nil {
		t.checkGlobal(root)
	}
	if !t.isRecv(root) {
		out := t.expr(x.X)
		if args != nil {
			out = append(*args, out...)
		}
		return out
	}
	c := chain(x)
	if c == nil {
		fail(t.fset, x.Pos(), "unsupported use of the receiver")
	}
	pre := []Instr{}
	if args != nil {
		pre = *args
	}
	if t.kind == "matryer" {
		switch {
		case len(c) == 3 && strings.HasPrefix(c[1], "lock") && args != nil:
			m, ok := t.methods[strings.TrimPrefix(c[1], "lock")]
			if !ok {
				fail(t.fset, x.Pos(), "unknown lock field %s", c[1])
			}
			switch c[2] {
			case "Lock", "Unlock", "RLock", "RUnlock":
				return append(pre, Instr{c[2], m})
			}
			fail(t.fset, x.Pos(), "unsupported lock operation %s.%s", c[1], c[2])
		case len(c) == 3 && c[1] == "calls" && args == nil:
			m, ok := t.methods[c[2]]
			if !ok {
				fail(t.fset, x.Pos(), "unknown call log %s", c[2])
			}
			return []Instr{{"Snap", m}}
		case len(c) == 2 && strings.HasSuffix(c[1], "Func"):
			m, ok := t.methods[strings.TrimSuffix(c[1], "Func")]
			if !ok {
				fail(t.fset, x.Pos(), "unknown func field %s", c[1])
			}
			if args != nil {
				return append(pre, Instr{"ReadFunc", m}, Instr{"CallFunc", m})
			}
			return []Instr{{"ReadFunc", m}}
		}
		fail(t.fset, x.Pos(), "unsupported use of the receiver: %s", strings.Join(c, "."))
	}
	// testify
	switch {
	case len(c) == 2 && c[1] == "Called" && args != nil:
		return append(pre, Instr{"Embedded", 0})
	case len(c) == 3 && c[1] == "mock" && c[2] == "On" && args != nil:
		return append(pre, Instr{"Embedded", 1})
	case len(c) == 3 && (c[1] == "Call" || c[1] == "Mock") && args != nil:
		return append(pre, Instr{"Embedded", 2})
	case len(c) == 2 && args != nil && t.own[c[1]]:
		return append(pre, Instr{"Local", -1}) // another generated method of the same type (translated on its own)
	case len(c) == 2 && args != nil && (c[1] == "AssertExpectations" || c[1] == "On" || c[1] == "Test"):
		return append(pre, Instr{"Embedded", 2}) // promoted method of the embedded mock.Mock
	}
	fail(t.fset, x.Pos(), "unsupported use of the receiver: %s", strings.Join(c, "."))
	return nil
}

func (t *tr) finish(p []Instr, end string) {
	for i := len(t.defers) - 1; i >= 0; i-- {
		p = append(append([]Instr{}, p...), t.defers[i]...)
	}
	t.done = append(t.done, Path{End: end, Ins: p})
}

func addAll(open [][]Instr, ins []Instr) [][]Instr {
	out := make([][]Instr, len(open))
	for i, p := range open {
		out[i] = append(append([]Instr{}, p...), ins...)
	}
	return out
}

func onlyLocal(ins []Instr) bool {
	for _, in := range ins {
		if in[0] != "Local" && in[0] != "Embedded" {
			return false
		}
	}
	return true
}

func (t *tr) writesRecv(lhs ast.Expr) bool {
	r := rootIdent(lhs)
	if r != nil {
		t.checkGlobal(r)
	}
	return t.isRecv(r)
}

func (t *tr) block(stmts []ast.Stmt, open [][]Instr) [][]Instr {
	for _, s := range stmts {
		if len(open) == 0 {
			return open
		}
		open = t.stmt(s, open)
	}
	return open
}

func (t *tr) stmt(s ast.Stmt, open [][]Instr) [][]Instr {
	switch x := s.(type) {
	case *ast.ExprStmt:
		if call, ok := x.X.(*ast.CallExpr); ok {
			if id, ok := call.Fun.(*ast.Ident); ok && id.Name == "panic" && id.Obj == nil {
				var ins []Instr
				for _, a := range call.Args {
					ins = append(ins, t.expr(a)...)
				}
				for _, p := range addAll(open, ins) {
					t.finish(p, "panic")
				}
				return nil
			}
		}
		ins := t.expr(x.X)
		if len(ins) == 0 {
			ins = local()
		}
		return addAll(open, ins)
	case *ast.AssignStmt:
		// the two write patterns of the matryer template
		if t.kind == "matryer" && len(x.Lhs) == 1 && len(x.Rhs) == 1 && t.writesRecv(x.Lhs[0]) {
			c := chain(x.Lhs[0])
			if len(c) == 3 && c[1] == "calls" && x.Tok == token.ASSIGN {
				m, ok := t.methods[c[2]]
				if !ok {
					fail(t.fset, x.Pos(), "unknown call log %s", c[2])
				}
				if id, ok := x.Rhs[0].(*ast.Ident); ok && id.Name == "nil" && id.Obj == nil {
					return addAll(open, []Instr{{"WriteNil", m}})
				}
				if call, ok := x.Rhs[0].(*ast.CallExpr); ok {
					if id, ok := call.Fun.(*ast.Ident); ok && id.Name == "append" && id.Obj == nil && len(call.Args) == 2 && !call.Ellipsis.IsValid() {
						c2 := chain(call.Args[0])
						if len(c2) == 3 && c2[0] == c[0] && c2[1] == "calls" && c2[2] == c[2] {
							v := t.expr(call.Args[1])
							if len(v) != 0 {
								fail(t.fset, x.Pos(), "the appended value is not a local")
							}
							return addAll(open, []Instr{{"ReadLog", m}, {"WriteApp", m}})
						}
					}
				}
			}
			fail(t.fset, x.Pos(), "unsupported write to the mock")
		}
		var ins []Instr
		for _, l := range x.Lhs {
			if t.writesRecv(l) {
				fail(t.fset, x.Pos(), "write to state reachable from the receiver")
			}
			if _, ok := l.(*ast.Ident); !ok {
				ins = append(ins, t.expr(l)...)
			}
		}
		for _, r := range x.Rhs {
			ins = append(ins, t.expr(r)...)
		}
		if len(ins) == 0 {
			ins = local()
		}
		return addAll(open, ins)
	case *ast.IncDecStmt:
		if t.writesRecv(x.X) {
			fail(t.fset, x.Pos(), "write to state reachable from the receiver")
		}
		return addAll(open, local())
	case *ast.DeclStmt:
		var ins []Instr
		if gd, ok := x.Decl.(*ast.GenDecl); ok {
			for _, sp := range gd.Specs {
				if vs, ok := sp.(*ast.ValueSpec); ok {
					for _, v := range vs.Values {
						ins = append(ins, t.expr(v)...)
					}
				}
			}
		}
		if len(ins) == 0 {
			ins = local()
		}
		return addAll(open, ins)
	case *ast.ReturnStmt:
		var ins []Instr
		for _, r := range x.Results {
			if id, ok := r.(*ast.Ident); ok && t.kind == "testify" && t.isRecv(id) {
				continue // fluent API: the receiver pointer itself is returned, nothing is accessed
			}
			ins = append(ins, t.expr(r)...)
		}
		if len(ins) == 0 {
			ins = local()
		}
		for _, p := range addAll(open, ins) {
			t.finish(p, "return")
		}
		return nil
	case *ast.IfStmt:
		if x.Init != nil {
			open = t.stmt(x.Init, open)
		}
		open = addAll(open, t.expr(x.Cond))
		thenOpen := t.block(x.Body.List, open)
		elseOpen := open
		if x.Else != nil {
			switch e := x.Else.(type) {
			case *ast.BlockStmt:
				elseOpen = t.block(e.List, open)
			default:
				elseOpen = t.stmt(e, open)
			}
		}
		return dedupe(append(append([][]Instr{}, thenOpen...), elseOpen...))
	case *ast.BlockStmt:
		return t.block(x.List, open)
	case *ast.DeferStmt:
		ins := t.expr(x.Call)
		t.defers = append(t.defers, ins)
		t.usedDefer = true
		return open
	case *ast.ForStmt, *ast.RangeStmt:
		// loop bodies may only do local work; emitted once
		sub := &tr{fset: t.fset, kind: t.kind, recv: t.recv, methods: t.methods, own: t.own, globals: t.globals, written: t.written, shared: t.shared}
		var body *ast.BlockStmt
		var ins []Instr
		switch l := x.(type) {
		case *ast.ForStmt:
			body = l.Body
			if l.Init != nil {
				for _, p := range sub.stmt(l.Init, [][]Instr{nil}) {
					ins = append(ins, p...)
				}
			}
			ins = append(ins, sub.expr(l.Cond)...)
		case *ast.RangeStmt:
			body = l.Body
			ins = append(ins, sub.expr(l.X)...)
		}
		for _, p := range sub.block(body.List, [][]Instr{nil}) {
			ins = append(ins, p...)
		}
		for _, p := range sub.done {
			ins = append(ins, p.Ins...)
		}
		if !onlyLocal(ins) || len(sub.done) > 0 {
			fail(t.fset, s.Pos(), "loop touches shared mock state or leaves the function")
		}
		if len(ins) == 0 {
			ins = local()
		}
		return addAll(open, ins)
	case *ast.EmptyStmt:
		return open
	}
	fail(t.fset, s.Pos(), "unsupported statement %T", s)
	return nil
}

func dedupe(ps [][]Instr) [][]Instr {
	seen := map[string]bool{}
	var out [][]Instr
	for _, p := range ps {
		k := fmt.Sprint(p)
		if !seen[k] {
			seen[k] = true
			out = append(out, p)
		}
	}
	return out
}

func recvOf(fd *ast.FuncDecl) (name, typ string) {
	if fd.Recv == nil || len(fd.Recv.List) == 0 {
		return "", ""
	}
	f := fd.Recv.List[0]
	if len(f.Names) > 0 {
		name = f.Names[0].Name
	}
	e := f.Type
	if s, ok := e.(*ast.StarExpr); ok {
		e = s.X
	}
	switch x := e.(type) {
	case *ast.IndexExpr:
		e = x.X
	case *ast.IndexListExpr:
		e = x.X
	}
	if id, ok := e.(*ast.Ident); ok {
		typ = id.Name
	}
	return
}

func translate(fset *token.FileSet, path string) File {
	f, err := parser.ParseFile(fset, path, nil, parser.SkipObjectResolution&0)
	if err != nil {
		fmt.Fprintln(os.Stderr, "goskel:", err)
		os.Exit(2)
	}
	out := File{File: path, Kind: "matryer"}
	for _, im := range f.Imports {
		if im.Path.Value == `"github.com/stretchr/testify/mock"` {
			out.Kind = "testify"
		}
	}
	globals := map[*ast.ValueSpec]bool{}
	structs := map[string]*ast.StructType{}
	var order []string
	for _, d := range f.Decls {
		gd, ok := d.(*ast.GenDecl)
		if !ok {
			continue
		}
		for _, sp := range gd.Specs {
			switch x := sp.(type) {
			case *ast.ValueSpec:
				if gd.Tok == token.VAR {
					blank := true
					for _, n := range x.Names {
						if n.Name != "_" {
							blank = false
						}
					}
					if !blank {
						globals[x] = true
					}
				}
			case *ast.TypeSpec:
				if st, ok := x.Type.(*ast.StructType); ok {
					structs[x.Name.Name] = st
					order = append(order, x.Name.Name)
				}
			}
		}
	}
	ownMethods := map[string]map[string]bool{}
	for _, d := range f.Decls {
		if fd, ok := d.(*ast.FuncDecl); ok {
			if _, typ := recvOf(fd); typ != "" {
				if ownMethods[typ] == nil {
					ownMethods[typ] = map[string]bool{}
				}
				ownMethods[typ][fd.Name.Name] = true
			}
		}
	}
	mocks := map[string]*Mock{}
	methodIds := map[string]map[string]int{}
	for _, name := range order {
		st := structs[name]
		if out.Kind == "matryer" {
			ids := map[string]int{}
			var names []string
			locks := map[string]bool{}
			found := false
			for _, fl := range st.Fields.List {
				for _, n := range fl.Names {
					if n.Name == "calls" {
						cs, ok := fl.Type.(*ast.StructType)
						if !ok {
							fail(fset, fl.Pos(), "calls is not a struct")
						}
						found = true
						for _, cf := range cs.Fields.List {
							for _, cn := range cf.Names {
								ids[cn.Name] = len(names)
								names = append(names, cn.Name)
							}
						}
					}
					if strings.HasPrefix(n.Name, "lock") {
						locks[strings.TrimPrefix(n.Name, "lock")] = true
					}
				}
			}
			if !found {
				continue
			}
			for _, m := range names {
				if !locks[m] {
					fail(fset, st.Pos(), "mock %s: no lock field for method %s", name, m)
				}
			}
			methodIds[name] = ids
			mocks[name] = &Mock{Name: name, Methods: names}
		} else {
			mocks[name] = &Mock{Name: name}
		}
	}
	if out.Kind == "testify" {
		mocks[""] = &Mock{Name: "<functions>"}
	}
	for _, d := range f.Decls {
		fd, ok := d.(*ast.FuncDecl)
		if !ok || fd.Body == nil {
			continue
		}
		rname, rtyp := recvOf(fd)
		mk := mocks[rtyp]
		if mk == nil {
			if out.Kind == "matryer" {
				fail(fset, fd.Pos(), "function %s is not a method of a mock", fd.Name.Name)
			}
			mk = mocks[""]
		}
		t := &tr{fset: fset, kind: out.Kind, recv: rname, methods: methodIds[rtyp], own: ownMethods[rtyp], globals: globals,
			written: writtenVars(fd.Body), shared: map[*ast.Object]int{}}
		open := t.block(fd.Body.List, [][]Instr{nil})
		for _, p := range open {
			t.finish(p, "return")
		}
		b := Body{Name: fd.Name.Name, Defer: t.usedDefer}
		for _, p := range t.done {
			if p.Ins == nil {
				p.Ins = []Instr{}
			}
			b.Paths = append(b.Paths, p)
		}
		if out.Kind == "testify" {
			b.Role = Role{K: "testify", M: -1}
		} else {
			ids := methodIds[rtyp]
			n := fd.Name.Name
			switch {
			case n == "ResetCalls":
				all := []int{}
				for _, id := range ids {
					all = append(all, id)
				}
				sort.Ints(all)
				b.Role = Role{K: "resetall", M: -1, Ms: all}
			default:
				if id, ok := ids[n]; ok {
					b.Role = Role{K: "call", M: id}
				} else if id, ok := ids[strings.TrimSuffix(n, "Calls")]; ok && strings.HasSuffix(n, "Calls") && !strings.HasPrefix(n, "Reset") {
					b.Role = Role{K: "calls", M: id}
				} else if id, ok := ids[strings.TrimSuffix(strings.TrimPrefix(n, "Reset"), "Calls")]; ok && strings.HasPrefix(n, "Reset") && strings.HasSuffix(n, "Calls") {
					b.Role = Role{K: "reset", M: id}
				} else {
					fail(fset, fd.Pos(), "method %s of mock %s has no known role", n, rtyp)
				}
			}
		}
		mk.Bodies = append(mk.Bodies, b)
	}
	names := make([]string, 0, len(mocks))
	for n := range mocks {
		names = append(names, n)
	}
	sort.Strings(names)
	for _, n := range names {
		if len(mocks[n].Bodies) > 0 {
			out.Mocks = append(out.Mocks, *mocks[n])
		}
	}
	return out
}

func main() {
	fset := token.NewFileSet()
	var files []File
	for _, p := range os.Args[1:] {
		files = append(files, translate(fset, p))
	}
	if err := json.NewEncoder(os.Stdout).Encode(files); err != nil {
		fmt.Fprintln(os.Stderr, err)
		os.Exit(2)
	}
}
