// gotype: stdlib-only helper.  Reads JSON [{"k":kind,"s":text},...] on stdin, parses each
// text with go/parser in the syntactic context given by kind and prints a canonical
// S-expression per item (JSON array of strings; "ERR ..." when the text does not parse).
//
// kinds:  type     a type expression                       -> T
//         params   a parameter list  "a int, b ...string"   -> (params A*)
//         results  a result clause   "int" | "(int, error)" -> (results A*)
//         rlist    a bare result list "x int, err error"    -> (results A*)
//         sig      "(params) (results)"                     -> (sig (params..) (results..))
//         decl     "Name(params) (results)"                 -> (decl Name (params..) (results..))
//         args     a call argument list "a, b..."           -> (args (v a) (vell b))
//         call     "Name(a, b...)"                          -> (call Name (args ..))
//         tparams  "[T any, K comparable]" or ""            -> (tparams (tp T C)*)
//         targs    "[T, K]" or ""                           -> (targs T*)
//         names    "a, b"                                   -> (names a b)
//
// T ::= (id n) | (sel q n) | (inst T T+) | (ptr T) | (slice T) | (array N T) | (map T T)
//     | (chan both|send|recv T) | (func (params A*) (results A*)) | (struct F*) | (iface M*)
//     | (union U+)
// A ::= (a n:<name>|- T) | (a n:<name>|- (ell T))
// F ::= (f <name> T <taghex>|-) | (emb T <taghex>|-)
// M ::= (m <name> (params A*) (results A*)) | (e T)
// U ::= (t T) | (tilde T)
//
// mode "decls": argument file paths; prints JSON {file: {"types":[names], "methods":{recv:[names]}}}
package main

import (
	"encoding/hex"
	"encoding/json"
	"fmt"
	"go/ast"
	"go/parser"
	"go/token"
	"os"
	"strconv"
	"strings"
)

type item struct {
	K string `json:"k"`
	S string `json:"s"`
}

func typ(e ast.Expr) string {
	switch t := e.(type) {
	case *ast.Ident:
		return "(id " + t.Name + ")"
	case *ast.ParenExpr:
		return typ(t.X)
	case *ast.SelectorExpr:
		if x, ok := t.X.(*ast.Ident); ok {
			return "(sel " + x.Name + " " + t.Sel.Name + ")"
		}
		panic("selector on non-identifier")
	case *ast.IndexExpr:
		return "(inst " + typ(t.X) + " " + typ(t.Index) + ")"
	case *ast.IndexListExpr:
		s := "(inst " + typ(t.X)
		for _, i := range t.Indices {
			s += " " + typ(i)
		}
		return s + ")"
	case *ast.StarExpr:
		return "(ptr " + typ(t.X) + ")"
	case *ast.ArrayType:
		if t.Len == nil {
			return "(slice " + typ(t.Elt) + ")"
		}
		if l, ok := t.Len.(*ast.BasicLit); ok {
			return "(array " + l.Value + " " + typ(t.Elt) + ")"
		}
		panic("array length")
	case *ast.Ellipsis:
		return "(ell " + typ(t.Elt) + ")"
	case *ast.MapType:
		return "(map " + typ(t.Key) + " " + typ(t.Value) + ")"
	case *ast.ChanType:
		d := "both"
		if t.Dir == ast.SEND {
			d = "send"
		} else if t.Dir == ast.RECV {
			d = "recv"
		}
		return "(chan " + d + " " + typ(t.Value) + ")"
	case *ast.FuncType:
		if t.TypeParams != nil {
			panic("type parameters on a func type")
		}
		return "(func " + fields("params", t.Params) + " " + fields("results", t.Results) + ")"
	case *ast.StructType:
		s := "(struct"
		for _, f := range t.Fields.List {
			tag := "-"
			if f.Tag != nil {
				u, err := strconv.Unquote(f.Tag.Value)
				if err != nil {
					panic(err)
				}
				tag = hex.EncodeToString([]byte(u))
				if tag == "" {
					tag = "-"
				}
			}
			if len(f.Names) == 0 {
				s += " (emb " + typ(f.Type) + " " + tag + ")"
			}
			for _, n := range f.Names {
				s += " (f " + n.Name + " " + typ(f.Type) + " " + tag + ")"
			}
		}
		return s + ")"
	case *ast.InterfaceType:
		s := "(iface"
		for _, f := range t.Methods.List {
			if len(f.Names) == 0 {
				s += " (e " + typ(f.Type) + ")"
				continue
			}
			ft := f.Type.(*ast.FuncType)
			for _, n := range f.Names {
				s += " (m " + n.Name + " " + fields("params", ft.Params) + " " + fields("results", ft.Results) + ")"
			}
		}
		return s + ")"
	case *ast.BinaryExpr:
		if t.Op == token.OR {
			return "(union" + strings.Join(unionTerms(e), "") + ")"
		}
	case *ast.UnaryExpr:
		if t.Op == token.TILDE {
			return "(union (tilde " + typ(t.X) + "))"
		}
		if t.Op == token.ARROW { // <-chan T is parsed as a channel type by ParseExpr
			panic("unexpected receive expression")
		}
	}
	panic(fmt.Sprintf("unsupported expression %T", e))
}

func unionTerms(e ast.Expr) []string {
	if b, ok := e.(*ast.BinaryExpr); ok && b.Op == token.OR {
		return append(unionTerms(b.X), unionTerms(b.Y)...)
	}
	if u, ok := e.(*ast.UnaryExpr); ok && u.Op == token.TILDE {
		return []string{" (tilde " + typ(u.X) + ")"}
	}
	return []string{" (t " + typ(e) + ")"}
}

func fields(head string, fl *ast.FieldList) string {
	s := "(" + head
	if fl != nil {
		for _, f := range fl.List {
			if len(f.Names) == 0 {
				s += " (a - " + typ(f.Type) + ")"
			}
			for _, n := range f.Names {
				s += " (a n:" + n.Name + " " + typ(f.Type) + ")"
			}
		}
	}
	return s + ")"
}

func expr(src string) ast.Expr {
	e, err := parser.ParseExpr(src)
	if err != nil {
		panic(err)
	}
	return e
}

func args(list []ast.Expr, ell token.Pos) string {
	s := "(args"
	for i, a := range list {
		id, ok := a.(*ast.Ident)
		if !ok {
			panic("argument is not an identifier")
		}
		if ell.IsValid() && i == len(list)-1 {
			s += " (vell " + id.Name + ")"
		} else {
			s += " (v " + id.Name + ")"
		}
	}
	return s + ")"
}

func convert(it item) (out string) {
	defer func() {
		if r := recover(); r != nil {
			out = fmt.Sprint("ERR ", r)
		}
	}()
	switch it.K {
	case "type":
		return typ(expr(it.S))
	case "params":
		ft := expr("func(" + it.S + ")").(*ast.FuncType)
		return fields("params", ft.Params)
	case "results":
		ft := expr("func() " + it.S).(*ast.FuncType)
		return fields("results", ft.Results)
	case "rlist":
		ft := expr("func() (" + it.S + ")").(*ast.FuncType)
		return fields("results", ft.Results)
	case "sig":
		ft := expr("func" + it.S).(*ast.FuncType)
		return "(sig " + fields("params", ft.Params) + " " + fields("results", ft.Results) + ")"
	case "decl":
		t := expr("interface{ " + it.S + " }").(*ast.InterfaceType)
		if len(t.Methods.List) != 1 || len(t.Methods.List[0].Names) != 1 {
			panic("not exactly one method")
		}
		f := t.Methods.List[0]
		ft := f.Type.(*ast.FuncType)
		return "(decl " + f.Names[0].Name + " " + fields("params", ft.Params) + " " + fields("results", ft.Results) + ")"
	case "args":
		c := expr("f(" + it.S + ")").(*ast.CallExpr)
		return args(c.Args, c.Ellipsis)
	case "call":
		c := expr(it.S).(*ast.CallExpr)
		return "(call " + c.Fun.(*ast.Ident).Name + " " + args(c.Args, c.Ellipsis) + ")"
	case "names":
		if strings.TrimSpace(it.S) == "" {
			return "(names)"
		}
		c := expr("f(" + it.S + ")").(*ast.CallExpr)
		s := "(names"
		for _, a := range c.Args {
			s += " " + a.(*ast.Ident).Name
		}
		return s + ")"
	case "tparams":
		fset := token.NewFileSet()
		f, err := parser.ParseFile(fset, "x.go", "package p\ntype X"+it.S+" struct{}\n", 0)
		if err != nil {
			panic(err)
		}
		ts := f.Decls[0].(*ast.GenDecl).Specs[0].(*ast.TypeSpec)
		s := "(tparams"
		if ts.TypeParams != nil {
			for _, fl := range ts.TypeParams.List {
				for _, n := range fl.Names {
					s += " (tp " + n.Name + " " + typ(fl.Type) + ")"
				}
			}
		}
		return s + ")"
	case "targs":
		if strings.TrimSpace(it.S) == "" {
			return "(targs)"
		}
		e := expr("X" + it.S)
		s := "(targs"
		switch t := e.(type) {
		case *ast.IndexExpr:
			s += " " + typ(t.Index)
		case *ast.IndexListExpr:
			for _, i := range t.Indices {
				s += " " + typ(i)
			}
		default:
			panic("not an instantiation")
		}
		return s + ")"
	}
	panic("unknown kind " + it.K)
}

type fileDecls struct {
	Types   []string            `json:"types"`
	Methods map[string][]string `json:"methods"`
	Err     string              `json:"err,omitempty"`
}

func recvName(e ast.Expr) string {
	switch t := e.(type) {
	case *ast.StarExpr:
		return recvName(t.X)
	case *ast.IndexExpr:
		return recvName(t.X)
	case *ast.IndexListExpr:
		return recvName(t.X)
	case *ast.Ident:
		return t.Name
	}
	return "?"
}

func decls(paths []string) {
	res := map[string]*fileDecls{}
	for _, p := range paths {
		d := &fileDecls{Types: []string{}, Methods: map[string][]string{}}
		res[p] = d
		fset := token.NewFileSet()
		f, err := parser.ParseFile(fset, p, nil, 0)
		if err != nil {
			d.Err = err.Error()
			continue
		}
		for _, dc := range f.Decls {
			switch x := dc.(type) {
			case *ast.GenDecl:
				for _, sp := range x.Specs {
					if ts, ok := sp.(*ast.TypeSpec); ok {
						d.Types = append(d.Types, ts.Name.Name)
					}
				}
			case *ast.FuncDecl:
				if x.Recv != nil && len(x.Recv.List) == 1 {
					r := recvName(x.Recv.List[0].Type)
					d.Methods[r] = append(d.Methods[r], x.Name.Name)
				}
			}
		}
	}
	json.NewEncoder(os.Stdout).Encode(res)
}

func main() {
	if len(os.Args) > 1 && os.Args[1] == "decls" {
		decls(os.Args[2:])
		return
	}
	var items []item
	if err := json.NewDecoder(os.Stdin).Decode(&items); err != nil {
		fmt.Fprintln(os.Stderr, err)
		os.Exit(2)
	}
	out := make([]string, len(items))
	for i, it := range items {
		out[i] = convert(it)
	}
	json.NewEncoder(os.Stdout).Encode(out)
}
