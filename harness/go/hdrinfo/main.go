// hdrinfo: for each Go file named on stdin (JSON list of paths) report what the Go
// toolchain's own parser says about its header: ast.IsGenerated, the byte offset of the
// package keyword and the package name.  Standard library only.
package main

import (
	"encoding/json"
	"go/ast"
	"go/parser"
	"go/token"
	"os"
)

type out struct {
	Path      string `json:"path"`
	Ok        bool   `json:"ok"`
	Generated bool   `json:"generated"`
	PkgOff    int    `json:"pkg_off"`
	PkgName   string `json:"pkg_name"`
	Err       string `json:"err,omitempty"`
}

func main() {
	var paths []string
	if err := json.NewDecoder(os.Stdin).Decode(&paths); err != nil {
		panic(err)
	}
	res := make([]out, 0, len(paths))
	for _, p := range paths {
		o := out{Path: p}
		fset := token.NewFileSet()
		f, err := parser.ParseFile(fset, p, nil, parser.PackageClauseOnly|parser.ParseComments)
		if err != nil {
			o.Err = err.Error()
		} else {
			o.Ok = true
			o.Generated = ast.IsGenerated(f)
			o.PkgOff = fset.Position(f.Package).Offset
			o.PkgName = f.Name.Name
		}
		res = append(res, o)
	}
	json.NewEncoder(os.Stdout).Encode(res)
}
