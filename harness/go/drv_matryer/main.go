// drv_matryer replays call histories on freshly generated matryer-style mocks by reflection
// (C04).  It is copied into a scratch user module next to a generated registry.go
// (same package) whose init() fills `registry` with one constructor per generated mock,
// and built there.  Nothing here knows any generated type statically.
//
// Values are opaque tokens: enc(T, n) builds a value of type T that carries the number n
// (n = 0 is T's zero value, nil for nillable types), dec is its inverse.  A variadic
// parameter is reported as the slice the mock saw: null (nil slice) or a token list.
//
// A function installed by "set" may carry "nested" operations (calls / call / resetm / resetall): it
// performs them on the mock while it runs (recovering their panics) and reports their outcomes in
// the "inv" list of the running top-level call, in order, next to the invocations.  Every top-level
// operation runs under a watchdog; one that never returns is reported as {"k":"deadlock"} and the
// rest of that history as {"k":"skipped"}.  At most FUEL activations are nested ("outoffuel").
//
// stdin : JSON [{"mock":"p0.MoqI0","ops":[{"op":"set","m":"B","beh":"const","res":[1,0],"nested":[{"op":"calls","m":"B"}]},
//               {"op":"call","m":"B","fixed":[1,2],"var":"none|elems|spread","elems":[..],"nilslice":bool},
//               {"op":"calls","m":"B","keep":1},{"op":"recheck","keep":1},{"op":"resetm","m":"B"},{"op":"resetall"}]}]
// "keep": the slice returned by <M>Calls() is kept as it is (not copied); "recheck" reports what it holds NOW.
// stdout: JSON [[{"k":"unit"},{"k":"ret","res":[..],"inv":[{"m":"B","args":[..]}]},{"k":"panic","msg":".."},
//               {"k":"panicuser","inv":[..]},{"k":"records","l":[[{"f":"S","v":1},..],..]},{"k":"nomethod"}],..]
package main

import (
	"context"
	"encoding/json"
	"fmt"
	"os"
	"reflect"
	"sort"
	"strconv"
	"strings"
	"time"
)

var registry = map[string]func() any{}

type tokErr int

func (e tokErr) Error() string { return "e" + strconv.Itoa(int(e)) }

type ctxKey struct{}
type userPanic struct{}

var errType = reflect.TypeOf((*error)(nil)).Elem()
var ctxType = reflect.TypeOf((*context.Context)(nil)).Elem()

func enc(t reflect.Type, n int) reflect.Value {
	v := reflect.New(t).Elem()
	if n == 0 {
		return v
	}
	switch t.Kind() {
	case reflect.Bool:
		v.SetBool(n == 1)
	case reflect.Int, reflect.Int8, reflect.Int16, reflect.Int32, reflect.Int64:
		v.SetInt(int64(n))
	case reflect.Uint, reflect.Uint8, reflect.Uint16, reflect.Uint32, reflect.Uint64, reflect.Uintptr:
		v.SetUint(uint64(n))
	case reflect.Float32, reflect.Float64:
		v.SetFloat(float64(n))
	case reflect.Complex64, reflect.Complex128:
		v.SetComplex(complex(float64(n), 0))
	case reflect.String:
		v.SetString("v" + strconv.Itoa(n))
	case reflect.Ptr:
		p := reflect.New(t.Elem())
		p.Elem().Set(enc(t.Elem(), n))
		v.Set(p)
	case reflect.Slice:
		s := reflect.MakeSlice(t, 1, 1)
		s.Index(0).Set(enc(t.Elem(), n))
		v.Set(s)
	case reflect.Array:
		v.Index(0).Set(enc(t.Elem(), n))
	case reflect.Map:
		m := reflect.MakeMap(t)
		m.SetMapIndex(enc(t.Key(), n), enc(t.Elem(), n))
		v.Set(m)
	case reflect.Chan:
		c := reflect.MakeChan(reflect.ChanOf(reflect.BothDir, t.Elem()), n)
		v.Set(c.Convert(t))
	case reflect.Func:
		if t.NumOut() == 0 {
			panic("drv_matryer: func type without results cannot carry a token: " + t.String())
		}
		f := reflect.MakeFunc(t, func(args []reflect.Value) []reflect.Value {
			outs := make([]reflect.Value, t.NumOut())
			for i := range outs {
				outs[i] = reflect.New(t.Out(i)).Elem()
			}
			outs[0] = enc(t.Out(0), n)
			return outs
		})
		v.Set(f)
	case reflect.Struct:
		v.Field(0).Set(enc(t.Field(0).Type, n))
	case reflect.Interface:
		switch {
		case t == errType:
			v.Set(reflect.ValueOf(tokErr(n)))
		case t == ctxType:
			v.Set(reflect.ValueOf(context.WithValue(context.Background(), ctxKey{}, n)))
		case t.NumMethod() == 0:
			v.Set(reflect.ValueOf(n))
		default:
			panic("drv_matryer: unsupported interface type " + t.String())
		}
	default:
		panic("drv_matryer: unsupported type " + t.String())
	}
	return v
}

func dec(v reflect.Value) int {
	switch v.Kind() {
	case reflect.Bool:
		if v.Bool() {
			return 1
		}
		return 0
	case reflect.Int, reflect.Int8, reflect.Int16, reflect.Int32, reflect.Int64:
		return int(v.Int())
	case reflect.Uint, reflect.Uint8, reflect.Uint16, reflect.Uint32, reflect.Uint64, reflect.Uintptr:
		return int(v.Uint())
	case reflect.Float32, reflect.Float64:
		return int(v.Float())
	case reflect.Complex64, reflect.Complex128:
		return int(real(v.Complex()))
	case reflect.String:
		s := v.String()
		if s == "" {
			return 0
		}
		n, err := strconv.Atoi(strings.TrimPrefix(s, "v"))
		if err != nil || !strings.HasPrefix(s, "v") {
			return -1
		}
		return n
	case reflect.Ptr:
		if v.IsNil() {
			return 0
		}
		return dec(v.Elem())
	case reflect.Slice:
		if v.IsNil() {
			return 0
		}
		if v.Len() != 1 {
			return -2
		}
		return dec(v.Index(0))
	case reflect.Array:
		return dec(v.Index(0))
	case reflect.Map:
		if v.IsNil() {
			return 0
		}
		if v.Len() != 1 {
			return -2
		}
		k := v.MapKeys()[0]
		if dec(k) != dec(v.MapIndex(k)) {
			return -3
		}
		return dec(k)
	case reflect.Chan:
		if v.IsNil() {
			return 0
		}
		return v.Cap()
	case reflect.Func:
		if v.IsNil() {
			return 0
		}
		t := v.Type()
		in := make([]reflect.Value, t.NumIn())
		for i := range in {
			in[i] = reflect.New(t.In(i)).Elem()
		}
		var out []reflect.Value
		if t.IsVariadic() {
			out = v.CallSlice(in)
		} else {
			out = v.Call(in)
		}
		return dec(out[0])
	case reflect.Struct:
		return dec(v.Field(0))
	case reflect.Interface:
		if v.IsNil() {
			return 0
		}
		switch x := v.Interface().(type) {
		case tokErr:
			return int(x)
		case context.Context:
			if n, ok := x.Value(ctxKey{}).(int); ok {
				return n
			}
			return -4
		}
		if v.Elem().Kind() == reflect.Func {
			return -7 // the driver never boxes a func in an interface value: something else's func arrived here
		}
		return dec(v.Elem())
	}
	return -9
}

// the value of a variadic parameter: nil -> JSON null, otherwise the element tokens
func decSlice(v reflect.Value) any {
	if v.IsNil() {
		return nil
	}
	out := make([]int, v.Len())
	for i := range out {
		out[i] = dec(v.Index(i))
	}
	return out
}

type Op struct {
	Op       string `json:"op"`
	M        string `json:"m"`
	Beh      string `json:"beh"`
	Res      []int  `json:"res"`
	Fixed    []int  `json:"fixed"`
	Var      string `json:"var"`
	Elems    []int  `json:"elems"`
	NilSlice bool   `json:"nilslice"`
	Nested   []Op   `json:"nested"` // "set": operations the installed function performs on the mock while running
	Keep     int    `json:"keep"`   // "calls": keep the returned slice under this id (> 0); "recheck": the id to look at again
	First    bool   `json:"first"`  // "set": ... but only when <M>Calls() read by the function holds just the running call
}
type Job struct {
	Mock string `json:"mock"`
	Ops  []Op   `json:"ops"`
}
// one thing seen while a call runs: an invocation of a user function (M, Args) or the outcome of a
// nested operation performed by a running user function (Nested)
type Inv struct {
	M      string `json:"m,omitempty"`
	Args   []any  `json:"args,omitempty"`
	Nested *Out   `json:"nested,omitempty"`
	// parameters (by position) for which the user function did NOT receive the caller's own slice / map /
	// pointer / channel (same backing array, same map, same address) but something else, e.g. a clone
	Ident []int `json:"ident,omitempty"`
}
type Fld struct {
	F string `json:"f"`
	V any    `json:"v"`
}
type Out struct {
	K   string  `json:"k"`
	Res []any   `json:"res"`
	Inv []Inv   `json:"inv,omitempty"`
	Msg string  `json:"msg,omitempty"`
	L   [][]Fld `json:"l"`
	// "call": parameters (by position) into which the user function wrote a marker (element 0 of a slice, a new
	// key of a map) that the caller does not see in its own argument after the call
	LostWrites []int `json:"lost_writes,omitempty"`
}

var invoked []Inv

// FUEL mirrors Harness/C04.v: at most FUEL activations nested in each other; a nested call that
// would exceed it is not made, the whole top-level call is reported as "outoffuel".
const FUEL = 3

type outOfFuel struct{}

var deadlocks int

// depth of the activation whose generated method is being entered (read by the user function it invokes)
var actDepth int

// runTop runs one top-level operation under a watchdog: a generated method that never returns
// (a lock still held while the user function re-enters the mock) is reported as "deadlock".
func runTop(mock reflect.Value, op Op) Out {
	invoked = nil
	done := make(chan Out, 1)
	go func() {
		o := runOp(mock, op, 1)
		if o.K == "ret" || o.K == "panicuser" || o.K == "outoffuel" || o.K == "panic" {
			o.Inv = invoked
		}
		done <- o
	}()
	wait := 5 * time.Second // generous: the machine may be heavily loaded; a healthy step takes microseconds
	if ms, err := strconv.Atoi(os.Getenv("DRV_WATCHDOG_MS")); err == nil && ms > 0 {
		wait = time.Duration(ms) * time.Millisecond // used while shrinking a history that already deadlocked
	}
	if deadlocks >= 3 && wait > 500*time.Millisecond && os.Getenv("DRV_WATCHDOG_MS") == "" {
		wait = 500 * time.Millisecond // the check re-runs every timed-out history alone with a long watchdog anyway
	}
	select {
	case o := <-done:
		return o
	case <-time.After(wait):
		select {
		case o := <-done: // finished while this goroutine was waiting to be scheduled: not a timeout
			return o
		default:
		}
		deadlocks++
		return Out{K: "deadlock"} // first-stage verdict only: harness/checks/c04.py confirms it in a process of its own
	}
}

type keptSlice struct {
	recs     reflect.Value
	variadic bool
}

// results of <M>Calls() kept by the test of the current job, by id
var kept = map[int]keptSlice{}

func recordsOut(recs reflect.Value, variadic bool) Out {
	o := Out{K: "records", L: [][]Fld{}}
	for i := 0; i < recs.Len(); i++ {
		r := recs.Index(i)
		fl := []Fld{}
		for j := 0; j < r.NumField(); j++ {
			var v any
			if variadic && j == r.NumField()-1 {
				v = decSlice(r.Field(j))
			} else {
				v = dec(r.Field(j))
			}
			fl = append(fl, Fld{F: r.Type().Field(j).Name, V: v})
		}
		o.L = append(o.L, fl)
	}
	return o
}

// one activation of a generated method, as the caller sees it: the argument values it passed (a variadic
// parameter as the slice that was passed) and what the user function reports to have written into them
type frame struct {
	args  []reflect.Value
	got   []reflect.Value       // what the user function received (set by it)
	wrote map[int]int           // parameter -> marker token written by the user function
	saved map[int]reflect.Value // parameter -> original element 0 (slices), to be put back
}

var frames []*frame

func refIdentity(v reflect.Value) (uintptr, bool) {
	switch v.Kind() {
	case reflect.Slice:
		if v.IsNil() || v.Cap() == 0 {
			return 0, false
		}
		return v.Pointer(), true
	case reflect.Map, reflect.Ptr, reflect.Chan:
		if v.IsNil() {
			return 0, false
		}
		return v.Pointer(), true
	}
	return 0, false
}

// a marker token different from tok that the element type can carry; ok=false if there is none
func markerFor(t reflect.Type, tok int) (int, bool) {
	switch t.Kind() {
	case reflect.Bool, reflect.Func, reflect.Chan:
		return 0, false
	}
	if tok == 7 {
		return 8, true
	}
	return 7, true
}

// the user function's side: compare identities, then (at its very end) write markers
func (fr *frame) identMismatch(got []reflect.Value) []int {
	var bad []int
	for i, g := range got {
		if i >= len(fr.args) {
			break
		}
		want, ok := refIdentity(fr.args[i])
		if !ok {
			continue
		}
		if have, ok2 := refIdentity(g); !ok2 || have != want {
			bad = append(bad, i)
		}
	}
	return bad
}

func (fr *frame) writeMarkers(got []reflect.Value) {
	for i, g := range got {
		if i >= len(fr.args) {
			break
		}
		switch g.Kind() {
		case reflect.Slice:
			if g.IsNil() || g.Len() == 0 {
				continue
			}
			mk, ok := markerFor(g.Type().Elem(), dec(g.Index(0)))
			if !ok {
				continue
			}
			fr.saved[i] = reflect.New(g.Type().Elem()).Elem()
			fr.saved[i].Set(g.Index(0))
			g.Index(0).Set(enc(g.Type().Elem(), mk))
			fr.wrote[i] = mk
		case reflect.Map:
			if g.IsNil() || g.Len() != 1 {
				continue
			}
			mk, ok := markerFor(g.Type().Key(), dec(g.MapKeys()[0]))
			if !ok {
				continue
			}
			if _, ok := markerFor(g.Type().Elem(), 0); !ok && g.Type().Elem().Kind() != reflect.Bool {
				continue
			}
			g.SetMapIndex(enc(g.Type().Key(), mk), reflect.Zero(g.Type().Elem()))
			fr.wrote[i] = mk
		}
	}
}

// the caller's side, after the generated method returned or panicked: are the markers in MY arguments? put things back
func (fr *frame) finish(got []reflect.Value, out *Out) {
	for i, mk := range fr.wrote {
		a := fr.args[i]
		switch a.Kind() {
		case reflect.Slice:
			if a.Len() == 0 || dec(a.Index(0)) != mk {
				out.LostWrites = append(out.LostWrites, i)
			}
			if a.Len() > 0 {
				a.Index(0).Set(fr.saved[i])
			}
			if i < len(got) && got[i].Kind() == reflect.Slice && got[i].Len() > 0 {
				got[i].Index(0).Set(fr.saved[i]) // a clone keeps nothing of the marker either
			}
		case reflect.Map:
			k := enc(a.Type().Key(), mk)
			if !a.MapIndex(k).IsValid() {
				out.LostWrites = append(out.LostWrites, i)
			}
			a.SetMapIndex(k, reflect.Value{})
			if i < len(got) && got[i].Kind() == reflect.Map && !got[i].IsNil() {
				got[i].SetMapIndex(k, reflect.Value{})
			}
		}
	}
	sort.Ints(out.LostWrites)
}

func runOp(mock reflect.Value, op Op, depth int) (out Out) {
	var fr *frame // set by "call": the activation this operation starts
	defer func() { // runs after the recover below: the outcome is known, look at my own arguments again
		if fr != nil {
			fr.finish(fr.got, &out)
			frames = frames[:len(frames)-1]
		}
	}()
	defer func() {
		if r := recover(); r != nil {
			switch r.(type) {
			case userPanic:
				out = Out{K: "panicuser"}
			case outOfFuel:
				if depth > 1 {
					panic(r) // unwinds every running user function up to the top-level call
				}
				out = Out{K: "outoffuel"}
			default:
				out = Out{K: "panic", Msg: fmt.Sprint(r)}
			}
		}
	}()
	switch op.Op {
	case "set":
		f := mock.Elem().FieldByName(op.M + "Func")
		if !f.IsValid() {
			return Out{K: "nomethod"}
		}
		ft := f.Type()
		switch op.Beh {
		case "nil":
			f.Set(reflect.Zero(ft))
		default:
			name, beh, res, nested, first := op.M, op.Beh, op.Res, op.Nested, op.First
			f.Set(reflect.MakeFunc(ft, func(args []reflect.Value) []reflect.Value {
				rec := Inv{M: name, Args: []any{}}
				for i, a := range args {
					if ft.IsVariadic() && i == len(args)-1 {
						rec.Args = append(rec.Args, decSlice(a))
					} else {
						rec.Args = append(rec.Args, dec(a))
					}
				}
				var act *frame
				if len(frames) > 0 {
					act = frames[len(frames)-1] // the activation being served (nested calls push their own later)
					act.got = args
					rec.Ident = act.identMismatch(args)
				}
				invoked = append(invoked, rec)
				if act != nil {
					// the last thing the function does, also when it panics: write into its slice / map arguments
					defer act.writeMarkers(args)
				}
				my := actDepth
				todo := nested
				if first {
					x := runOp(mock, Op{Op: "calls", M: name}, my+1)
					invoked = append(invoked, Inv{Nested: &x})
					if len(x.L) != 1 {
						todo = nil
					}
				}
				for _, nop := range todo {
					if nop.Op == "call" && my+1 > FUEL {
						panic(outOfFuel{})
					}
					x := runOp(mock, nop, my+1)
					invoked = append(invoked, Inv{Nested: &x})
				}
				if beh == "panic" {
					panic(userPanic{})
				}
				outs := make([]reflect.Value, ft.NumOut())
				for i := range outs {
					outs[i] = enc(ft.Out(i), res[i])
				}
				return outs
			}))
		}
		return Out{K: "unit"}
	case "call":
		mv := mock.MethodByName(op.M)
		if !mv.IsValid() {
			return Out{K: "nomethod"}
		}
		prev := actDepth
		actDepth = depth
		defer func() { actDepth = prev }()
		mt := mv.Type()
		nfix := mt.NumIn()
		if mt.IsVariadic() {
			nfix--
		}
		if len(op.Fixed) != nfix || (mt.IsVariadic() != (op.Var != "none")) {
			return Out{K: "illtyped"}
		}
		args := make([]reflect.Value, 0, nfix+len(op.Elems)+1)
		for i, n := range op.Fixed {
			args = append(args, enc(mt.In(i), n))
		}
		// a variadic parameter is always passed as an explicit slice (CallSlice): compiled Go builds that slice at
		// the call site (nil when no variadic argument is given - reflect's Call would build an empty non-nil one -,
		// the caller's own slice for f(xs...)), and this way the caller can tell whether <M>Func got that very slice
		if op.Var != "none" {
			st := mt.In(nfix)
			sl := reflect.Zero(st)
			if (op.Var == "elems" && len(op.Elems) > 0) || (op.Var == "spread" && !op.NilSlice) {
				sl = reflect.MakeSlice(st, len(op.Elems), len(op.Elems))
				for i, n := range op.Elems {
					sl.Index(i).Set(enc(st.Elem(), n))
				}
			}
			args = append(args, sl)
		}
		fr = &frame{args: args, wrote: map[int]int{}, saved: map[int]reflect.Value{}}
		frames = append(frames, fr)
		var rets []reflect.Value
		if op.Var == "none" {
			rets = mv.Call(args)
		} else {
			rets = mv.CallSlice(args)
		}
		o := Out{K: "ret", Res: []any{}}
		for _, r := range rets {
			o.Res = append(o.Res, dec(r))
		}
		return o
	case "calls":
		mv := mock.MethodByName(op.M + "Calls")
		fv := mock.MethodByName(op.M)
		if !mv.IsValid() || !fv.IsValid() {
			return Out{K: "nomethod"}
		}
		recs := mv.Call(nil)[0]
		if op.Keep > 0 {
			// the test keeps the returned slice ITSELF (no copy) and looks at it again later ("recheck")
			kept[op.Keep] = keptSlice{recs, fv.Type().IsVariadic()}
		}
		return recordsOut(recs, fv.Type().IsVariadic())
	case "recheck":
		k, ok := kept[op.Keep]
		if !ok {
			return Out{K: "nomethod"}
		}
		return recordsOut(k.recs, k.variadic)
	case "resetm", "resetall":
		name := "ResetCalls"
		if op.Op == "resetm" {
			name = "Reset" + op.M + "Calls"
			if !mock.MethodByName(op.M).IsValid() {
				return Out{K: "nomethod"}
			}
		}
		mv := mock.MethodByName(name)
		if !mv.IsValid() {
			return Out{K: "nomethod"}
		}
		mv.Call(nil)
		return Out{K: "unit"}
	}
	return Out{K: "badop"}
}

func main() {
	var jobs []Job
	if err := json.NewDecoder(os.Stdin).Decode(&jobs); err != nil {
		fmt.Fprintln(os.Stderr, "bad input:", err)
		os.Exit(2)
	}
	all := make([][]Out, 0, len(jobs))
	for _, j := range jobs {
		mk, ok := registry[j.Mock]
		if !ok {
			fmt.Fprintln(os.Stderr, "unknown mock:", j.Mock)
			os.Exit(2)
		}
		mock := reflect.ValueOf(mk())
		kept = map[int]keptSlice{}
		outs := make([]Out, 0, len(j.Ops))
		dead := false
		for _, op := range j.Ops {
			if dead {
				outs = append(outs, Out{K: "skipped"}) // the mock is stuck behind the leaked goroutine
				continue
			}
			o := runTop(mock, op)
			dead = o.K == "deadlock"
			outs = append(outs, o)
		}
		all = append(all, outs)
	}
	if err := json.NewEncoder(os.Stdout).Encode(all); err != nil {
		fmt.Fprintln(os.Stderr, err)
		os.Exit(2)
	}
}
