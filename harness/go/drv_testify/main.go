// drv_testify replays scripted histories (expectation registrations through EXPECT(),
// calls, cleanup) against freshly generated testify-style mocks and prints what it
// observes.  It is copied into the scratch Go module next to a generated reg.go that
// registers the mock constructors (register("MockSvc", src.NewMockSvc)); on its own it
// compiles with an empty registry (stdlib only).
//
//	drv describe            -> JSON description of every registered mock (methods, type ids,
//	                           token capacities) derived by reflection
//	drv run < script.json   -> JSON observations, one list of steps per history
//
// Values are built from small integer tokens, injectively w.r.t. reflect.DeepEqual
// (token 0 = the zero value of the type); observed values are decoded back to tokens.
package main

import (
	"encoding/json"
	"fmt"
	"os"
	"reflect"
	"runtime"
	"sort"
	"strings"
	"unsafe"
)

const maxTok = 8

// ---------------------------------------------------------------- registry
var registry = map[string]interface{}{}

func register(name string, ctor interface{}) { registry[name] = ctor }

// ---------------------------------------------------------------- token type
// verifTok is the only dynamic type stored in interface-typed positions.
type verifTok struct{ K int }

func (v *verifTok) Error() string { return fmt.Sprintf("tok%d", v.K) }

var (
	tokType   = reflect.TypeOf(&verifTok{})
	errorType = reflect.TypeOf((*error)(nil)).Elem()
	anyType   = reflect.TypeOf((*interface{})(nil)).Elem()
	strType   = reflect.TypeOf("")
)

// ---------------------------------------------------------------- type ids
var typeIDs = map[reflect.Type]int{strType: 0, tokType: 1}

func typeID(t reflect.Type) int {
	if id, ok := typeIDs[t]; ok {
		return id
	}
	id := len(typeIDs)
	typeIDs[t] = id
	return id
}

// ---------------------------------------------------------------- capacities
func capOf(t reflect.Type, depth int) int {
	if depth >= 3 { // recursive types (http.Request -> *Response -> *Request ...): zero value only below
		switch t.Kind() {
		case reflect.Ptr, reflect.Array, reflect.Map, reflect.Struct:
			return 1
		}
	}
	switch t.Kind() {
	case reflect.Bool:
		return 2
	case reflect.Int, reflect.Int8, reflect.Int16, reflect.Int32, reflect.Int64,
		reflect.Uint, reflect.Uint8, reflect.Uint16, reflect.Uint32, reflect.Uint64, reflect.Uintptr,
		reflect.Float32, reflect.Float64, reflect.Complex64, reflect.Complex128, reflect.String,
		reflect.UnsafePointer, reflect.Chan, reflect.Slice:
		return maxTok
	case reflect.Func:
		if depth > 0 {
			return 1 // nested funcs stay nil: a non-nil func makes DeepEqual irreflexive
		}
		return maxTok
	case reflect.Ptr:
		return min(maxTok, 1+capOf(t.Elem(), depth+1))
	case reflect.Array:
		if t.Len() == 0 {
			return 1
		}
		return capOf(t.Elem(), depth+1)
	case reflect.Map:
		return min(maxTok, 2+capOf(t.Elem(), depth+1))
	case reflect.Struct:
		c := 1
		for i := 0; i < t.NumField(); i++ {
			if fc := capOf(t.Field(i).Type, depth+1); fc > c {
				c = fc
			}
		}
		return c
	case reflect.Interface:
		if tokType.Implements(t) {
			return maxTok
		}
		return 1
	}
	return 1
}

func min(a, b int) int {
	if a < b {
		return a
	}
	return b
}

// ---------------------------------------------------------------- construction
type ck struct {
	t reflect.Type
	k int
	d int
}

var cache = map[ck]reflect.Value{}
var lastFuncTok = -1

func construct(t reflect.Type, k int, depth int) reflect.Value {
	if k == 0 {
		return reflect.Zero(t)
	}
	if k >= capOf(t, depth) {
		panic(fmt.Sprintf("driver: token %d out of capacity %d of %v", k, capOf(t, depth), t))
	}
	key := ck{t, k, depth}
	if v, ok := cache[key]; ok {
		return v
	}
	v := reflect.New(t).Elem()
	switch t.Kind() {
	case reflect.Bool:
		v.SetBool(true)
	case reflect.Int, reflect.Int8, reflect.Int16, reflect.Int32, reflect.Int64:
		v.SetInt(int64(k))
	case reflect.Uint, reflect.Uint8, reflect.Uint16, reflect.Uint32, reflect.Uint64, reflect.Uintptr:
		v.SetUint(uint64(k))
	case reflect.Float32, reflect.Float64:
		v.SetFloat(float64(k))
	case reflect.Complex64, reflect.Complex128:
		v.SetComplex(complex(float64(k), 0))
	case reflect.String:
		switch k {
		case 1:
			v.SetString("mock.Anything")
		case 2:
			v.SetString("(Missing)")
		default:
			v.SetString(fmt.Sprintf("v%d", k))
		}
	case reflect.UnsafePointer:
		p := new(int)
		*p = k
		v.SetPointer(unsafe.Pointer(p))
	case reflect.Chan:
		c := reflect.MakeChan(reflect.ChanOf(reflect.BothDir, t.Elem()), 1)
		v.Set(c.Convert(t))
	case reflect.Slice:
		if k == 1 {
			v.Set(reflect.MakeSlice(t, 0, 0))
		} else {
			v.Set(reflect.MakeSlice(t, k-1, k-1))
		}
	case reflect.Func:
		tok := k
		nout := t.NumOut()
		outs := make([]reflect.Type, nout)
		for i := range outs {
			outs[i] = t.Out(i)
		}
		v.Set(reflect.MakeFunc(t, func(_ []reflect.Value) []reflect.Value {
			lastFuncTok = tok
			r := make([]reflect.Value, nout)
			for i := range r {
				r[i] = reflect.Zero(outs[i])
			}
			return r
		}))
	case reflect.Ptr:
		p := reflect.New(t.Elem())
		p.Elem().Set(construct(t.Elem(), k-1, depth+1))
		v.Set(p)
	case reflect.Array:
		v.Index(0).Set(construct(t.Elem(), k, depth+1))
	case reflect.Map:
		m := reflect.MakeMap(t)
		if k >= 2 {
			m.SetMapIndex(reflect.Zero(t.Key()), construct(t.Elem(), k-2, depth+1))
		}
		v.Set(m)
	case reflect.Struct:
		for i := 0; i < t.NumField(); i++ {
			if capOf(t.Field(i).Type, depth+1) > k {
				f := v.Field(i)
				f = reflect.NewAt(f.Type(), unsafe.Pointer(f.UnsafeAddr())).Elem()
				f.Set(construct(f.Type(), k, depth+1))
				break
			}
		}
	case reflect.Interface:
		v.Set(reflect.ValueOf(&verifTok{K: k}))
	}
	cache[key] = v
	return v
}

// ---------------------------------------------------------------- decoding
func sameTok(t reflect.Type, k int, v reflect.Value) bool {
	c := construct(t, k, 0)
	switch t.Kind() {
	case reflect.Func:
		if v.IsNil() {
			return k == 0
		}
		if k == 0 {
			return false
		}
		lastFuncTok = -1
		ins := make([]reflect.Value, t.NumIn())
		for i := range ins {
			ins[i] = reflect.Zero(t.In(i))
		}
		if t.IsVariadic() {
			v.CallSlice(ins)
		} else {
			v.Call(ins)
		}
		return lastFuncTok == k
	case reflect.Chan, reflect.UnsafePointer:
		return c.Pointer() == v.Pointer()
	}
	return reflect.DeepEqual(c.Interface(), v.Interface())
}

// dump decodes an observed value of static type t.
func dump(t reflect.Type, v reflect.Value) interface{} {
	if t.Kind() == reflect.Interface {
		if v.IsNil() {
			return "nil"
		}
		e := v.Elem()
		if e.Type() == tokType {
			return map[string]interface{}{"k": e.Interface().(*verifTok).K}
		}
		if e.Kind() == reflect.Slice {
			l := []interface{}{}
			for i := 0; i < e.Len(); i++ {
				l = append(l, dump(e.Type().Elem(), e.Index(i)))
			}
			return map[string]interface{}{"sl": l, "ty": typeID(e.Type())}
		}
		return map[string]interface{}{"?": e.Type().String()}
	}
	if t.Kind() == reflect.Func && !v.IsNil() {
		lastFuncTok = -1
		sameTok(t, 1, v)
		if lastFuncTok > 0 {
			return map[string]interface{}{"k": lastFuncTok}
		}
		return map[string]interface{}{"?": "func"}
	}
	for k := 0; k < capOf(t, 0); k++ {
		if sameTok(t, k, v) {
			return map[string]interface{}{"k": k}
		}
	}
	return map[string]interface{}{"?": t.String()}
}

func dumpArgs(ft reflect.Type, args []reflect.Value, spread bool) []interface{} {
	out := []interface{}{}
	for i, a := range args {
		if spread && i == ft.NumIn()-1 {
			l := []interface{}{}
			for j := 0; j < a.Len(); j++ {
				l = append(l, dump(ft.In(i).Elem(), a.Index(j)))
			}
			out = append(out, map[string]interface{}{"sl": l})
		} else {
			out = append(out, dump(ft.In(i), a))
		}
	}
	return out
}

// ---------------------------------------------------------------- fake TestingT
type sentinel struct{}

type event map[string]interface{}

// fakeT behaves like *testing.T as far as mocks can see it: Errorf and FailNow mark the test as
// failed, Failed() reports it, Cleanup functions are kept and run last-registered-first.
type fakeT struct {
	events   *[]event
	cleanups []func()
	failed   bool
}

func (f *fakeT) Failed() bool { return f.failed }

func (f *fakeT) Logf(format string, args ...interface{}) {
	*f.events = append(*f.events, event{"e": "logf"})
}
func (f *fakeT) Errorf(format string, args ...interface{}) {
	kind := "other"
	switch {
	case strings.Contains(format, "has been called over"):
		kind = "over"
	case strings.Contains(format, "The closest call I have is"):
		kind = "closest"
	case strings.Contains(format, "I don't know what to return"):
		kind = "noexp"
	case strings.Contains(format, "expectation(s) were met"):
		kind = "assert"
	}
	f.failed = true
	*f.events = append(*f.events, event{"e": "errorf", "kind": kind})
}
func (f *fakeT) FailNow() {
	f.failed = true
	*f.events = append(*f.events, event{"e": "failnow"})
	panic(sentinel{})
}
func (f *fakeT) Cleanup(fn func()) { f.cleanups = append(f.cleanups, fn) }

// ---------------------------------------------------------------- script
type Val struct {
	K      *int   `json:"k,omitempty"`
	Nil    bool   `json:"nil,omitempty"`
	Any    bool   `json:"any,omitempty"`
	Sl     *[]Val `json:"sl,omitempty"`
	NonNil bool   `json:"nonnil,omitempty"`
	// function providers (rawreturn only)
	Prov string `json:"prov,omitempty"` // whole | res | legacy
	I    int    `json:"i,omitempty"`
	F    int    `json:"f,omitempty"`
	Rets []Val  `json:"rets,omitempty"`
}
type Setup struct {
	S    string `json:"s"` // return | run | runandreturn | rawreturn | times
	Vals []Val  `json:"vals,omitempty"`
	F    int    `json:"f,omitempty"`
	Rets []Val  `json:"rets,omitempty"`
	N    int    `json:"n,omitempty"`
}
type Step struct {
	Op     string  `json:"op"` // expect | call | cleanup | setbuf | mutate
	M      string  `json:"m,omitempty"`
	Args   []Val   `json:"args,omitempty"`
	Setups []Setup `json:"setups,omitempty"`
	// caller-owned []interface{} buffers: setbuf (re)writes buffer B with Args (in place when the
	// length is unchanged), mutate sets element I to V, expect with Buf spreads the buffer itself
	// as the variadic expectation arguments (Args then holds the fixed arguments only)
	K   int  `json:"k,omitempty"` // which mock of the history (several mocks may share one t)
	B   int  `json:"b,omitempty"`
	I   int  `json:"i,omitempty"`
	V   *Val `json:"v,omitempty"`
	Buf *int `json:"buf,omitempty"`
}
type History struct {
	Mock  string   `json:"mock"`
	Extra []string `json:"extra,omitempty"` // further mocks constructed on the same t (k = 1, 2, ...)
	Ctor  bool     `json:"ctor"`
	Steps []Step   `json:"steps"`
}
type Obs struct {
	Out    string        `json:"out"` // ret | fail | panic | done
	Vals   []interface{} `json:"vals,omitempty"`
	Class  string        `json:"class,omitempty"`
	Names  bool          `json:"names,omitempty"`
	Msg    string        `json:"msg,omitempty"`
	Events []event       `json:"events"`
}

func sliceOf(t reflect.Type, vals []Val, nonnil bool) reflect.Value {
	if len(vals) == 0 && !nonnil {
		return reflect.Zero(t)
	}
	s := reflect.MakeSlice(t, len(vals), len(vals))
	for i, v := range vals {
		s.Index(i).Set(typed(t.Elem(), v))
	}
	return s
}

// typed builds a value of static type t
func typed(t reflect.Type, v Val) reflect.Value {
	if v.Sl != nil {
		return sliceOf(t, *v.Sl, v.NonNil)
	}
	if v.Nil || v.K == nil {
		return reflect.Zero(t)
	}
	return construct(t, *v.K, 0)
}

// boxed builds an interface{} argument for the expecter: v describes a value of type t
func boxed(t reflect.Type, v Val) reflect.Value {
	r := reflect.New(anyType).Elem()
	switch {
	case v.Any:
		r.Set(reflect.ValueOf("mock.Anything"))
	case v.Nil:
	default:
		x := typed(t, v)
		if !(x.Kind() == reflect.Interface && x.IsNil()) {
			r.Set(x)
		}
	}
	return r
}

func classify(r interface{}, method string) (string, bool, string) {
	if _, ok := r.(sentinel); ok {
		return "failnow", false, ""
	}
	if e, ok := r.(runtime.Error); ok {
		if _, ok := e.(*runtime.TypeAssertionError); ok {
			return "typeassert", false, e.Error()
		}
		return "runtime", false, e.Error()
	}
	s := fmt.Sprint(r)
	const nr = "no return value specified for "
	switch {
	case strings.HasPrefix(s, nr):
		return "noreturn", s[len(nr):] == method, s
	case strings.HasPrefix(s, "assert: arguments: Cannot call Get("):
		return "getrange", false, s
	case strings.HasPrefix(s, "assert: arguments: Error("):
		return "errortype", false, s
	case strings.HasPrefix(s, "cannot use Func in expectations"):
		return "onfunc", false, s
	case strings.Contains(s, "mock: ") || strings.Contains(s, "assert: mock: "):
		return "failpanic", false, ""
	}
	if len(s) > 200 {
		s = s[:200]
	}
	return "other", false, s
}

type runner struct {
	mockV  reflect.Value // the mock the current step addresses
	mocks  []reflect.Value
	events []event
	t      *fakeT
	bufs   map[int][]interface{}
}

// tailType: the static type a variadic-position expectation argument is built for
func tailType(mt reflect.Type, a Val) reflect.Type {
	last := mt.In(mt.NumIn() - 1)
	if a.Sl != nil {
		return last
	}
	return last.Elem()
}

// mkFunc builds a callback / provider of func type ft that records its arguments and
// returns the scripted constants.
func (r *runner) mkFunc(ft reflect.Type, id int, rets []Val, spread bool) reflect.Value {
	return reflect.MakeFunc(ft, func(args []reflect.Value) []reflect.Value {
		r.events = append(r.events, event{"e": "cb", "f": id, "args": dumpArgs(ft, args, spread || ft.IsVariadic())})
		out := make([]reflect.Value, ft.NumOut())
		for i := range out {
			var v Val
			if i < len(rets) {
				v = rets[i]
			}
			out[i] = typed(ft.Out(i), v)
		}
		return out
	})
}

func methodIO(mt reflect.Type) (ins, outs []reflect.Type) {
	for i := 0; i < mt.NumIn(); i++ {
		ins = append(ins, mt.In(i))
	}
	for i := 0; i < mt.NumOut(); i++ {
		outs = append(outs, mt.Out(i))
	}
	return
}

func (r *runner) step(s Step) (o Obs) {
	r.events = nil
	defer func() {
		if rec := recover(); rec != nil {
			cls, names, msg := classify(rec, s.M)
			if cls == "failnow" {
				o = Obs{Out: "fail"}
			} else {
				o = Obs{Out: "panic", Class: cls, Names: names, Msg: msg}
			}
		}
		o.Events = r.events
		if o.Events == nil {
			o.Events = []event{}
		}
	}()
	if s.K < 0 || s.K >= len(r.mocks) {
		panic("driver: no such mock")
	}
	r.mockV = r.mocks[s.K]
	s.B += 1000 * s.K // buffers belong to the code driving one mock
	if s.Buf != nil {
		b := *s.Buf + 1000*s.K
		s.Buf = &b
	}
	switch s.Op {
	case "terrorf":
		// the test itself reported an unrelated, non-fatal failure
		r.t.failed = true
		return Obs{Out: "done"}
	case "cleanup":
		// as testing.T does: last registered first; a marker separates the cleanups
		for i := len(r.t.cleanups) - 1; i >= 0; i-- {
			r.events = append(r.events, event{"e": "cleanup", "k": i})
			r.t.cleanups[i]()
		}
		return Obs{Out: "done"}
	case "setbuf":
		mt := r.mockV.MethodByName(s.M).Type()
		old, ok := r.bufs[s.B]
		if !ok || len(old) != len(s.Args) {
			old = make([]interface{}, len(s.Args))
			r.bufs[s.B] = old
		}
		for i, a := range s.Args {
			old[i] = boxed(tailType(mt, a), a).Interface()
		}
		return Obs{Out: "done"}
	case "mutate":
		mt := r.mockV.MethodByName(s.M).Type()
		r.bufs[s.B][s.I] = boxed(tailType(mt, *s.V), *s.V).Interface()
		return Obs{Out: "done"}
	case "call":
		m := r.mockV.MethodByName(s.M)
		mt := m.Type()
		n := mt.NumIn()
		args := make([]reflect.Value, n)
		for i := 0; i < n; i++ {
			if mt.IsVariadic() && i == n-1 {
				if i < len(s.Args) {
					args[i] = typed(mt.In(i), s.Args[i])
				} else {
					args[i] = reflect.Zero(mt.In(i))
				}
			} else {
				args[i] = typed(mt.In(i), s.Args[i])
			}
		}
		var res []reflect.Value
		if mt.IsVariadic() {
			res = m.CallSlice(args)
		} else {
			res = m.Call(args)
		}
		vals := []interface{}{}
		for i, x := range res {
			vals = append(vals, dump(mt.Out(i), x))
		}
		return Obs{Out: "ret", Vals: vals}
	case "expect":
		mt := r.mockV.MethodByName(s.M).Type()
		ins, outs := methodIO(mt)
		nfixed := len(ins)
		if mt.IsVariadic() {
			nfixed--
		}
		exp := r.mockV.MethodByName("EXPECT").Call(nil)[0]
		em := exp.MethodByName(s.M)
		args := []reflect.Value{}
		for i, a := range s.Args {
			var t reflect.Type
			switch {
			case i < nfixed:
				t = ins[i]
			case a.Sl != nil:
				t = ins[len(ins)-1]
			default:
				t = ins[len(ins)-1].Elem()
			}
			args = append(args, boxed(t, a))
		}
		var call reflect.Value // *MockX_M_Call
		if s.Buf != nil {
			buf, ok := r.bufs[*s.Buf]
			if !ok {
				panic("driver: unknown buffer")
			}
			call = em.CallSlice(append(args, reflect.ValueOf(buf)))[0] // EXPECT().M(fixed..., buf...)
		} else {
			call = em.Call(args)[0]
		}
		raw := call.Elem().FieldByName("Call")
		for _, su := range s.Setups {
			switch su.S {
			case "return":
				rm := call.MethodByName("Return")
				vs := make([]reflect.Value, len(outs))
				for i := range outs {
					vs[i] = typed(outs[i], su.Vals[i])
				}
				rm.Call(vs)
			case "run":
				rm := call.MethodByName("Run")
				rm.Call([]reflect.Value{r.mkFunc(rm.Type().In(0), su.F, nil, false)})
			case "runandreturn":
				rm := call.MethodByName("RunAndReturn")
				rm.Call([]reflect.Value{r.mkFunc(rm.Type().In(0), su.F, su.Rets, false)})
			case "rawreturn":
				vs := []reflect.Value{}
				for i, v := range su.Vals {
					x := reflect.New(anyType).Elem()
					switch {
					case v.Prov == "whole":
						x.Set(r.mkFunc(reflect.FuncOf(ins, outs, mt.IsVariadic()), v.F, v.Rets, false))
					case v.Prov == "legacy":
						x.Set(r.mkFunc(reflect.FuncOf(ins, outs, false), v.F, v.Rets, mt.IsVariadic()))
					case v.Prov == "res":
						x.Set(r.mkFunc(reflect.FuncOf(ins, []reflect.Type{outs[v.I]}, mt.IsVariadic()), v.F, v.Rets, false))
					case v.Nil:
					default:
						var t reflect.Type = anyType
						if i < len(outs) {
							t = outs[i]
						}
						y := typed(t, v)
						if !(y.Kind() == reflect.Interface && y.IsNil()) {
							x.Set(y)
						}
					}
					vs = append(vs, x)
				}
				raw.MethodByName("Return").Call(vs)
			case "times":
				raw.MethodByName("Times").Call([]reflect.Value{reflect.ValueOf(su.N)})
			default:
				panic("driver: unknown setup " + su.S)
			}
		}
		return Obs{Out: "done"}
	}
	panic("driver: unknown op " + s.Op)
}

func runHistory(h History) (obs []Obs, err string) {
	defer func() {
		if rec := recover(); rec != nil {
			err = fmt.Sprint(rec)
		}
	}()
	r := &runner{bufs: map[int][]interface{}{}}
	r.t = &fakeT{events: &r.events}
	for _, name := range append([]string{h.Mock}, h.Extra...) {
		ctor, ok := registry[name]
		if !ok {
			return nil, "driver: unknown mock " + name
		}
		cv := reflect.ValueOf(ctor)
		if h.Ctor {
			// the generated constructor must only wire t: a panic (or any event on t) is an observation
			var mv reflect.Value
			msg := func() (m string) {
				defer func() {
					if rec := recover(); rec != nil {
						m = "constructor: " + fmt.Sprint(rec)
						if len(m) > 300 {
							m = m[:300]
						}
					}
				}()
				mv = cv.Call([]reflect.Value{reflect.ValueOf(r.t)})[0]
				return ""
			}()
			if msg == "" && len(r.events) > 0 {
				msg = fmt.Sprintf("constructor: %d call(s) on t while constructing", len(r.events))
			}
			if msg != "" {
				for range h.Steps {
					obs = append(obs, Obs{Out: "panic", Class: "ctor", Msg: msg, Events: []event{}})
				}
				return obs, ""
			}
			r.mocks = append(r.mocks, mv)
		} else {
			r.mocks = append(r.mocks, reflect.New(cv.Type().Out(0).Elem()))
		}
	}
	for _, s := range h.Steps {
		obs = append(obs, r.step(s))
	}
	return obs, ""
}

// ---------------------------------------------------------------- describe
type TyDesc struct {
	ID    int    `json:"id"`
	Cap   int    `json:"cap"`
	Iface bool   `json:"iface"`
	Empty bool   `json:"empty"`
	Fn    bool   `json:"fn"`
	Err   bool   `json:"err"`
	NilK  bool   `json:"nilk"` // kind is one of pointer, array, map, interface, func, chan, slice
	Str   string `json:"str"`
}
type MethodDesc struct {
	Name     string   `json:"name"`
	Params   []TyDesc `json:"params"`
	Variadic bool     `json:"variadic"`
	Elem     *TyDesc  `json:"elem,omitempty"`
	Results  []TyDesc `json:"results"`
}

func descTy(t reflect.Type) TyDesc {
	d := TyDesc{ID: typeID(t), Cap: capOf(t, 0), Str: t.String()}
	switch t.Kind() {
	case reflect.Interface:
		d.Iface, d.NilK = true, true
		d.Empty = t.NumMethod() == 0
	case reflect.Func:
		d.Fn, d.NilK = true, true
	case reflect.Ptr, reflect.Array, reflect.Map, reflect.Chan, reflect.Slice:
		d.NilK = true
	}
	d.Err = t == errorType
	return d
}

func describe() map[string][]MethodDesc {
	out := map[string][]MethodDesc{}
	names := []string{}
	for n := range registry {
		names = append(names, n)
	}
	sort.Strings(names)
	for _, n := range names {
		cv := reflect.ValueOf(registry[n])
		mt := cv.Type().Out(0)
		expT, _ := mt.MethodByName("EXPECT")
		et := expT.Type.Out(0)
		ms := []MethodDesc{}
		for i := 0; i < et.NumMethod(); i++ {
			name := et.Method(i).Name
			m, ok := mt.MethodByName(name)
			if !ok {
				continue
			}
			ft := m.Type // first In is the receiver
			md := MethodDesc{Name: name, Variadic: ft.IsVariadic(), Params: []TyDesc{}, Results: []TyDesc{}}
			for j := 1; j < ft.NumIn(); j++ {
				md.Params = append(md.Params, descTy(ft.In(j)))
			}
			if ft.IsVariadic() {
				e := descTy(ft.In(ft.NumIn() - 1).Elem())
				md.Elem = &e
			}
			for j := 0; j < ft.NumOut(); j++ {
				md.Results = append(md.Results, descTy(ft.Out(j)))
			}
			ms = append(ms, md)
		}
		out[n] = ms
	}
	return out
}

func main() {
	if len(os.Args) < 2 {
		fmt.Fprintln(os.Stderr, "usage: drv describe | run")
		os.Exit(2)
	}
	enc := json.NewEncoder(os.Stdout)
	switch os.Args[1] {
	case "describe":
		enc.Encode(describe())
	case "run":
		// describe first so that type ids are assigned exactly as in the describe run
		describe()
		var hs []History
		if err := json.NewDecoder(os.Stdin).Decode(&hs); err != nil {
			fmt.Fprintln(os.Stderr, err)
			os.Exit(2)
		}
		type res struct {
			Obs []Obs  `json:"obs"`
			Err string `json:"err,omitempty"`
		}
		out := make([]res, len(hs))
		for i, h := range hs {
			o, e := runHistory(h)
			out[i] = res{o, e}
		}
		enc.Encode(out)
	}
}
