// drv_conc hammers freshly generated mocks from many goroutines (C05).  It is copied into a
// scratch user module next to a generated registry.go (same package, fills `registry`) and
// built there with `go build -race`; the race detector reports go to stderr and make the
// process exit with status 66.  Everything is done by reflection.
//
// Matryer mocks: G caller goroutines make K calls each; every call has a unique id (uid) and
// ALL its arguments are a function of (method, uid), the uid itself travelling in the first
// parameter wide enough to hold it.  Reader goroutines take <M>Calls() snapshots meanwhile and
// check: every record is the argument tuple of exactly one issued call (all fields agree with
// the uid), no uid twice, each snapshot extends the reader's previous snapshot of that method
// (phase without resets).  After the join: <M>Calls() holds exactly the issued calls (multiset
// of uids, or the count when the method has no wide parameter) and <M>Func ran once per call
// with exactly the call's arguments.  Phase 2 (mocks with reset methods): the same with
// goroutines calling Reset<M>Calls()/ResetCalls() concurrently; the final equality is replaced
// by "every remaining record was issued, none twice", then ResetCalls() must empty all logs.
//
// Before that, a single-goroutine re-entrancy probe per mock: <M>Func reads <M>Calls(), calls <M>
// again, resets, or waits for another goroutine reading <M>Calls(); the outer call must return
// (watchdog: "deadlock") and the nested read must already contain the running call.
//
// Testify mocks: the mock struct must consist of the embedded mock.Mock only (reflection); the expectations
// are registered by one goroutine per method at the same time, so the first EXPECT() calls on the fresh
// mock are concurrent.  Every method gets ONE expectation, registered through the generated expecter with a
// typed handler - <Mock>_<M>_Call.Run(fn).Return(tokens) or .RunAndReturn(fn), alternating - or, when
// that handler already misbehaves in a single-threaded probe on a mock of its own (C03's subject:
// rolled variadics / nil arguments in the unfixed Run wrapper), a plain On(..).Return(..).  Then G
// goroutines call the methods concurrently with unique per-call argument tuples (2 variadic
// arguments, never nil); the handler checks that it received exactly the tuple of ONE actual call,
// RunAndReturn handlers answer with results derived from that call's id and the caller checks it
// got its own; handlers must have run once per call; goroutines keep adding expectations through
// the expecter meanwhile.
//
// stdin : JSON [{"mock":"p0.MoqI0","kind":"matryer","goroutines":8,"calls":150,"readers":2,"seed":1,"stub":false}]
// stdout: JSON [{"mock":..,"calls":n,"records":n,"snapshots":n,"errors":[..]}]
package main

import (
	"context"
	"encoding/json"
	"fmt"
	"os"
	"reflect"
	"strconv"
	"strings"
	"sync"
	"sync/atomic"
	"time"

	tmock "github.com/stretchr/testify/mock"
)

var registry = map[string]func() any{}

// typed EXPECT() calls of the testify mocks (generated into registry.go): calling EXPECT through reflect would
// go through reflect's internal caches, whose locks order the goroutines and hide a race from the detector
var expectFns = map[string]func(any){}

type tokErr int

func (e tokErr) Error() string { return "e" + strconv.Itoa(int(e)) }

type ctxKey struct{}

var errType = reflect.TypeOf((*error)(nil)).Elem()
var ctxType = reflect.TypeOf((*context.Context)(nil)).Elem()

const big = 1 << 30

// how many different tokens a type can carry
func capacity(t reflect.Type) int {
	switch t.Kind() {
	case reflect.Bool:
		return 1
	case reflect.Int8, reflect.Uint8:
		return 100
	case reflect.Int16, reflect.Uint16:
		return 30000
	case reflect.Int, reflect.Int32, reflect.Int64, reflect.Uint, reflect.Uint32, reflect.Uint64, reflect.Uintptr,
		reflect.Float64, reflect.Complex128, reflect.String:
		return big
	case reflect.Float32, reflect.Complex64:
		return 1 << 20
	case reflect.Ptr, reflect.Slice, reflect.Array:
		return capacity(t.Elem())
	case reflect.Map:
		a, b := capacity(t.Key()), capacity(t.Elem())
		if b < a {
			return b
		}
		return a
	case reflect.Chan:
		return 64 // the token is the channel's capacity: keep allocations small
	case reflect.Func:
		if t.NumOut() == 0 {
			return 0
		}
		return capacity(t.Out(0))
	case reflect.Struct:
		if t.NumField() == 0 {
			return 0
		}
		return capacity(t.Field(0).Type)
	case reflect.Interface:
		if t == errType || t == ctxType || t.NumMethod() == 0 {
			return big
		}
	}
	return 0
}

func enc(t reflect.Type, n int) reflect.Value {
	v := reflect.New(t).Elem()
	if n == 0 {
		return v
	}
	switch t.Kind() {
	case reflect.Bool:
		v.SetBool(n == 1)
	case reflect.Int, reflect.Int8, reflect.Int16, reflect.Int32, reflect.Int64:
		v.SetInt(int64(n))
	case reflect.Uint, reflect.Uint8, reflect.Uint16, reflect.Uint32, reflect.Uint64, reflect.Uintptr:
		v.SetUint(uint64(n))
	case reflect.Float32, reflect.Float64:
		v.SetFloat(float64(n))
	case reflect.Complex64, reflect.Complex128:
		v.SetComplex(complex(float64(n), 0))
	case reflect.String:
		v.SetString("v" + strconv.Itoa(n))
	case reflect.Ptr:
		p := reflect.New(t.Elem())
		p.Elem().Set(enc(t.Elem(), n))
		v.Set(p)
	case reflect.Slice:
		s := reflect.MakeSlice(t, 1, 1)
		s.Index(0).Set(enc(t.Elem(), n))
		v.Set(s)
	case reflect.Array:
		v.Index(0).Set(enc(t.Elem(), n))
	case reflect.Map:
		m := reflect.MakeMap(t)
		m.SetMapIndex(enc(t.Key(), n), enc(t.Elem(), n))
		v.Set(m)
	case reflect.Chan:
		c := reflect.MakeChan(reflect.ChanOf(reflect.BothDir, t.Elem()), n)
		v.Set(c.Convert(t))
	case reflect.Func:
		f := reflect.MakeFunc(t, func(args []reflect.Value) []reflect.Value {
			outs := make([]reflect.Value, t.NumOut())
			for i := range outs {
				outs[i] = reflect.New(t.Out(i)).Elem()
			}
			outs[0] = enc(t.Out(0), n)
			return outs
		})
		v.Set(f)
	case reflect.Struct:
		v.Field(0).Set(enc(t.Field(0).Type, n))
	case reflect.Interface:
		switch {
		case t == errType:
			v.Set(reflect.ValueOf(tokErr(n)))
		case t == ctxType:
			v.Set(reflect.ValueOf(context.WithValue(context.Background(), ctxKey{}, n)))
		case t.NumMethod() == 0:
			v.Set(reflect.ValueOf(n))
		default:
			panic("drv_conc: unsupported interface type " + t.String())
		}
	default:
		panic("drv_conc: unsupported type " + t.String())
	}
	return v
}

func dec(v reflect.Value) int {
	switch v.Kind() {
	case reflect.Bool:
		if v.Bool() {
			return 1
		}
		return 0
	case reflect.Int, reflect.Int8, reflect.Int16, reflect.Int32, reflect.Int64:
		return int(v.Int())
	case reflect.Uint, reflect.Uint8, reflect.Uint16, reflect.Uint32, reflect.Uint64, reflect.Uintptr:
		return int(v.Uint())
	case reflect.Float32, reflect.Float64:
		return int(v.Float())
	case reflect.Complex64, reflect.Complex128:
		return int(real(v.Complex()))
	case reflect.String:
		s := v.String()
		if s == "" {
			return 0
		}
		n, err := strconv.Atoi(strings.TrimPrefix(s, "v"))
		if err != nil || !strings.HasPrefix(s, "v") {
			return -1
		}
		return n
	case reflect.Ptr:
		if v.IsNil() {
			return 0
		}
		return dec(v.Elem())
	case reflect.Slice:
		if v.IsNil() {
			return 0
		}
		if v.Len() != 1 {
			return -2
		}
		return dec(v.Index(0))
	case reflect.Array:
		return dec(v.Index(0))
	case reflect.Map:
		if v.IsNil() {
			return 0
		}
		if v.Len() != 1 {
			return -2
		}
		return dec(v.MapKeys()[0])
	case reflect.Chan:
		if v.IsNil() {
			return 0
		}
		return v.Cap()
	case reflect.Func:
		if v.IsNil() {
			return 0
		}
		t := v.Type()
		in := make([]reflect.Value, t.NumIn())
		for i := range in {
			in[i] = reflect.New(t.In(i)).Elem()
		}
		if t.IsVariadic() {
			return dec(v.CallSlice(in)[0])
		}
		return dec(v.Call(in)[0])
	case reflect.Struct:
		return dec(v.Field(0))
	case reflect.Interface:
		if v.IsNil() {
			return 0
		}
		switch x := v.Interface().(type) {
		case tokErr:
			return int(x)
		case context.Context:
			if n, ok := x.Value(ctxKey{}).(int); ok {
				return n
			}
			return -4
		}
		return dec(v.Elem())
	}
	return -9
}

type Job struct {
	Mock       string `json:"mock"`
	Kind       string `json:"kind"`
	Goroutines int    `json:"goroutines"`
	Calls      int    `json:"calls"`
	Readers    int    `json:"readers"`
	Seed       int    `json:"seed"`
	Stub       bool   `json:"stub"`
	Unroll     bool   `json:"unroll"` // testify: the package was generated with unroll-variadic: true
}
type Result struct {
	Mock      string   `json:"mock"`
	Calls     int      `json:"calls"`
	Records   int      `json:"records"`
	Snapshots int      `json:"snapshots"`
	Resets    int      `json:"resets"`
	Typed     int      `json:"typed_handlers"`  // testify methods exercised through a typed Run / RunAndReturn handler
	Timeouts  []string `json:"timeouts"`        // re-entrancy probes that hit the watchdog
	Skipped   []string `json:"typed_skipped"`   // ... not exercised: the handler already misbehaves single-threaded (C03's subject)
	Errors    []string `json:"errors"`
}

type errs struct {
	mu sync.Mutex
	l  []string
}

func (e *errs) add(format string, a ...any) {
	e.mu.Lock()
	if len(e.l) < 20 {
		e.l = append(e.l, fmt.Sprintf(format, a...))
	}
	e.mu.Unlock()
}

// ---------------------------------------------------------------- matryer
type meth struct {
	name     string
	typ      reflect.Type // method type (no receiver)
	caps     []int
	wide     int // index of the parameter carrying the uid, -1 if none
	variadic bool
	ran      int64 // invocations of <M>Func / of the typed testify handler
	nonzero  bool  // never use token 0 (nil): typed testify Run wrappers assert args[i].(T) (C03's nil finding)
	fixedVar int   // number of variadic arguments of every call (0 = uid % 3)
	calls    int64
	rets     []int
	kind     int // testify: 0 plain On/Return, 1 expecter Run+Return, 2 expecter RunAndReturn
}

func (m *meth) tok(v, c int) int {
	if m.nonzero {
		if c <= 0 {
			return 0
		}
		return 1 + v%c
	}
	return v % (c + 1)
}

func methodsOf(mock reflect.Value) []*meth {
	var ms []*meth
	st := mock.Elem().Type()
	for i := 0; i < st.NumField(); i++ {
		f := st.Field(i)
		if f.Type.Kind() != reflect.Func || !strings.HasSuffix(f.Name, "Func") {
			continue
		}
		name := strings.TrimSuffix(f.Name, "Func")
		mv := mock.MethodByName(name)
		if !mv.IsValid() {
			continue
		}
		m := &meth{name: name, typ: mv.Type(), wide: -1, variadic: mv.Type().IsVariadic()}
		n := m.typ.NumIn()
		for j := 0; j < n; j++ {
			t := m.typ.In(j)
			if m.variadic && j == n-1 {
				m.caps = append(m.caps, capacity(t.Elem()))
				continue
			}
			c := capacity(t)
			m.caps = append(m.caps, c)
			if m.wide < 0 && c >= big {
				m.wide = j
			}
		}
		ms = append(ms, m)
	}
	return ms
}

// the argument tuple of call uid: ints for plain parameters, []int (or nil) for the variadic one
func (m *meth) tuple(uid int) []any {
	n := m.typ.NumIn()
	out := make([]any, n)
	for j := 0; j < n; j++ {
		if m.variadic && j == n-1 {
			k := uid % 3
			if m.fixedVar > 0 {
				k = m.fixedVar
			}
			if k == 0 {
				out[j] = []int(nil)
			} else {
				el := make([]int, k)
				for x := range el {
					el[x] = m.tok(uid+x, m.caps[j])
				}
				out[j] = el
			}
			continue
		}
		if j == m.wide {
			out[j] = uid
		} else {
			out[j] = m.tok(uid*(j+3), m.caps[j])
		}
	}
	return out
}

func (m *meth) args(uid int) []reflect.Value {
	tp := m.tuple(uid)
	var out []reflect.Value
	for j, x := range tp {
		if el, ok := x.([]int); ok {
			for _, e := range el {
				out = append(out, enc(m.typ.In(j).Elem(), e))
			}
			continue
		}
		out = append(out, enc(m.typ.In(j), x.(int)))
	}
	return out
}

func (m *meth) result(uid, j int) int {
	c := capacity(m.typ.Out(j))
	if m.wide < 0 {
		return 1 % (c + 1)
	}
	return (uid + j) % (c + 1)
}

func sameTuple(a, b []any) bool {
	if len(a) != len(b) {
		return false
	}
	for i := range a {
		x, xs := a[i].([]int)
		y, ys := b[i].([]int)
		if xs != ys {
			return false
		}
		if xs {
			if len(x) != len(y) {
				return false
			}
			for k := range x {
				if x[k] != y[k] {
					return false
				}
			}
		} else if a[i] != b[i] {
			return false
		}
	}
	return true
}

func decodeVals(m *meth, vals []reflect.Value) []any {
	out := make([]any, len(vals))
	for j, v := range vals {
		if m.variadic && j == len(vals)-1 {
			if v.IsNil() || v.Len() == 0 {
				out[j] = []int(nil)
			} else {
				el := make([]int, v.Len())
				for x := range el {
					el[x] = dec(v.Index(x))
				}
				out[j] = el
			}
		} else {
			out[j] = dec(v)
		}
	}
	return out
}

func decodeRecord(m *meth, r reflect.Value) []any {
	vals := make([]reflect.Value, r.NumField())
	for j := range vals {
		vals[j] = r.Field(j)
	}
	return decodeVals(m, vals)
}

func callVariadicAware(mv reflect.Value, m *meth, args []reflect.Value) []reflect.Value {
	if m.variadic && len(args) == m.typ.NumIn()-1 {
		// no variadic argument: compiled Go passes a nil slice
		return mv.CallSlice(append(args, reflect.Zero(m.typ.In(m.typ.NumIn()-1))))
	}
	return mv.Call(args)
}

func stressMatryer(job Job, mk func() any, withResets bool, res *Result, E *errs) {
	mock := reflect.ValueOf(mk())
	ms := methodsOf(mock)
	if len(ms) == 0 {
		return
	}
	phase := "phase1"
	if withResets {
		phase = "phase2(resets)"
	}
	maxUID := job.Goroutines*job.Calls + 1
	if !job.Stub {
		for _, m := range ms {
			m := m
			f := mock.Elem().FieldByName(m.name + "Func")
			ft := f.Type()
			f.Set(reflect.MakeFunc(ft, func(a []reflect.Value) []reflect.Value {
				atomic.AddInt64(&m.ran, 1)
				got := decodeVals(m, a)
				uid := 0
				if m.wide >= 0 {
					uid, _ = got[m.wide].(int)
					if uid <= 0 || uid >= maxUID || !sameTuple(got, m.tuple(uid)) {
						E.add("%s %s: %sFunc received %v, which is not the argument tuple of any call", job.Mock, phase, m.name, got)
					}
				}
				outs := make([]reflect.Value, ft.NumOut())
				for j := range outs {
					outs[j] = enc(ft.Out(j), m.result(uid, j))
				}
				return outs
			}))
		}
	}
	issued := make([][][]int, job.Goroutines) // per goroutine, per method: uids
	var done int32
	var wg, rg sync.WaitGroup
	for g := 0; g < job.Goroutines; g++ {
		issued[g] = make([][]int, len(ms))
		wg.Add(1)
		go func(g int) {
			defer wg.Done()
			for k := 0; k < job.Calls; k++ {
				uid := 1 + g*job.Calls + k
				mi := (uid*7 + job.Seed) % len(ms)
				m := ms[mi]
				rets := callVariadicAware(mock.MethodByName(m.name), m, m.args(uid))
				issued[g][mi] = append(issued[g][mi], uid)
				for j, r := range rets {
					want := 0
					if !job.Stub {
						want = m.result(uid, j)
						if m.wide < 0 {
							want = m.result(0, j)
						}
					}
					if dec(r) != want {
						E.add("%s %s: %s(uid %d) returned %d for result %d, %sFunc returned %d", job.Mock, phase, m.name, uid, dec(r), j, m.name, want)
					}
				}
			}
		}(g)
	}
	var snaps, recs, resets int64
	checkSnapshot := func(m *meth, s reflect.Value) []int {
		seen := map[int]bool{}
		uids := make([]int, 0, s.Len())
		for i := 0; i < s.Len(); i++ {
			got := decodeRecord(m, s.Index(i))
			atomic.AddInt64(&recs, 1)
			if m.wide < 0 {
				continue
			}
			uid, _ := got[m.wide].(int)
			if uid <= 0 || uid >= maxUID || !sameTuple(got, m.tuple(uid)) {
				E.add("%s %s: %sCalls()[%d] = %v is not the argument tuple of any call", job.Mock, phase, m.name, i, got)
				continue
			}
			if seen[uid] {
				E.add("%s %s: call %d of %s recorded twice", job.Mock, phase, uid, m.name)
			}
			seen[uid] = true
			uids = append(uids, uid)
		}
		return uids
	}
	for r := 0; r < job.Readers; r++ {
		rg.Add(1)
		go func(r int) {
			defer rg.Done()
			prev := make([][]int, len(ms))
			for it := 0; atomic.LoadInt32(&done) == 0 && it < 40; it++ {
				mi := (it + r) % len(ms)
				m := ms[mi]
				s := mock.MethodByName(m.name + "Calls").Call(nil)[0]
				atomic.AddInt64(&snaps, 1)
				uids := checkSnapshot(m, s)
				if !withResets && m.wide >= 0 {
					if len(uids) < len(prev[mi]) {
						E.add("%s %s: %sCalls() shrank from %d to %d records without a reset", job.Mock, phase, m.name, len(prev[mi]), len(uids))
					} else {
						for i := range prev[mi] {
							if prev[mi][i] != uids[i] {
								E.add("%s %s: %sCalls() is not an extension of the previous snapshot at index %d", job.Mock, phase, m.name, i)
								break
							}
						}
					}
					prev[mi] = uids
				}
			}
		}(r)
	}
	if withResets {
		for r := 0; r < 2; r++ {
			rg.Add(1)
			go func(r int) {
				defer rg.Done()
				for it := 0; atomic.LoadInt32(&done) == 0 && it < 60; it++ {
					name := "ResetCalls"
					if (it+r)%3 != 0 {
						name = "Reset" + ms[(it+r)%len(ms)].name + "Calls"
					}
					mock.MethodByName(name).Call(nil)
					atomic.AddInt64(&resets, 1)
				}
			}(r)
		}
	}
	wg.Wait()
	atomic.StoreInt32(&done, 1)
	rg.Wait()
	total := 0
	for mi, m := range ms {
		want := map[int]int{}
		n := 0
		for g := range issued {
			for _, u := range issued[g][mi] {
				want[u]++
				n++
			}
		}
		total += n
		final := mock.MethodByName(m.name + "Calls").Call(nil)[0]
		uids := checkSnapshot(m, final)
		if !job.Stub && int(atomic.LoadInt64(&m.ran)) != n {
			E.add("%s %s: %s was called %d times, %sFunc ran %d times", job.Mock, phase, m.name, n, m.name, m.ran)
		}
		if withResets {
			if final.Len() > n {
				E.add("%s %s: %sCalls() has %d records, only %d calls were made", job.Mock, phase, m.name, final.Len(), n)
			}
			for _, u := range uids {
				if want[u] == 0 {
					E.add("%s %s: %sCalls() holds uid %d which was never passed to %s", job.Mock, phase, m.name, u, m.name)
				}
			}
			continue
		}
		if final.Len() != n {
			E.add("%s %s: %d calls of %s were made, %sCalls() has %d records (lost or duplicated)", job.Mock, phase, n, m.name, m.name, final.Len())
		}
		if m.wide >= 0 {
			for _, u := range uids {
				want[u]--
			}
			for u, c := range want {
				if c != 0 {
					E.add("%s %s: call %d of %s: recorded %+d times too often/seldom", job.Mock, phase, u, m.name, -c)
					break
				}
			}
		}
	}
	if withResets {
		mock.MethodByName("ResetCalls").Call(nil)
		for _, m := range ms {
			if n := mock.MethodByName(m.name + "Calls").Call(nil)[0].Len(); n != 0 {
				E.add("%s %s: %d records of %s left after ResetCalls()", job.Mock, phase, n, m.name)
			}
		}
	}
	res.Calls += total
	res.Records += int(recs)
	res.Snapshots += int(snaps)
	res.Resets += int(resets)
}

// the only wall-clock assumption of this driver: how long a re-entrant call may take before it is called a
// deadlock (6 s, DRV_WATCHDOG_MS overrides).  Everything else is channel / WaitGroup rendezvous.
func watchdog() time.Duration {
	if ms, err := strconv.Atoi(os.Getenv("DRV_WATCHDOG_MS")); err == nil && ms > 0 {
		return time.Duration(ms) * time.Millisecond
	}
	return 6 * time.Second
}

// ---------------------------------------------------------------- re-entrancy probe
// A user function may use the mock it is serving: read <M>Calls() (which must already contain the
// running call), call <M> again, reset, or wait for another goroutine that uses <M>.  A generated
// method that still holds lock<M> while <M>Func runs never returns from any of these.
func probeReentrancy(job Job, mk func() any, res *Result, E *errs) bool {
	ok := true
	for _, variant := range []string{"calls", "recurse", "reset", "other-goroutine"} {
		mock := reflect.ValueOf(mk())
		ms := methodsOf(mock)
		if len(ms) == 0 {
			return true
		}
		if variant == "reset" && !mock.MethodByName("ResetCalls").IsValid() {
			continue
		}
		m := ms[job.Seed%len(ms)]
		f := mock.Elem().FieldByName(m.name + "Func")
		ft := f.Type()
		depth := 0
		var seen, inner int = -1, -1
		f.Set(reflect.MakeFunc(ft, func(a []reflect.Value) []reflect.Value {
			depth++
			if depth == 1 {
				switch variant {
				case "calls":
					seen = mock.MethodByName(m.name + "Calls").Call(nil)[0].Len()
				case "recurse":
					callVariadicAware(mock.MethodByName(m.name), m, m.args(2))
					inner = mock.MethodByName(m.name + "Calls").Call(nil)[0].Len()
				case "reset":
					mock.MethodByName("Reset" + m.name + "Calls").Call(nil)
					seen = mock.MethodByName(m.name + "Calls").Call(nil)[0].Len()
				case "other-goroutine":
					ch := make(chan int)
					go func() { ch <- mock.MethodByName(m.name + "Calls").Call(nil)[0].Len() }()
					seen = <-ch
				}
			}
			outs := make([]reflect.Value, ft.NumOut())
			for j := range outs {
				outs[j] = enc(ft.Out(j), m.result(0, j))
			}
			return outs
		}))
		done := make(chan struct{})
		go func() {
			defer close(done)
			defer func() {
				if r := recover(); r != nil {
					E.add("%s re-entrancy(%s): panic %v", job.Mock, variant, r)
				}
			}()
			callVariadicAware(mock.MethodByName(m.name), m, m.args(1))
		}()
		select {
		case <-done:
			res.Calls++
			switch variant {
			case "calls", "other-goroutine":
				if seen != 1 {
					E.add("%s re-entrancy(%s): %sCalls() read while %sFunc was serving the first call has %d records, the running call must be there (1)", job.Mock, variant, m.name, m.name, seen)
				}
			case "recurse":
				if inner != 2 {
					E.add("%s re-entrancy(recurse): %d records after the nested call of %s, want 2", job.Mock, inner, m.name)
				}
			case "reset":
				if seen != 0 {
					E.add("%s re-entrancy(reset): %d records right after Reset%sCalls() inside %sFunc, want 0", job.Mock, seen, m.name, m.name)
				}
			}
		case <-time.After(watchdog()):
			select {
			case <-done: // finished while this goroutine was waiting to be scheduled: not a timeout
				res.Calls++
				continue
			default:
			}
			// first-stage verdict only: harness/checks/c05.py re-runs this job alone with a 60 s watchdog
			res.Timeouts = append(res.Timeouts, variant)
			E.add("%s re-entrancy(%s): deadlock - %s never returned although %sFunc only used the mock it serves (lock%s still held while the user function runs?)", job.Mock, variant, m.name, m.name, m.name)
			ok = false
		}
		if !ok {
			break // one witness per mock is enough; every further variant would wait for the watchdog again
		}
	}
	return ok
}

// ---------------------------------------------------------------- testify
func newTestifyMeth(mock reflect.Value, i int) *meth {
	mt := mock.Method(i).Type()
	m := &meth{name: mock.Type().Method(i).Name, typ: mt, wide: -1, variadic: mt.IsVariadic(), nonzero: true, fixedVar: 2}
	n := mt.NumIn()
	for j := 0; j < n; j++ {
		t := mt.In(j)
		if m.variadic && j == n-1 {
			m.caps = append(m.caps, capacity(t.Elem()))
			continue
		}
		c := capacity(t)
		m.caps = append(m.caps, c)
		if m.wide < 0 && c >= big {
			m.wide = j
		}
	}
	return m
}

// register one expectation for m on mock: plain (kind 0) or through the generated expecter with a typed
// handler that checks it received exactly the argument tuple of one actual call
func registerTestify(job Job, mock reflect.Value, m *meth, kind int, maxUID int, E *errs, where string) {
	base := mock.Elem().FieldByName("Mock").Addr().Interface().(*tmock.Mock)
	mt := m.typ
	nfix := mt.NumIn()
	nvar := 0
	if m.variadic {
		nfix--
		nvar = 1
		if job.Unroll {
			nvar = m.fixedVar
		}
	}
	vals := make([]reflect.Value, mt.NumOut())
	ivals := make([]any, mt.NumOut())
	for j := range vals {
		vals[j] = enc(mt.Out(j), m.rets[j])
		ivals[j] = vals[j].Interface()
	}
	if kind == 0 {
		anys := make([]any, nfix+nvar)
		for j := range anys {
			anys[j] = tmock.Anything
		}
		base.On(m.name, anys...).Return(ivals...)
		return
	}
	e := mock.MethodByName("EXPECT").Call(nil)[0].MethodByName(m.name)
	anys := make([]reflect.Value, nfix+nvar)
	for j := range anys {
		anys[j] = reflect.ValueOf(tmock.Anything)
	}
	c := e.Call(anys)[0]
	check := func(a []reflect.Value) int {
		atomic.AddInt64(&m.ran, 1)
		got := decodeVals(m, a)
		if m.wide < 0 {
			return 0
		}
		uid, _ := got[m.wide].(int)
		if uid <= 0 || uid >= maxUID || !sameTuple(got, m.tuple(uid)) {
			E.add("%s %s: the typed handler of %s received %v, which is not the argument tuple of any single call", job.Mock, where, m.name, got)
		}
		return uid
	}
	if kind == 1 {
		run := c.MethodByName("Run")
		ft := run.Type().In(0)
		c = run.Call([]reflect.Value{reflect.MakeFunc(ft, func(a []reflect.Value) []reflect.Value { check(a); return nil })})[0]
		c.MethodByName("Return").Call(vals)
		return
	}
	rr := c.MethodByName("RunAndReturn")
	ft := rr.Type().In(0)
	rr.Call([]reflect.Value{reflect.MakeFunc(ft, func(a []reflect.Value) []reflect.Value {
		uid := check(a)
		outs := make([]reflect.Value, ft.NumOut())
		for j := range outs {
			outs[j] = enc(ft.Out(j), m.expectRet(uid, j))
		}
		return outs
	})})
}

// a copy without the counters (which other goroutines update atomically)
func (m *meth) clone() *meth {
	return &meth{name: m.name, typ: m.typ, caps: m.caps, wide: m.wide, variadic: m.variadic, nonzero: m.nonzero,
		fixedVar: m.fixedVar, rets: m.rets, kind: m.kind}
}

// what a call with this uid must return
func (m *meth) expectRet(uid, j int) int {
	if m.kind == 2 && m.wide >= 0 {
		c := capacity(m.typ.Out(j))
		if c <= 0 {
			return 0
		}
		return 1 + (uid+j)%min(c, 1000)
	}
	return m.rets[j]
}

func callTestify(mock reflect.Value, m *meth, uid int) (rets []reflect.Value, perr any) {
	defer func() { perr = recover() }()
	return mock.MethodByName(m.name).Call(m.args(uid)), nil
}

func stressTestify(job Job, mk func() any, res *Result, E *errs) {
	mock := reflect.ValueOf(mk())
	base := mock.Elem().FieldByName("Mock").Addr().Interface().(*tmock.Mock)
	hasExpecter := mock.MethodByName("EXPECT").IsValid()
	maxUID := job.Goroutines*job.Calls + 10
	var ms []*meth
	t := mock.Type()
	for i := 0; i < t.NumMethod(); i++ {
		name := t.Method(i).Name
		if name == "EXPECT" {
			continue
		}
		if _, promoted := reflect.TypeOf(base).MethodByName(name); promoted {
			continue // methods of the embedded mock.Mock
		}
		m := newTestifyMeth(mock, i)
		for j := 0; j < m.typ.NumOut(); j++ {
			c := capacity(m.typ.Out(j))
			tok := 0
			if c > 0 {
				tok = 1 + (job.Seed+i+j)%min(c, 50)
			}
			m.rets = append(m.rets, tok)
		}
		m.kind = 0
		if hasExpecter {
			m.kind = 1 + (job.Seed+i)%2
			// single-threaded probe on a mock of its own: a typed handler that already fails sequentially is C03's
			// subject (unfixed: variadic Run with rolled variadics, nil arguments), not a concurrency finding
			pm := reflect.ValueOf(mk())
			pe := &errs{}
			probe := m.clone()
			registerTestify(job, pm, probe, m.kind, maxUID, pe, "probe")
			uid := maxUID - 1
			rets, perr := callTestify(pm, probe, uid)
			okp := perr == nil && len(pe.l) == 0 && probe.ran == 1
			for j, r := range rets {
				if dec(r) != probe.expectRet(uid, j) {
					okp = false
				}
			}
			if !okp {
				res.Skipped = append(res.Skipped, fmt.Sprintf("%s.%s(kind %d, variadic %v, unroll %v)", job.Mock, m.name, m.kind, m.variadic, job.Unroll))
				m.kind = 0
			} else {
				res.Typed++
			}
		}
		ms = append(ms, m)
	}
	if len(ms) == 0 {
		return
	}
	// the generated code adds no state of its own: the mock struct is the embedded mock.Mock and nothing else
	if st := mock.Elem().Type(); st.NumField() != 1 || !st.Field(0).Anonymous || st.Field(0).Type != reflect.TypeOf(tmock.Mock{}) {
		var extra []string
		for i := 0; i < st.NumField(); i++ {
			if f := st.Field(i); !(f.Anonymous && f.Type == reflect.TypeOf(tmock.Mock{})) {
				extra = append(extra, f.Name+" "+f.Type.String())
			}
		}
		E.add("%s: the generated testify mock struct has state besides the embedded mock.Mock: %v", job.Mock, extra)
	}
	// registration: the FIRST EXPECT() calls on the fresh shared mock happen concurrently - one worker per method
	// (at least two workers), each registering its own expectation through mock.EXPECT(); nothing touched the mock before
	{
		workers := len(ms)
		if workers < 4 {
			workers = 4
		}
		firstExpect := expectFns[job.Mock]
		obj := mock.Interface()
		start := make(chan struct{})
		var rg sync.WaitGroup
		for w := 0; w < workers; w++ {
			rg.Add(1)
			go func(w int) {
				defer rg.Done()
				defer func() {
					if r := recover(); r != nil {
						E.add("%s: panic while registering expectations concurrently: %v", job.Mock, r)
					}
				}()
				m := ms[w%len(ms)]
				<-start
				if firstExpect != nil {
					firstExpect(obj) // the very first thing every worker does with the shared mock
				}
				registerTestify(job, mock, m, m.kind, maxUID, E, "stress")
			}(w)
		}
		close(start)
		rg.Wait()
	}
	var wg sync.WaitGroup
	var calls int64
	for g := 0; g < job.Goroutines; g++ {
		wg.Add(1)
		go func(g int) {
			defer wg.Done()
			for k := 0; k < job.Calls; k++ {
				uid := 1 + g*job.Calls + k
				m := ms[(uid*7+job.Seed)%len(ms)]
				rets, perr := callTestify(mock, m, uid)
				atomic.AddInt64(&calls, 1)
				atomic.AddInt64(&m.calls, 1)
				if perr != nil {
					E.add("%s: panic in %s (goroutine %d): %v", job.Mock, m.name, g, perr)
					continue
				}
				for j, r := range rets {
					if dec(r) != m.expectRet(uid, j) {
						E.add("%s: %s(uid %d) returned %d for result %d, its handler/expectation says %d", job.Mock, m.name, uid, dec(r), j, m.expectRet(uid, j))
					}
				}
			}
		}(g)
	}
	// expectations added through the generated expecter while calls are running (never matched: the first one wins)
	if hasExpecter {
		for g := 0; g < 2; g++ {
			wg.Add(1)
			go func(g int) {
				defer wg.Done()
				defer func() {
					if r := recover(); r != nil {
						E.add("%s: panic in expecter goroutine: %v", job.Mock, r)
					}
				}()
				for k := 0; k < 20; k++ {
					m := ms[(k+g)%len(ms)]
					extra := m.clone()
					registerTestify(job, mock, extra, 1+k%2, maxUID, E, "late expectation")
				}
			}(g)
		}
	}
	wg.Wait()
	if len(base.Calls) != int(calls) {
		E.add("%s: %d calls were made, the embedded mock recorded %d", job.Mock, calls, len(base.Calls))
	}
	for _, m := range ms {
		if m.kind != 0 && m.ran != m.calls {
			E.add("%s: %s was called %d times, its typed handler ran %d times", job.Mock, m.name, m.calls, m.ran)
		}
	}
	res.Calls += int(calls)
}

func main() {
	var jobs []Job
	if err := json.NewDecoder(os.Stdin).Decode(&jobs); err != nil {
		fmt.Fprintln(os.Stderr, "bad input:", err)
		os.Exit(2)
	}
	var all []Result
	for _, j := range jobs {
		mk, ok := registry[j.Mock]
		if !ok {
			fmt.Fprintln(os.Stderr, "unknown mock:", j.Mock)
			os.Exit(2)
		}
		res := Result{Mock: j.Mock, Errors: []string{}, Skipped: []string{}, Timeouts: []string{}}
		E := &errs{}
		func() {
			defer func() {
				if r := recover(); r != nil {
					E.add("%s: driver panic: %v", j.Mock, r)
				}
			}()
			if j.Kind == "testify" {
				stressTestify(j, mk, &res, E)
			} else {
				if !j.Stub && !probeReentrancy(j, mk, &res, E) {
					return
				}
				stressMatryer(j, mk, false, &res, E)
				if reflect.ValueOf(mk()).MethodByName("ResetCalls").IsValid() {
					stressMatryer(j, mk, true, &res, E)
				}
			}
		}()
		res.Errors = append(res.Errors, E.l...)
		all = append(all, res)
	}
	if err := json.NewEncoder(os.Stdout).Encode(all); err != nil {
		fmt.Fprintln(os.Stderr, err)
		os.Exit(2)
	}
}
