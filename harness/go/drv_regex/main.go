// drv_regex answers, for each string, whether Go's regexp package (RE2 syntax) compiles it.
// It is the reference for "the regex value compiles" in C19 (the v3 loader validates
// include-interface-regex / exclude-interface-regex / exclude-subpkg-regex with regexp.Compile).
// Standard library only; copied into a scratch copy of the tree (zz_verif/drv_regex) and built there.
//
// stdin:  JSON ["hex", ...]        (hex of the string's bytes)
// stdout: JSON [true|false, ...]
package main

import (
	"encoding/hex"
	"encoding/json"
	"fmt"
	"os"
	"regexp"
)

func main() {
	var in []string
	if err := json.NewDecoder(os.Stdin).Decode(&in); err != nil {
		fmt.Fprintln(os.Stderr, err)
		os.Exit(2)
	}
	out := make([]bool, len(in))
	for i, h := range in {
		b, err := hex.DecodeString(h)
		if err != nil {
			fmt.Fprintln(os.Stderr, err)
			os.Exit(2)
		}
		_, err = regexp.Compile(string(b))
		out[i] = err == nil
	}
	_ = json.NewEncoder(os.Stdout).Encode(out)
}
