// mockcount: stdlib-only helper for C02.  Arguments: Go file paths.  Parses each file with
// go/parser (no type checking) and prints JSON
//
//	{file: {"error": "...",
//	        "types":   [{"name": N, "struct": bool, "tparams": k, "tpnames": [names]}],          top-level type declarations, file order
//	        "methods": [{"recv": R, "name": M, "np": k, "variadic": bool, "nr": k}]}}   method declarations, file order
//
// recv is the receiver's base type name (pointer and type arguments stripped); np / nr count
// parameters and results (a field `a, b int` counts twice, an unnamed field once).
package main

import (
	"encoding/json"
	"go/ast"
	"go/parser"
	"go/token"
	"os"
)

type typeDecl struct {
	Name    string `json:"name"`
	Struct  bool   `json:"struct"`
	TParams int    `json:"tparams"`
	// TPNames are the names of the type parameters as written
	TPNames []string `json:"tpnames"`
}

type methodDecl struct {
	Recv     string `json:"recv"`
	Name     string `json:"name"`
	NP       int    `json:"np"`
	Variadic bool   `json:"variadic"`
	NR       int    `json:"nr"`
}

type fileInfo struct {
	Error   string       `json:"error,omitempty"`
	Types   []typeDecl   `json:"types"`
	Methods []methodDecl `json:"methods"`
}

func count(fl *ast.FieldList) int {
	if fl == nil {
		return 0
	}
	n := 0
	for _, f := range fl.List {
		if len(f.Names) == 0 {
			n++
		} else {
			n += len(f.Names)
		}
	}
	return n
}

func recvName(e ast.Expr) string {
	for {
		switch t := e.(type) {
		case *ast.StarExpr:
			e = t.X
		case *ast.ParenExpr:
			e = t.X
		case *ast.IndexExpr:
			e = t.X
		case *ast.IndexListExpr:
			e = t.X
		case *ast.Ident:
			return t.Name
		default:
			return "?"
		}
	}
}

func main() {
	out := map[string]*fileInfo{}
	for _, path := range os.Args[1:] {
		fi := &fileInfo{Types: []typeDecl{}, Methods: []methodDecl{}}
		out[path] = fi
		fset := token.NewFileSet()
		f, err := parser.ParseFile(fset, path, nil, parser.SkipObjectResolution)
		if err != nil {
			fi.Error = err.Error()
			continue
		}
		for _, d := range f.Decls {
			switch x := d.(type) {
			case *ast.GenDecl:
				if x.Tok != token.TYPE {
					continue
				}
				for _, s := range x.Specs {
					ts := s.(*ast.TypeSpec)
					_, isStruct := ts.Type.(*ast.StructType)
					names := []string{}
					if ts.TypeParams != nil {
						for _, f := range ts.TypeParams.List {
							for _, n := range f.Names {
								names = append(names, n.Name)
							}
						}
					}
					fi.Types = append(fi.Types, typeDecl{Name: ts.Name.Name, Struct: isStruct, TParams: count(ts.TypeParams), TPNames: names})
				}
			case *ast.FuncDecl:
				if x.Recv == nil || len(x.Recv.List) != 1 {
					continue
				}
				m := methodDecl{Recv: recvName(x.Recv.List[0].Type), Name: x.Name.Name, NP: count(x.Type.Params), NR: count(x.Type.Results)}
				if p := x.Type.Params; p != nil && len(p.List) > 0 {
					_, m.Variadic = p.List[len(p.List)-1].Type.(*ast.Ellipsis)
				}
				fi.Methods = append(fi.Methods, m)
			}
		}
	}
	json.NewEncoder(os.Stdout).Encode(out)
}
