// drv_alloc executes histories of template.Registry / template.MethodScope calls
// (the API offered to templates) and prints every answer.  It is copied into a scratch
// copy of the mockery tree (zz_verif/drv_alloc) and built there.
//
// stdin:  JSON [{"dst":hex,"inpkg":bool,"ops":[{"op":"AllocateName","a":hex,"b":hex},...]},...]
// stdout: JSON [[{"k":"name","a":hex}, ...], ...]   ("panic" entries carry the message)
package main

import (
	"encoding/hex"
	"encoding/json"
	"fmt"
	"os"

	"github.com/vektra/mockery/v3/template"
)

type Op struct {
	Op string `json:"op"`
	A  string `json:"a"`
	B  string `json:"b"`
}
type Case struct {
	Dst   string `json:"dst"`
	InPkg bool   `json:"inpkg"`
	Ops   []Op   `json:"ops"`
}
type Out struct {
	K string     `json:"k"`
	A string     `json:"a,omitempty"`
	B string     `json:"b,omitempty"`
	L [][2]string `json:"l,omitempty"`
	T bool       `json:"t,omitempty"`
}

func unhex(s string) string {
	b, err := hex.DecodeString(s)
	if err != nil {
		panic(err)
	}
	return string(b)
}
func hx(s string) string { return hex.EncodeToString([]byte(s)) }

func runCase(c Case) (outs []Out) {
	defer func() {
		if r := recover(); r != nil {
			outs = append(outs, Out{K: "panic", A: hx(fmt.Sprint(r))})
		}
	}()
	reg, err := template.NewRegistry(nil, unhex(c.Dst), c.InPkg)
	if err != nil {
		panic(err)
	}
	scope := reg.MethodScope()
	for _, o := range c.Ops {
		a, b := unhex(o.A), unhex(o.B)
		switch o.Op {
		case "AllocateName":
			outs = append(outs, Out{K: "name", A: hx(scope.AllocateName(a))})
		case "SuggestName":
			outs = append(outs, Out{K: "name", A: hx(scope.SuggestName(a))})
		case "AddName":
			scope.AddName(a)
			outs = append(outs, Out{K: "unit"})
		case "NameExists":
			outs = append(outs, Out{K: "bool", T: scope.NameExists(a)})
		case "AddImport":
			p := reg.AddImport(a, b)
			outs = append(outs, Out{K: "imp", A: hx(p.Path()), B: hx(p.Qualifier())})
		case "Imports":
			l := [][2]string{}
			for _, p := range reg.Imports() {
				l = append(l, [2]string{hx(p.Path()), hx(p.Qualifier())})
			}
			outs = append(outs, Out{K: "imports", L: l})
		case "PkgQualifier":
			q, err := reg.Imports().PkgQualifier(a)
			if err != nil {
				outs = append(outs, Out{K: "qual_err"})
			} else {
				outs = append(outs, Out{K: "qual", A: hx(q)})
			}
		case "NewScope":
			scope = reg.MethodScope()
			outs = append(outs, Out{K: "unit"})
		default:
			panic("unknown op " + o.Op)
		}
	}
	return outs
}

func main() {
	var cases []Case
	if err := json.NewDecoder(os.Stdin).Decode(&cases); err != nil {
		fmt.Fprintln(os.Stderr, err)
		os.Exit(2)
	}
	res := make([][]Out, len(cases))
	for i, c := range cases {
		res[i] = runCase(c)
	}
	if err := json.NewEncoder(os.Stdout).Encode(res); err != nil {
		os.Exit(2)
	}
}
