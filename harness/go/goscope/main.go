// goscope: stdlib-only extractor of the *scoping skeleton* of a Go source file (C01).
//
//	goscope file  <dir> <file> <pkgnames.json>   skeleton of <dir>/<file> as JSON on stdout
//	goscope types                                stdin: JSON list of {s: type string, con: bool}; stdout: per string the
//	                                            qualifiers and bare identifiers used in type position
//
// Skeleton (mirrors coq/Gen/Skeleton.v):
//
//	imports : (path, qualifier)            qualifier = explicit name, or the package name looked up in pkgnames.json
//	others  : package-level type / value names declared by the OTHER files of the same package in <dir>
//	tops    : top-level declarations with their items
//	item    : ["u", kind, name]  use; kind Q (qualifier: base of a selector in a type), T (identifier in type position),
//	                             C (identifier inside a type-parameter constraint), V (identifier in expression position,
//	                             including the base of x.f, which may be a package qualifier)
//	          ["d", "t"|"v", name]  declaration of a type parameter / a variable, parameter, receiver, struct field
//	          ["b", [items]]        nested block (function literal, if/for/range/switch, bare block; a struct type's
//	                                field names form a closed block that contains only the declarations)
//
// Items are emitted in source order; the scope of a declaration starts after it (as in Go), the uses of a
// signature come before the parameter declarations (parameters are not in scope in their own signature).
package main

import (
	"encoding/json"
	"fmt"
	"go/ast"
	"go/parser"
	"go/token"
	"io"
	"os"
	"path/filepath"
	"sort"
	"strconv"
	"strings"
)

type item = []interface{}

type top struct {
	Kind  string `json:"kind"` // type | var | func | method
	Name  string `json:"name"`
	Recv  string `json:"recv"`
	Items []item `json:"items"`
}

type imp struct {
	Path string `json:"path"`
	Name string `json:"name"` // explicit name in the import spec ("" if none)
	Qual string `json:"qual"`
}

type skel struct {
	Pkg         string   `json:"pkg"`
	Imports     []imp    `json:"imports"`
	OtherTypes  []string `json:"other_types"`
	OtherValues []string `json:"other_values"`
	Tops        []top    `json:"tops"`
	BuildLine   string   `json:"build_line"`
	Header      []string `json:"header"`
}

type out struct {
	items []item
	con   bool // inside a type-parameter constraint
}

func (o *out) use(kind, name string) {
	if name == "_" {
		return
	}
	o.items = append(o.items, item{"u", kind, name})
}
func (o *out) decl(kind, name string) {
	o.items = append(o.items, item{"d", kind, name})
}
func (o *out) block(f func(*out)) {
	in := &out{con: o.con}
	f(in)
	if in.items == nil {
		in.items = []item{}
	}
	o.items = append(o.items, item{"b", in.items})
}

// ---------------------------------------------------------------- types
func (o *out) fieldNamesBlock(fl *ast.FieldList) {
	if fl == nil {
		return
	}
	o.block(func(in *out) {
		for _, f := range fl.List {
			if len(f.Names) == 0 {
				if n := embeddedName(f.Type); n != "" {
					in.decl("v", n)
				}
			}
			for _, n := range f.Names {
				in.decl("v", n.Name)
			}
		}
	})
}

func embeddedName(e ast.Expr) string {
	switch t := e.(type) {
	case *ast.Ident:
		return t.Name
	case *ast.SelectorExpr:
		return t.Sel.Name
	case *ast.StarExpr:
		return embeddedName(t.X)
	case *ast.IndexExpr:
		return embeddedName(t.X)
	case *ast.IndexListExpr:
		return embeddedName(t.X)
	case *ast.ParenExpr:
		return embeddedName(t.X)
	}
	return ""
}

func (o *out) typ(e ast.Expr) {
	switch t := e.(type) {
	case nil:
	case *ast.Ident:
		if o.con {
			o.use("C", t.Name)
		} else {
			o.use("T", t.Name)
		}
	case *ast.SelectorExpr:
		if x, ok := t.X.(*ast.Ident); ok {
			o.use("Q", x.Name)
		} else {
			o.typ(t.X)
		}
	case *ast.StarExpr:
		o.typ(t.X)
	case *ast.ParenExpr:
		o.typ(t.X)
	case *ast.ArrayType:
		if t.Len != nil {
			if _, ok := t.Len.(*ast.Ellipsis); !ok {
				o.val(t.Len)
			}
		}
		o.typ(t.Elt)
	case *ast.Ellipsis:
		o.typ(t.Elt)
	case *ast.MapType:
		o.typ(t.Key)
		o.typ(t.Value)
	case *ast.ChanType:
		o.typ(t.Value)
	case *ast.FuncType:
		o.sig(t)
	case *ast.StructType:
		o.fieldNamesBlock(t.Fields)
		if t.Fields != nil {
			for _, f := range t.Fields.List {
				o.typ(f.Type)
			}
		}
	case *ast.InterfaceType:
		if t.Methods != nil {
			for _, f := range t.Methods.List {
				o.typ(f.Type)
			}
		}
	case *ast.IndexExpr:
		o.typ(t.X)
		o.typ(t.Index)
	case *ast.IndexListExpr:
		o.typ(t.X)
		for _, i := range t.Indices {
			o.typ(i)
		}
	case *ast.BinaryExpr: // union
		o.typ(t.X)
		o.typ(t.Y)
	case *ast.UnaryExpr: // ~T
		o.typ(t.X)
	default:
		o.use("T", fmt.Sprintf("<unsupported %T>", e))
	}
}

// uses of the types of a signature (parameter and result names of a func TYPE are not declarations)
func (o *out) sig(t *ast.FuncType) {
	if t.Params != nil {
		for _, f := range t.Params.List {
			o.typ(f.Type)
		}
	}
	if t.Results != nil {
		for _, f := range t.Results.List {
			o.typ(f.Type)
		}
	}
}

func (o *out) declFields(fl *ast.FieldList) {
	if fl == nil {
		return
	}
	for _, f := range fl.List {
		for _, n := range f.Names {
			if n.Name != "_" {
				o.decl("v", n.Name)
			}
		}
	}
}

func isTypeSyntax(e ast.Expr) bool {
	switch t := e.(type) {
	case *ast.ArrayType, *ast.MapType, *ast.ChanType, *ast.FuncType, *ast.StructType, *ast.InterfaceType:
		return true
	case *ast.ParenExpr:
		if s, ok := t.X.(*ast.StarExpr); ok {
			_ = s
			return true
		}
		return isTypeSyntax(t.X)
	}
	return false
}

// ---------------------------------------------------------------- expressions
func (o *out) val(e ast.Expr) {
	switch t := e.(type) {
	case nil:
	case *ast.Ident:
		o.use("V", t.Name)
	case *ast.BasicLit:
	case *ast.SelectorExpr:
		o.val(t.X)
	case *ast.CallExpr:
		if f, ok := t.Fun.(*ast.Ident); ok && (f.Name == "make" || f.Name == "new") && len(t.Args) > 0 {
			o.use("V", f.Name)
			o.typ(t.Args[0])
			for _, a := range t.Args[1:] {
				o.val(a)
			}
			return
		}
		if isTypeSyntax(t.Fun) {
			o.typ(t.Fun)
		} else {
			o.val(t.Fun)
		}
		for _, a := range t.Args {
			o.val(a)
		}
	case *ast.TypeAssertExpr:
		o.val(t.X)
		o.typ(t.Type)
	case *ast.CompositeLit:
		o.typ(t.Type)
		for _, el := range t.Elts {
			if kv, ok := el.(*ast.KeyValueExpr); ok {
				if _, isID := kv.Key.(*ast.Ident); !isID { // a bare identifier key is taken to be a field name
					o.val(kv.Key)
				}
				o.val(kv.Value)
			} else {
				o.val(el)
			}
		}
	case *ast.UnaryExpr:
		o.val(t.X)
	case *ast.BinaryExpr:
		o.val(t.X)
		o.val(t.Y)
	case *ast.IndexExpr:
		o.val(t.X)
		o.val(t.Index)
	case *ast.IndexListExpr:
		o.val(t.X)
		for _, i := range t.Indices {
			o.val(i)
		}
	case *ast.SliceExpr:
		o.val(t.X)
		o.val(t.Low)
		o.val(t.High)
		o.val(t.Max)
	case *ast.StarExpr:
		o.val(t.X)
	case *ast.ParenExpr:
		o.val(t.X)
	case *ast.KeyValueExpr:
		o.val(t.Key)
		o.val(t.Value)
	case *ast.FuncLit:
		o.block(func(in *out) {
			in.sig(t.Type)
			in.declFields(t.Type.Params)
			in.declFields(t.Type.Results)
			in.stmts(t.Body.List)
		})
	case *ast.ArrayType, *ast.MapType, *ast.ChanType, *ast.FuncType, *ast.StructType, *ast.InterfaceType:
		o.typ(e)
	case *ast.Ellipsis:
		o.val(t.Elt)
	default:
		o.use("V", fmt.Sprintf("<unsupported %T>", e))
	}
}

// ---------------------------------------------------------------- statements
func (o *out) stmts(l []ast.Stmt) {
	for _, s := range l {
		o.stmt(s)
	}
}

func (o *out) genDecl(d *ast.GenDecl) {
	for _, sp := range d.Specs {
		switch s := sp.(type) {
		case *ast.ValueSpec:
			o.typ(s.Type)
			for _, v := range s.Values {
				o.val(v)
			}
			for _, n := range s.Names {
				if n.Name != "_" {
					o.decl("v", n.Name)
				}
			}
		case *ast.TypeSpec:
			o.decl("t", s.Name.Name)
			o.typ(s.Type)
		}
	}
}

func (o *out) stmt(s ast.Stmt) {
	switch t := s.(type) {
	case nil:
	case *ast.ExprStmt:
		o.val(t.X)
	case *ast.AssignStmt:
		for _, r := range t.Rhs {
			o.val(r)
		}
		for _, l := range t.Lhs {
			if t.Tok == token.DEFINE {
				if id, ok := l.(*ast.Ident); ok {
					if id.Name != "_" {
						o.decl("v", id.Name)
					}
					continue
				}
			}
			o.val(l)
		}
	case *ast.DeclStmt:
		if g, ok := t.Decl.(*ast.GenDecl); ok {
			o.genDecl(g)
		}
	case *ast.ReturnStmt:
		for _, r := range t.Results {
			o.val(r)
		}
	case *ast.IfStmt:
		o.block(func(in *out) {
			in.stmt(t.Init)
			in.val(t.Cond)
			in.block(func(b *out) { b.stmts(t.Body.List) })
			switch e := t.Else.(type) {
			case *ast.BlockStmt:
				in.block(func(b *out) { b.stmts(e.List) })
			case *ast.IfStmt:
				in.stmt(e)
			}
		})
	case *ast.ForStmt:
		o.block(func(in *out) {
			in.stmt(t.Init)
			in.val(t.Cond)
			in.stmt(t.Post)
			in.block(func(b *out) { b.stmts(t.Body.List) })
		})
	case *ast.RangeStmt:
		o.block(func(in *out) {
			in.val(t.X)
			for _, kv := range []ast.Expr{t.Key, t.Value} {
				if kv == nil {
					continue
				}
				if id, ok := kv.(*ast.Ident); ok && t.Tok == token.DEFINE {
					if id.Name != "_" {
						in.decl("v", id.Name)
					}
				} else {
					in.val(kv)
				}
			}
			in.block(func(b *out) { b.stmts(t.Body.List) })
		})
	case *ast.BlockStmt:
		o.block(func(in *out) { in.stmts(t.List) })
	case *ast.IncDecStmt:
		o.val(t.X)
	case *ast.SendStmt:
		o.val(t.Chan)
		o.val(t.Value)
	case *ast.GoStmt:
		o.val(t.Call)
	case *ast.DeferStmt:
		o.val(t.Call)
	case *ast.LabeledStmt:
		o.stmt(t.Stmt)
	case *ast.SwitchStmt:
		o.block(func(in *out) {
			in.stmt(t.Init)
			in.val(t.Tag)
			for _, c := range t.Body.List {
				cc := c.(*ast.CaseClause)
				in.block(func(b *out) {
					for _, e := range cc.List {
						b.val(e)
					}
					b.stmts(cc.Body)
				})
			}
		})
	case *ast.TypeSwitchStmt:
		o.block(func(in *out) {
			in.stmt(t.Init)
			in.stmt(t.Assign)
			for _, c := range t.Body.List {
				cc := c.(*ast.CaseClause)
				in.block(func(b *out) {
					for _, e := range cc.List {
						b.typ(e)
					}
					b.stmts(cc.Body)
				})
			}
		})
	case *ast.SelectStmt:
		o.block(func(in *out) {
			for _, c := range t.Body.List {
				cc := c.(*ast.CommClause)
				in.block(func(b *out) {
					b.stmt(cc.Comm)
					b.stmts(cc.Body)
				})
			}
		})
	case *ast.BranchStmt, *ast.EmptyStmt:
	default:
		o.use("V", fmt.Sprintf("<unsupported %T>", s))
	}
}

// ---------------------------------------------------------------- declarations
func (o *out) tparams(fl *ast.FieldList) {
	if fl == nil {
		return
	}
	for _, f := range fl.List {
		for _, n := range f.Names {
			if n.Name != "_" {
				o.decl("t", n.Name)
			}
		}
	}
	o.con = true
	for _, f := range fl.List {
		o.typ(f.Type)
	}
	o.con = false
}

func funcTop(d *ast.FuncDecl) top {
	o := &out{}
	t := top{Kind: "func", Name: d.Name.Name}
	var recvName string
	if d.Recv != nil && len(d.Recv.List) > 0 {
		t.Kind = "method"
		r := d.Recv.List[0]
		if len(r.Names) > 0 {
			recvName = r.Names[0].Name
		}
		rt := r.Type
		if s, ok := rt.(*ast.StarExpr); ok {
			rt = s.X
		}
		var binders []ast.Expr
		switch x := rt.(type) {
		case *ast.IndexExpr:
			binders = []ast.Expr{x.Index}
			rt = x.X
		case *ast.IndexListExpr:
			binders = x.Indices
			rt = x.X
		}
		for _, b := range binders {
			if id, ok := b.(*ast.Ident); ok && id.Name != "_" {
				o.decl("t", id.Name)
			}
		}
		if id, ok := rt.(*ast.Ident); ok {
			t.Recv = id.Name
			o.use("T", id.Name)
		}
	}
	o.tparams(d.Type.TypeParams)
	o.sig(d.Type)
	if recvName != "" && recvName != "_" {
		o.decl("v", recvName)
	}
	o.declFields(d.Type.Params)
	o.declFields(d.Type.Results)
	if d.Body != nil {
		o.stmts(d.Body.List)
	}
	t.Items = o.items
	if t.Items == nil {
		t.Items = []item{}
	}
	return t
}

func genTops(d *ast.GenDecl) []top {
	var ts []top
	for _, sp := range d.Specs {
		switch s := sp.(type) {
		case *ast.TypeSpec:
			o := &out{}
			o.tparams(s.TypeParams)
			o.typ(s.Type)
			if o.items == nil {
				o.items = []item{}
			}
			ts = append(ts, top{Kind: "type", Name: s.Name.Name, Items: o.items})
		case *ast.ValueSpec:
			o := &out{}
			o.typ(s.Type)
			for _, v := range s.Values {
				o.val(v)
			}
			if o.items == nil {
				o.items = []item{}
			}
			for i, n := range s.Names {
				it := o.items
				if i > 0 {
					it = []item{}
				}
				ts = append(ts, top{Kind: "var", Name: n.Name, Items: it})
			}
		}
	}
	return ts
}

func pkgLevelNames(f *ast.File, types, values map[string]bool) {
	for _, d := range f.Decls {
		switch x := d.(type) {
		case *ast.FuncDecl:
			if x.Recv == nil && x.Name.Name != "_" && x.Name.Name != "init" {
				values[x.Name.Name] = true
			}
		case *ast.GenDecl:
			for _, sp := range x.Specs {
				switch s := sp.(type) {
				case *ast.TypeSpec:
					if s.Name.Name != "_" {
						types[s.Name.Name] = true
					}
				case *ast.ValueSpec:
					for _, n := range s.Names {
						if n.Name != "_" {
							values[n.Name] = true
						}
					}
				}
			}
		}
	}
}

func sorted(m map[string]bool) []string {
	l := make([]string, 0, len(m))
	for k := range m {
		l = append(l, k)
	}
	sort.Strings(l)
	return l
}

func doFile(dir, file, pkgnamesPath string) error {
	pkgnames := map[string]string{}
	if b, err := os.ReadFile(pkgnamesPath); err == nil {
		if err := json.Unmarshal(b, &pkgnames); err != nil {
			return err
		}
	}
	fset := token.NewFileSet()
	f, err := parser.ParseFile(fset, filepath.Join(dir, file), nil, parser.ParseComments)
	if err != nil {
		return err
	}
	sk := skel{Pkg: f.Name.Name, Imports: []imp{}, Tops: []top{}, Header: []string{}}
	for _, cg := range f.Comments {
		if cg.End() >= f.Package {
			break
		}
		for _, c := range cg.List {
			sk.Header = append(sk.Header, c.Text)
			if strings.HasPrefix(c.Text, "//go:build ") {
				sk.BuildLine = strings.TrimPrefix(c.Text, "//go:build ")
			}
		}
	}
	for _, is := range f.Imports {
		p, _ := strconv.Unquote(is.Path.Value)
		i := imp{Path: p}
		if is.Name != nil {
			i.Name = is.Name.Name
			i.Qual = is.Name.Name
		} else if n, ok := pkgnames[p]; ok {
			i.Qual = n
		} else {
			i.Qual = p[strings.LastIndex(p, "/")+1:]
		}
		sk.Imports = append(sk.Imports, i)
	}
	for _, d := range f.Decls {
		switch x := d.(type) {
		case *ast.FuncDecl:
			sk.Tops = append(sk.Tops, funcTop(x))
		case *ast.GenDecl:
			if x.Tok != token.IMPORT {
				sk.Tops = append(sk.Tops, genTops(x)...)
			}
		}
	}
	types, values := map[string]bool{}, map[string]bool{}
	ents, err := os.ReadDir(dir)
	if err != nil {
		return err
	}
	for _, e := range ents {
		n := e.Name()
		if e.IsDir() || !strings.HasSuffix(n, ".go") || n == file {
			continue
		}
		of, err := parser.ParseFile(fset, filepath.Join(dir, n), nil, 0)
		if err != nil || of.Name.Name != sk.Pkg {
			continue
		}
		pkgLevelNames(of, types, values)
	}
	sk.OtherTypes, sk.OtherValues = sorted(types), sorted(values)
	return json.NewEncoder(os.Stdout).Encode(sk)
}

// ---------------------------------------------------------------- type strings
type tyuse struct {
	Ok    bool     `json:"ok"`
	Quals []string `json:"quals"`
	Bare  []string `json:"bare"`
	// field names of struct types inside the type, one list per struct type, in goscope order
	Items []item `json:"items"`
}

func doTypes() error {
	b, err := io.ReadAll(os.Stdin)
	if err != nil {
		return err
	}
	var in []struct {
		S   string `json:"s"`
		Con bool   `json:"con"`
	}
	if err := json.Unmarshal(b, &in); err != nil {
		return err
	}
	res := make([]tyuse, len(in))
	for i, e := range in {
		fset := token.NewFileSet()
		var te ast.Expr
		if f, err := parser.ParseFile(fset, "t.go", "package p\ntype _ = "+e.S+"\n", 0); err == nil && len(f.Decls) == 1 {
			te = f.Decls[0].(*ast.GenDecl).Specs[0].(*ast.TypeSpec).Type
		} else if e.Con { // a union is only a type inside a constraint
			if f, err := parser.ParseFile(fset, "t.go", "package p\nfunc _[_ "+e.S+"]() {}\n", 0); err == nil && len(f.Decls) == 1 {
				te = f.Decls[0].(*ast.FuncDecl).Type.TypeParams.List[0].Type
			}
		}
		if te == nil {
			res[i] = tyuse{Ok: false, Quals: []string{}, Bare: []string{}, Items: []item{}}
			continue
		}
		o := &out{con: e.Con}
		o.typ(te)
		u := tyuse{Ok: true, Quals: []string{}, Bare: []string{}, Items: o.items}
		if u.Items == nil {
			u.Items = []item{}
		}
		var walk func(l []item)
		walk = func(l []item) {
			for _, it := range l {
				switch it[0] {
				case "u":
					if it[1] == "Q" {
						u.Quals = append(u.Quals, it[2].(string))
					} else {
						u.Bare = append(u.Bare, it[2].(string))
					}
				case "b":
					walk(it[1].([]item))
				}
			}
		}
		walk(o.items)
		res[i] = u
	}
	return json.NewEncoder(os.Stdout).Encode(res)
}

func main() {
	var err error
	switch {
	case len(os.Args) == 5 && os.Args[1] == "file":
		err = doFile(os.Args[2], os.Args[3], os.Args[4])
	case len(os.Args) == 2 && os.Args[1] == "types":
		err = doTypes()
	default:
		err = fmt.Errorf("usage: goscope file <dir> <file> <pkgnames.json> | goscope types < list.json")
	}
	if err != nil {
		fmt.Fprintln(os.Stderr, "goscope:", err)
		os.Exit(2)
	}
}
