#!/usr/bin/env python3
"""Rewrites the `fixed:` lines of known/*.json so that they name the /repo commit of each repair
(fixes/APPLIED.tsv maps fix name -> commit): "fixed: property=<id> <commit> <what failed>"."""
import json, re
from pathlib import Path
V = Path(__file__).resolve().parents[1]
applied = dict(l.split("\t") for l in (V / "fixes" / "APPLIED.tsv").read_text().split("\n") if l.strip())
for f in sorted((V / "known").glob("C*.json")):
    d = json.loads(f.read_text())
    out = []
    for line in d.get("fixed", []):
        m = re.match(r"fixed: property=(C\d+) (?:[0-9a-f]{7} )?\(?fixes/([a-z0-9-]+)\.diff\)?[:,]?\s*(.*)", line)
        if m and m.group(2) in applied:
            line = "fixed: property=%s %s (fixes/%s.diff) %s" % (m.group(1), applied[m.group(2)], m.group(2), m.group(3))
        elif not re.match(r"fixed: property=C\d+ [0-9a-f]{7} ", line):
            print("UNSTAMPED", f.name, line[:100])
        out.append(line)
    d["fixed"] = out
    f.write_text(json.dumps(d, indent=1, ensure_ascii=False) + "\n")
