"""Reference JSON-schema validation for C12 (run with python3-vt: needs the `jsonschema` package).
stdin : JSON list of {"schema_text": <str or null>, "instances": [<json>, ...]}
stdout: JSON list of {"schema_ok": bool, "valid": [bool, ...]}
schema_ok=false: the text is not JSON, or not a valid draft-07 schema."""
import json, sys
import jsonschema

def main():
    out = []
    for job in json.load(sys.stdin):
        txt = job.get("schema_text")
        try:
            sch = json.loads(txt)
            if not isinstance(sch, (dict, bool)):
                raise ValueError("schema must be an object or a boolean")
            jsonschema.Draft7Validator.check_schema(sch)
        except Exception:
            out.append({"schema_ok": False, "valid": []})
            continue
        v = jsonschema.Draft7Validator(sch)
        out.append({"schema_ok": True, "valid": [v.is_valid(i) for i in job["instances"]]})
    json.dump(out, sys.stdout)

main()
