"""C10 - output files are written safely: no stray writes, no clobbering, all-or-nothing.
Scenario machinery, resolver, Coq printers: harness/checks/c09.py (one shared model of the run)."""
import copy, json, os, re
from common import *
from checks import c09 as P

HMOD = "Cfg.Fs Cfg.GoMod Cfg.Pipeline Harness.C10"
# one failing stage for (the file of) one interface / one package; None = nothing fails
STAGES = [None, None, "MissingRemoteTemplateRootPkg", "SchemaRejectIface", "TemplateExecution", "InvalidGoOutput",
          "PrepareFailure", "SchemaMissing", "TemplateSyntaxRootPkg", "UnknownTemplateRootPkg", None, "UnknownFormatterIface",
          "SchemaRejectLater", "UnknownTemplateEntry", None, "SchemaRejectEntry",
          # runs that fail outside the per-file stages - some end through os.Exit after the files were
          # written - followed by a corrected second run in the same tree
          "ListedMissing", "ListedMissingAll", "ListedMissingStale", "PkgLoadErrorFileless"]
RERUN_STAGES = ("ListedMissing", "ListedMissingAll", "ListedMissingStale", "PkgLoadErrorFileless", "UnknownTemplateRootPkg",
                "MissingRemoteTemplateRootPkg")
CLASS_OF = lambda k: "ListedMissing" if k.startswith("ListedMissing") else ("PkgLoadError" if k.startswith("PkgLoadError") else
                                                                               re.sub(r"(RootPkg|Root|Pkg|Iface|Entry|Later)$", "", k))
# absent / what the run would write / that plus a trailing comment / LONGER than the new content and
# different from its first line on (an earlier run with more mocks) / user content / a directory
STATES = ["absent", "absent", "same", "stale", "longer", "longer", "user", "user", "dir"]
FORMATTERS = ["goimports", "gofmt", "noop"]
FORCE_MODES = ["unset", "root-true", "root-false", "pkg-true", "pkg-false-root-true", "pkg-true-root-false",
               "iface-same", "iface-diff"]


def outputs(scn):
    """{relpath of an output file: [(package, request)]} of a scenario (paths below the scenario root)"""
    w = P.resolve(P.bind(scn, "/S"), "/S")
    outs = {}
    for p, q in P.selected(w):
        if not q["outside"] and q["tstatus"] == "TOk":
            outs.setdefault("/".join(q["path"]), []).append((p, q))
    return outs


def set_force(rng, scn, mode):
    pkgs = [p for p in scn["packages"] if P.ifaces_of(p)]
    if mode == "unset" or not pkgs:
        return
    path = rng.choice(pkgs)
    if mode == "root-true":
        scn["root"]["force-file-write"] = True
    elif mode == "root-false":
        scn["root"]["force-file-write"] = False
    elif mode == "pkg-true":
        P.ensure_cfg(scn, path)["config"]["force-file-write"] = True
    elif mode == "pkg-false-root-true":
        scn["root"]["force-file-write"] = True
        P.ensure_cfg(scn, path)["config"]["force-file-write"] = False
    elif mode == "pkg-true-root-false":
        scn["root"]["force-file-write"] = False
        P.ensure_cfg(scn, path)["config"]["force-file-write"] = True
    else:
        # written at the interface level: with the value the package level gives anyway
        # ("iface-same"), or with the opposite one ("iface-diff": which value then counts is
        # C08's subject - those runs are judged by the oracle only, in its weak form)
        pv = rng.random() < 0.5
        scn["root"]["force-file-write"] = pv
        sel = P.selecting(scn)
        if path not in sel:
            return
        ent = P.ensure_cfg(scn, path)
        ent.setdefault("interfaces", {})
        for i in sel[path]:
            ie = ent["interfaces"].get(i) or {}
            ent["interfaces"][i] = ie
            tgt = [ie.setdefault("config", {})] if not ie.get("configs") else ie["configs"]
            for t in tgt:
                if t is not None:
                    t["force-file-write"] = pv if mode == "iface-same" else (not pv)


OUTSIDE_SRC = ("parent-link", "link-dangling", "link-devfull")     # only for outputs that are not in a source package directory
LINK_STATES = ["link-file", "link-file-outside", "link-dangling", "link-dir", "parent-link"] + (["link-devfull"] if P.devfull_ok() else [])
# every third scenario has no failing stage and puts ONE output into a state taken round-robin from this
# list, with force-file-write alternately true and false: each (state, force) pair occurs in every run
FOCUS = [(st, f) for f in (True, False) for st in ["absent", "same", "stale", "longer", "user", "dir"] + LINK_STATES + ["alias-rel", "alias-link", "symcwd"]]


def put_state(s, rel, st, pkgname):
    """initial state of the output whose name is rel (below the scenario root)"""
    d, fn = rel.rsplit("/", 1)
    n = len(s["links"])
    if st in ("same", "stale", "longer"):
        s["init_from_ref"][rel] = st
    elif st == "user":
        s["init"][rel] = b"package " + pkgname.encode() + b"\n\n// written by hand, not by mockery\n"
    elif st == "dir":
        s["init"][rel] = "DIR"
        s["init"][rel + "/keep.txt"] = b"a file inside the directory that occupies the output path\n"
    elif st == "link-file":          # symlink to an existing regular file elsewhere in the module
        s["init"]["m/linktargets/t%d.go" % n] = b"package " + pkgname.encode() + b"\n\n// the file a symlink at an output path points to\n"
        s["links"][rel] = os.path.relpath("m/linktargets/t%d.go" % n, d)
    elif st == "link-file-outside":  # ... to a regular file outside the module
        s["init"]["other/t%d.go" % n] = b"package " + pkgname.encode() + b"\n\n// link target outside the module\n"
        s["links"][rel] = os.path.relpath("other/t%d.go" % n, d)
        s["oracle_only"] = True      # the go.mod search starts from the link's directory, the model's from the target's
    elif st == "link-dangling":      # ... to a path that does not exist (its directory does)
        s["init"]["m/linktargets/keep%d.txt" % n] = b"keeps the directory\n"
        s["links"][rel] = os.path.relpath("m/linktargets/missing%d.go" % n, d)
    elif st == "link-dir":           # ... to a directory
        s["init"]["m/linktargets/d%d/keep.txt" % n] = b"inside the directory a symlink at an output path points to\n"
        s["links"][rel] = os.path.relpath("m/linktargets/d%d" % n, d)
    elif st == "link-devfull":       # ... to a private copy of /dev/full: opening succeeds, every write fails with ENOSPC
        s["links"][rel] = "@DEVFULL@"
    elif st == "parent-link":        # the directory that holds the output is a symlink to another directory
        s["init"]["m/linktargets/pd%d/keep.txt" % n] = b"inside the real output directory\n"
        s["links"][d] = os.path.relpath("m/linktargets/pd%d" % n, d.rsplit("/", 1)[0])


def gen_alias(rng, how, force):
    """ONE file reached through TWO spellings in one run: A1 of package a goes to the default
    {{.InterfaceDir}}/mocks_test.go (an absolute path), A2 to the same file spelled relative to the
    working directory (`dir: a`) or through a symlinked directory (`dir: alink`, alink -> a).  mockery keys
    output files by the path string: two collections, two writes.  The file is absent beforehand; the write
    that comes second in the (random) map order finds the file of the first: refused unless
    force-file-write.  Reference contents come from the de-aliased base (A2 in a file of its own)."""
    base = P.new_scn(["a", "b"])
    base["packages"][P.pkg_path("b")] = {"config": {"all": True}}
    base["packages"][P.pkg_path("a")] = {"interfaces": {"A1": None, "A2": {"config": {"filename": "alias_other_test.go"}}}}
    s = copy.deepcopy(base)
    s["packages"][P.pkg_path("a")]["interfaces"]["A2"] = {"config": {"dir": "a" if how == "alias-rel" else rng.choice(["alink", "./alink"])}}
    if how == "alias-link":
        s["links"]["m/alink"] = "a"
    s["root"]["force-file-write"] = force
    if rng.random() < 0.5:           # the flag only where it matters
        del s["root"]["force-file-write"]
        for i_ in ("A1", "A2"):
            e = s["packages"][P.pkg_path("a")]["interfaces"][i_] or {"config": {}}
            e["config"]["force-file-write"] = force
            s["packages"][P.pkg_path("a")]["interfaces"][i_] = e
    s["ref_name"] = {"A2": ["m", "a", "alias_other_test.go"]}
    s["init"] = P.unrelated_files(rng, s)
    s["init_from_ref"] = {}
    s["states"] = {"m/a/mocks_test.go": "absent (two spellings)", "m/b/mocks_test.go": "absent"}
    s["tags"] += ["force:focus-%s" % force, "state:" + how]
    return s, base


def gen_symcwd(rng, force, witness=False):
    """The working directory is entered through a symbolic link ($PWD = m/work/proj -> ../real/proj) and
    `dir` is relative and starts with `..`: the kernel resolves ../mocks from the PHYSICAL directory
    (m/real/mocks), lexical cleaning of $PWD/../mocks names m/work/mocks.  The designated output is the
    physical one; a hand-written file with the same name waits in the lexical sibling.  Both directories
    are in the snapshot.  witness: the lexical sibling does not exist beforehand (known finding
    C10-lexical-sibling-dir: findPkgPath's MkdirAll creates it, empty)."""
    pk = rng.sample(["a", "b", "c"], 2)
    base = P.new_scn(pk)
    base["root"].update({"dir": rng.choice(["../mocks/{{.SrcPackageName}}", "../../x/mocks/{{.SrcPackageName}}"]),
                         "filename": "mocks.go", "pkgname": "mocks"})
    # (the logical and the physical directory have the same depth below the module root: the go command
    # locates go.mod lexically from $PWD and opens it relative to the physical directory)
    base["cwd"] = "m/real/sub/proj" if base["root"]["dir"].startswith("../../") else "m/real/proj"
    for n in pk:
        base["packages"][P.pkg_path(n)] = {"config": {"all": True}}
    s = copy.deepcopy(base)
    two = s["root"]["dir"].startswith("../../")
    s["pwd"] = "m/work/sub/proj" if two else "m/work/proj"
    s["links"][s["pwd"]] = "../../real/sub/proj" if two else "../real/proj"
    s["root"]["force-file-write"] = force
    s["init"] = P.unrelated_files(rng, s)
    s["init_from_ref"] = {}
    states = {}
    up = "m/real/"                           # ../.. resp. .. from the physical directory
    lex = "m/work/"                          # ... from the logical one
    sub = "x/mocks/" if two else "mocks/"
    for n in pk:
        g = P.pkg_goname(n)
        rel = up + sub + g + "/mocks.go"
        st = rng.choice(["absent", "absent", "user", "longer"])
        states[rel] = st
        put_state(s, rel, st, "mocks")
        if not witness and lex != up:
            s["init"][lex + sub + g + "/mocks.go"] = b"package mocks\n\n// hand-written, in the directory that $PWD/.. names lexically\n"
    s["states"] = states
    s["tags"] += ["force:focus-%s" % force, "state:symcwd"] + (["known:C10-lexical-sibling-dir"] if witness else [])
    if witness:
        s["witness"] = "C10-lexical-sibling-dir"
    return s, base


def gen_c10(rng, i):
    focus = FOCUS[(i // 3) % len(FOCUS)] if i % 3 == 0 else None
    if focus and focus[0].startswith("alias"):
        return gen_alias(rng, *focus)
    if focus and focus[0] == "symcwd":
        return gen_symcwd(rng, focus[1])
    # the other scenarios: every stage with every formatter (48 = 16 stages x 3 formatters per quick run):
    # a stage failure that leaves an EMPTY or partial text behind is only visible when the formatter lets it
    # through (noop always, gofmt for an empty text; goimports rejects it)
    k = (i // 3) * 2 + (i % 3 - 1)
    stage = None if focus else STAGES[k % len(STAGES)]
    fmt = None if focus else FORMATTERS[(k // len(STAGES)) % len(FORMATTERS)]
    if stage == "InvalidGoOutput" and fmt == "noop":
        fmt = "gofmt"              # under noop invalid Go is not a failure
    for attempt in range(60):
        layout = rng.choice(["mocksdir", "pkgoverride"] if focus and focus[0] in OUTSIDE_SRC else ["default", "periface", "mocksdir", "multi", "pkgoverride"])
        pkgs = rng.sample(["a", "b", "c"], rng.randint(2, 3))
        if layout in ("default", "periface") and rng.random() < 0.3:
            pkgs += ["r", "r/s1", "r/s2"]
        base = P.gen_base(rng, layout=layout, pkgs=pkgs)
        if fmt:
            base["root"]["formatter"] = fmt
        if stage in P.TRAP_KINDS:
            P.use_trap(base)
        s = copy.deepcopy(base)
        if stage:
            s["base_ref"] = base
            P.INJECTIONS[stage](rng, s)
            del s["base_ref"]
            cl = P.classes_of(P.resolve(P.bind(s, "/nonexistent"), "/nonexistent"))
            if CLASS_OF(stage) not in cl:
                continue
        outs = outputs(s)
        if not outs or len({q["key"] for l in outs.values() for _, q in l}) > 5:
            continue
        if focus and focus[0] in OUTSIDE_SRC and not any(r.rsplit("/", 1)[0] not in ["m/" + n for n in s["pkgs"]] for r in outs):
            continue
        break
    else:
        raise RuntimeError("generator: no C10 scenario for stage %s" % stage)
    if focus:
        s["root"]["force-file-write"] = focus[1]
        for e in s["packages"].values():
            if P.lvl(P.lvl(e, "config"), "force-file-write") is not None:
                del e["config"]["force-file-write"]
        s["tags"].append("force:focus-%s" % focus[1])
    else:
        s["tags"].append("formatter:" + fmt)
        mode = FORCE_MODES[(i // len(STAGES) + i) % len(FORCE_MODES)]
        set_force(rng, s, mode)
        s["tags"].append("force:" + mode)
    s["init"] = P.unrelated_files(rng, s)
    s["init_from_ref"] = {}
    states = {}
    outs = sorted(outputs(s).items())
    fidx = None
    if focus:
        cand = [k for k, (rel, _) in enumerate(outs) if focus[0] not in OUTSIDE_SRC or rel.rsplit("/", 1)[0] not in ["m/" + n for n in s["pkgs"]]]
        fidx = rng.choice(cand)
    linked_dirs = set()
    for k, (rel, lst) in enumerate(outs):
        if rel.rsplit("/", 1)[0] in linked_dirs:
            st = "absent"
        elif k == fidx:
            st = focus[0]
        elif stage in RERUN_STAGES:
            st = rng.choice(["absent", "absent", "same", "stale", "longer", "user"])
        else:
            st = rng.choice(STATES + (LINK_STATES[:1] + LINK_STATES[2:4] if rng.random() < 0.3 else []))
        if st in OUTSIDE_SRC and rel.rsplit("/", 1)[0] in ["m/" + n for n in s["pkgs"]]:
            st = "link-file"        # a dangling link / a link to a device inside a source package would break `go list`
        if st == "parent-link":
            d = rel.rsplit("/", 1)[0]
            if any(r2 != rel and (r2.startswith(d + "/") or r2 in states) and r2.rsplit("/", 1)[0] == d for r2, _ in outs[:k]):
                st = "absent"       # another output was already placed in that directory
            else:
                linked_dirs.add(d)
        states[rel] = st
        put_state(s, rel, st, lst[0][1]["pkgname"] or "x")
    s["states"] = states
    for st in set(states.values()):
        s["tags"].append("state:" + st)
    if stage in RERUN_STAGES:
        s["rerun"] = True
        s["tags"].append("rerun")
    # a permission fault now and then
    if not focus and stage not in RERUN_STAGES and rng.random() < 0.22:
        rel = rng.choice(sorted(states))
        parent = rel.rsplit("/", 1)[0]
        if states[rel] == "absent" and (parent in ("m/a", "m/b", "m/c", "m/r", "m/r/s1", "m/r/s2")):
            s["ro"].append(parent)
            s["tags"].append("ro:parent-dir")
        elif states[rel] in ("user", "stale", "longer"):
            s["ro"].append(rel)
            s["tags"].append("ro:file")
        elif states[rel] == "absent" and rel.startswith("m/mocks/") and not s["links"]:
            s["init"].setdefault("m/mocks/unrelated.txt", b"in a future output directory\n")
            s["ro"].append("m/mocks")
            s["tags"].append("ro:grandparent-dir")
    return s, base


def file_fails(world, lst, g):
    """Python mirror of `~ written_ok`: producing this file fails before anything is written"""
    p = lst[0][0]
    if p["cfg"]["tstatus"] != "TOk":
        return True
    kind = world["templates"][g["template"]][0]
    if kind == "TRemote" and g["require_schema"] and not g["schema_ok"]:
        return True
    return any(P.req_fails(world, q, g) for _, q in lst)


def oracle_c10(res):
    """C10 itself, on the observed hashes of the whole tree before and after the run."""
    errs = []
    world, before, after, scn = res["world"], res["before"], res["after"], res["scn"]
    if res["run"]["cls"] == "Panic":
        errs.append("mockery terminated by an unrecovered panic")
    outs = {}
    for p, q in P.selected(world):
        if not q["outside"]:
            outs.setdefault(tuple(q["path"]), []).append((p, q))
    gov = P.governing(world)
    anc = {o[:k] for o in outs for k in range(len(o))}
    for path in sorted(set(before) | set(after)):
        b, a = before.get(path), after.get(path)
        if path in outs:
            continue
        if path in anc:
            if b != a and not (b is None and a == "DIR"):
                errs.append("a directory on the way to an output was modified: %s (%s -> %s)" % ("/".join(path), b, a))
            continue
        if b != a:
            errs.append("stray write: %s is not a designated output (before %s, after %s)" % ("/".join(path), b, a))
    for path, lst in sorted(outs.items()):
        b, a = before.get(path), after.get(path)
        name = "/".join(path)
        # the map keys (path strings) that denote this file; usually one
        keys = {}
        for p, q in lst:
            if q["key"] not in keys:
                g = gov[q["key"]]                 # the first mock of the collection: its config governs it
                sub = [pq for pq in lst if pq[1]["key"] == q["key"]]
                keys[q["key"]] = {"g": g, "ref": P.ref_of(res, g), "fails": file_fails(world, sub, g)}
        refs = {k["ref"] for k in keys.values() if k["ref"] is not None}
        writer = [k for k in keys.values() if k["ref"] is not None and k["ref"] == a]
        if b == "DIR" and a != "DIR":
            errs.append("the directory that occupies output path %s was replaced" % name)
        # every output path ends up holding its complete old content or the complete new content
        # (the new content = what the same configuration writes into a pristine tree)
        if a != b and a not in refs:
            errs.append("output %s holds neither its old node nor the complete new content" % name)
        if all(k["fails"] for k in keys.values()):
            # a failure at any stage: the path keeps its old node (absence included) and the run fails;
            # an empty or partial file is neither
            if a != b:
                errs.append("output %s changed (now %s) although producing it fails at a stage before writing" % (name, a))
            if res["run"]["cls"] == "Exit0":
                errs.append("exit status 0 although producing %s fails at a stage before writing" % name)
        if a != b and b is not None and writer and not any(k["g"]["force"] for k in writer):
            errs.append("existing node at %s was replaced although force-file-write is false" % name)
        if res["run"]["cls"] == "Exit0":
            if b is not None and not any(k["g"]["force"] for k in keys.values()):
                errs.append("exit status 0 although %s was occupied and force-file-write is false" % name)
            if a not in refs:
                errs.append("exit status 0 although output %s does not hold the complete new content" % name)
            if len(keys) > 1 and writer and not any(k["g"]["force"] for k in writer):
                # two spellings of one file: whichever was written second found the file that the first
                # write of this very run created - without force-file-write it must be refused
                errs.append("exit status 0 although %d output files of this run (%s) denote the same file %s and force-file-write is false: "
                            "the write that came second replaced the file the first one had just created" % (len(keys), sorted(keys), name))
    if "run2" in res:
        # the corrected configuration, run in the tree the failed run left behind, must succeed, write every
        # designated output completely and touch nothing else
        r2, after2 = res["run2"], res["after2"]
        cfgfile = tuple((scn.get("cwd", "m") + "/.mockery.yml").split("/"))
        if r2["cls"] != "Exit0":
            errs.append("a corrected second run in the same tree does not succeed (exit class %s): %s" % (r2["cls"], r2["tail"][-300:]))
        outs2 = {tuple(q["path"]) for _, q in P.selected(res["world2"]) if not q["outside"]}
        anc2 = {o[:k] for o in outs2 for k in range(len(o))}
        for path in sorted(set(after) | set(after2)):
            if path in outs2 or path in anc2 or path == cfgfile:
                continue
            if after.get(path) != after2.get(path):
                errs.append("stray write of the corrected second run: %s (%s -> %s)" % ("/".join(path), after.get(path), after2.get(path)))
        if r2["cls"] == "Exit0":
            for path in sorted(outs2):
                ref = res["ref_contents"].get(path)
                if ref is not None and after2.get(path) != ref:
                    errs.append("after the corrected second run output %s does not hold the complete new content" % "/".join(path))
    return errs


def check(ctx, only=None):
    gate = proof_gate(ctx)
    if not ctx.build_tree():
        ctx.write_evidence(gate, 0, 0, "build failed", [])
        return
    big = ctx.thorough()
    if only is not None:
        pairs = [(P.scn_from_replay(x), x.get("base")) for x in only]
        pairs = [(s, (dict(P.new_scn(b["pkgs"]), **b) if b else None)) for s, b in pairs]
    else:
        n = 900 if big else 90
        pairs = [gen_c10(ctx.rng, i) for i in range(n)]
        pairs.append(gen_symcwd(ctx.rng, True, witness=True))       # known finding C10-lexical-sibling-dir
    results = P.run_pipeline_stream(ctx, pairs, None)
    hist, oracle_fail, terms, tidx, samples = {}, [], [], [], []
    skipped = 0
    for res in results:
        if "skipped" in res:
            skipped += 1
            continue
        scn = res["scn"]
        for t in scn["tags"]:
            hist[t] = hist.get(t, 0) + 1
        errs = oracle_c10(res)
        if scn.get("witness"):
            # known finding: only the symptom listed in known/C10.json may appear, and it must appear
            sym = [e for e in errs if re.match(r"stray write: m/work/(mocks|x)\S* is not a designated output \(before None, after DIR\)", e)]
            listed = any(k["id"] == scn["witness"] for k in load_known("C10"))
            if listed and sym and len(sym) == len(errs) and res["run"]["cls"] == "Exit0":
                ctx.known("working directory entered through a symlink + relative dir starting with ..: empty directory created at the lexical sibling (%s)" % scn["witness"])
            else:
                oracle_fail.append(P.to_replay(res, ["the symptom of known finding %s changed: exit=%s, oracle says %s; update known/C10.json" % (scn["witness"], res["run"]["cls"], errs[:3])]))
            continue
        if res.get("ref") and res["ref"]["cls"] != "Exit0":
            errs.append("the valid base configuration of this scenario does not succeed: %s" % res["ref"]["tail"][-300:])
        if errs:
            oracle_fail.append(P.to_replay(res, errs))
        t, nkeys = P.build_case(res)
        if nkeys <= 6 and not scn.get("oracle_only"):
            terms.append(t)
            tidx.append(res)
        if len(samples) < 3:
            samples.append(P.describe(res))
    bad, errs2 = coq_mismatches(ctx, HMOD, terms, shard=12) if terms else ([], [])
    seen, picked = set(), []
    for rp in oracle_fail:
        cat = re.sub(r"m/\S+|\d+", "#", str(rp["what"][0]))[:80]
        if cat not in seen:
            seen.add(cat)
            picked.append(rp)
    for rp in picked[:6]:
        rp = dict(rp)
        rp["scenarios"] = [dict(scenario=rp.pop("scenario"), init=rp.pop("init"), base=rp.pop("base"))]
        ctx.violation(ctx.write_replay("oracle-%d" % len(ctx.violations), rp))
    if not gate["ok"] and not oracle_fail:
        ctx.violation(gate["replay"], nofail=True)
    if (bad or errs2) and not oracle_fail:
        ex = []
        for i in bad[:3]:
            res = tidx[i]
            t, _ = P.build_case(res)
            rp = P.to_replay(res, "model and implementation disagree")
            ex.append({"scenarios": [dict(scenario=rp["scenario"], init=rp["init"], base=rp["base"])], "readable": rp["readable"],
                       "initial_states": res["scn"].get("states"),
                       "model_says_for_first_order": coq_show(ctx, HMOD, "model_out (%s)" % t, name="show%d" % i)[:6000]})
        rp = ctx.write_replay("correspondence", {
            "what": "the model (Cfg/Pipeline.v over Cfg/Fs.v) and the implementation disagree on the final tree or the exit class; the hash oracle found no input on which C10 itself fails",
            "obligation": "correspondence Harness/C10.v check_case (exit class + final node of every path of the tree, for some map order); theorems C10_frame, C10_no_clobber, C10_all_or_nothing, C10_dir_occupied speak about this model",
            "mismatching_runs": len(bad), "coq_errors": errs2[:3], "scenarios": [s for e in ex for s in e["scenarios"]], "examples": ex})
        ctx.violation(rp, nofail=True)
    nontrivial = [r for r in results if "run" in r and (any(v != "absent" for v in r["scn"].get("states", {}).values()) or r["run"]["cls"] != "Exit0")]
    distinct = len({json.dumps(P.describe(r)["config"], sort_keys=True, default=str) + json.dumps(r["scn"].get("states"), sort_keys=True) + str(r["scn"]["ro"]) for r in nontrivial})
    ctx.write_evidence(gate, len(results) + sum(1 for r in results if r.get("ref")), distinct,
                       "whole runs of the freshly built binary: valid multi-file configuration x initial state of every output path (absent / same generated content / stale generated content / user content / directory) x force-file-write written at root, package or interface level x one failing stage for one file or package x permission faults; SHA-256 of every file of the scenario tree before and after; non-trivial = some output path occupied before the run or the run fails; distinct by (config, initial states, permission faults); every scenario also runs its valid base configuration in a pristine tree (reference contents)",
                       samples, extra={"input_histogram": hist, "model_mismatches": len(bad), "oracle_failures": len(oracle_fail),
                                       "runs": len(results), "coq_cases": len(terms), "skipped_no_setpriv": skipped},
                       assumptions=["read-only scenarios run mockery through `setpriv` without CAP_DAC_OVERRIDE (the harness runs as root); if setpriv is unavailable they are skipped and counted",
                                    "Python resolver (harness/checks/c09.py: resolve) computes the effective per-mock values of the generated configurations",
                                    "the settings of an output file (force-file-write, formatter, schema settings) are those of the first mock added to it: first = discovery order within the package (files by name, declarations in source order, configs entries in list order)"])


def replay(ctx, path):
    d = json.loads(open(path).read())
    check(ctx, only=d.get("scenarios", []))
