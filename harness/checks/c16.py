"""C16 - the template function library matches its documented semantics on all inputs.

Implementation side: harness/go/drv_funcs executes every application through text/template with
template_funcs.FuncMap (direct-call and pipeline form).  Model side: Funcs/FuncMap.v [apply],
evaluated inside Coq on the same applications.  Oracles: (1) independent Python reference
implementations of the documented semantics, (2) the Go standard-library namesake called
directly by the driver with the subject taken from the last argument."""
import json, math, re
from common import *

MAXI, MINI = 2 ** 63 - 1, -2 ** 63

FN = {"contains": "FContains", "hasPrefix": "FHasPrefix", "hasSuffix": "FHasSuffix", "join": "FJoin",
      "replace": "FReplace", "replaceAll": "FReplaceAll", "split": "FSplit", "splitAfter": "FSplitAfter",
      "splitAfterN": "FSplitAfterN", "trim": "FTrim", "trimLeft": "FTrimLeft", "trimPrefix": "FTrimPrefix",
      "trimRight": "FTrimRight", "trimSpace": "FTrimSpace", "trimSuffix": "FTrimSuffix", "lower": "FLower",
      "upper": "FUpper", "camelcase": "FCamelcase", "firstIsLower": "FFirstIsLower", "firstLower": "FFirstLower",
      "firstUpper": "FFirstUpper", "exported": "FExported", "quoteMeta": "FQuoteMeta", "base": "FBase",
      "clean": "FClean", "dir": "FDir", "readFile": "FReadFile", "expandEnv": "FExpandEnv", "getenv": "FGetenv",
      "add": "FAdd", "decr": "FDecr", "div": "FDiv", "incr": "FIncr", "min": "FMin", "mod": "FMod", "mul": "FMul",
      "sub": "FSub"}
UNMODELLED = ["snakecase", "kebabcase", "matchString", "ceil", "floor", "round", "randInt"]
ALL_FUNCS = sorted(FN) + UNMODELLED      # must equal the key set of FuncMap (checked against funcmap.go)

INITIALISMS = [b"ACL", b"API", b"ASCII", b"CPU", b"CSS", b"DNS", b"EOF", b"GUID", b"HTML", b"HTTP", b"HTTPS", b"ID", b"IP",
               b"JSON", b"LHS", b"QPS", b"RAM", b"RHS", b"RPC", b"SLA", b"SMTP", b"SQL", b"SSH", b"TCP", b"TLS", b"TTL",
               b"UDP", b"UI", b"UID", b"UUID", b"URI", b"URL", b"UTF8", b"VM", b"XML", b"XMPP", b"XSRF", b"XSS"]

ENV = {"A": b"1", "AB": b"x$y", "_x": b"", "1": b"one", "HOME_": b"/h\xc3\xa9", "e": b"${A}"}
FILES = {"f.txt": b"hi\n", "empty": b"", "d/g": b"\xff\x00x", "caf\xc3\xa9": b"\xc3\xa9"}
DIRS = ["d", "emptydir"]

# ---------------------------------------------------------------- UTF-8 as Go sees it (via CPython's decoder)
def chunks(b):
    return [ch.encode("utf-8", "surrogateescape") for ch in b.decode("utf-8", "surrogateescape")]


def rune_of(chunk):
    if len(chunk) == 1 and chunk[0] >= 0x80:
        return 0xFFFD
    return ord(chunk.decode("utf-8"))


def enc(r):
    if r > 0x10FFFF or 0xD800 <= r <= 0xDFFF:
        r = 0xFFFD
    return chr(r).encode("utf-8")


SPACES = set([9, 10, 11, 12, 13, 32, 0x85, 0xA0, 0x1680, 0x2028, 0x2029, 0x202F, 0x205F, 0x3000]) | set(range(0x2000, 0x200B))


class Utab:
    def __init__(self, rows):
        self.t = {r[0]: r for r in rows}

    def row(self, r):
        return self.t.get(r, [r, 0, 0, 0, r, r, 0, 0, 0])

    def letter(self, r): return bool(self.row(r)[1])
    def upper(self, r): return bool(self.row(r)[2])
    def lower(self, r): return bool(self.row(r)[3])
    def to_upper(self, r): return self.row(r)[4]
    def to_lower(self, r): return self.row(r)[5]


# ---------------------------------------------------------------- generators
PIECES = [b"", b"a", b"b", b"ab", b"aa", b"aaa", b",", b",,", b"A", b"Z", b"z", b"1", b"0", b" ", b"\t", b"\n", b"_", b"-", b".",
          b"\xc3\xa9", b"\xc3\x89", b"\xc7\x85", b"\xc7\x86", b"\xe4\xb8\xad", b"\xe2\x82\xac", b"\xf0\x90\x90\x80", b"\xf0\x90\x90\xa8",
          b"\xc4\xb0", b"\xc3\x9f", b"\xc5\xbf", b"\xe2\x84\xaa", b"\xce\xa3", b"\xcf\x83", b"\xcf\x82", b"\xe2\x85\xa7", b"\xc2\xaa",
          b"\xc2\xa0", b"\xe2\x80\x83", b"\xc2\x85", b"\xef\xbf\xbd",
          b"\xff", b"\xc3", b"\xa9", b"\xe2\x82", b"\xed\xa0\x80", b"\xc0\x80", b"\xf4\x90\x80\x80", b"\x00", b"\x7f"]
ASCII_WORDS = [b"some", b"Words", b"HTTP", b"Server", b"no", b"Https", b"id", b"2xx", b"x", b"Y", b"42", b"GO", b"path", b"Bld4", b"Floor3rd"]
CONNECTORS = [b"_", b"-", b" ", b"\t", b"__", b"\xc2\xa0"]
PATHS = [b"", b"/", b"//", b".", b"..", b"a", b"b.c", b"..a", b"...", b"a/", b"/a", b"./", b"../", b"\xc3\xa9", b"a b", b"/..", b"/.", b"\xff"]
EXPAND = [b"$", b"${", b"}", b"{", b"A", b"AB", b"$A", b"${A}", b"${AB}", b"${}", b"$$", b"$*", b"$1", b"${1}", b"\xc3\xa9", b" ", b"_x", b"$_x", b"-",
          b"$HOME_", b"${e}", b"$nope", b"${a=b}", b"$\xc3\xa9", b"x"]
INTS = [0, 1, -1, 2, -2, 3, 7, -7, 10, MAXI, MINI, MAXI - 1, MINI + 1, 2 ** 32, 2 ** 31, -2 ** 32, 3037000500, -3037000500, 2 ** 62, -2 ** 62]
COUNTS = [-1, 0, 1, 2, 3, 4, -2, MAXI, MINI, 5, 7]


def gstr(rng, pool=PIECES, lo=0, hi=6):
    return b"".join(rng.choice(pool) for _ in range(rng.randint(lo, hi)))


def gslice(rng, s):
    """a byte slice of s: prefix, suffix, middle, whole, or s extended"""
    if not s:
        return rng.choice([b"", b"a"])
    k = rng.random()
    i, j = sorted((rng.randint(0, len(s)), rng.randint(0, len(s))))
    if k < 0.25: return s[:j]
    if k < 0.5: return s[i:]
    if k < 0.8: return s[i:j]
    if k < 0.9: return s
    return s + rng.choice(PIECES)


def gsep_subject(rng):
    """(sep, s) with sep occurring in s, at the ends, repeated and overlapping"""
    sep = rng.choice([b"", b",", b",,", b"a", b"aa", b"ab", b"\xc3\xa9", b"\xa9", b"\xff", b"\xe2\x82\xac", b"\xe2\x82", b" ", b"aba", b"\x00"]) if rng.random() < 0.8 else gstr(rng, hi=2)
    parts = [rng.choice([b"", b"", sep, sep, sep[:1], sep[1:], rng.choice(PIECES)]) for _ in range(rng.randint(0, 7))]
    return sep, b"".join(parts)


def gint(rng):
    k = rng.random()
    if k < 0.6: return rng.choice(INTS)
    if k < 0.8: return rng.randint(-20, 20)
    return rng.randint(MINI, MAXI)


def S(b): return ("s", b)
def I(i): return ("i", i)
def L(l): return ("l", l)


def gen_case(rng, fn):
    r = rng.random
    if fn in ("contains", "hasPrefix", "hasSuffix", "trimPrefix", "trimSuffix"):
        s = gstr(rng)
        sub = gslice(rng, s) if r() < 0.8 else gstr(rng, hi=2)
        args = [S(sub), S(s)]
    elif fn in ("split", "splitAfter"):
        sep, s = gsep_subject(rng)
        args = [S(sep), S(s)]
    elif fn == "splitAfterN":
        sep, s = gsep_subject(rng)
        args = [S(sep), I(rng.choice(COUNTS) if r() < 0.8 else len(s) + rng.randint(-1, 2)), S(s)]
    elif fn == "replace":
        old, s = gsep_subject(rng)
        new = rng.choice([b"", old, b"X", old + old, old[:1], rng.choice(PIECES)])
        args = [S(old), S(new), I(rng.choice(COUNTS)), S(s)]
    elif fn == "replaceAll":
        old, s = gsep_subject(rng)
        new = rng.choice([b"", old, b"X", old + old, old[:1], rng.choice(PIECES)])
        args = [S(old), S(new), S(s)]
    elif fn == "join":
        args = [S(rng.choice([b"", b",", b"\xff", b", ", b"\xc3\xa9"])), L([gstr(rng, hi=2) for _ in range(rng.randint(0, 4))])]
    elif fn in ("trim", "trimLeft", "trimRight"):
        cut = gstr(rng, hi=3)
        cc = chunks(cut) or [b""]
        s = b"".join(rng.choice(cc + [b"", b""]) for _ in range(rng.randint(0, 3))) + gstr(rng, hi=3) + b"".join(rng.choice(cc + [b""]) for _ in range(rng.randint(0, 3)))
        if r() < 0.2:
            s = gslice(rng, s)
        args = [S(cut), S(s)]
    elif fn == "trimSpace":
        sp = [b" ", b"\t", b"\n", b"\r", b"\x0b", b"\x0c", b"\xc2\xa0", b"\xc2\x85", b"\xe2\x80\x83", b"\xe3\x80\x80", b"\xe1\x9a\x80", b"\xe2\x80\x8b", b"\xc2", b"\xa0", b""]
        s = b"".join(rng.choice(sp) for _ in range(rng.randint(0, 3))) + gstr(rng, hi=3) + b"".join(rng.choice(sp) for _ in range(rng.randint(0, 3)))
        args = [S(s)]
    elif fn in ("lower", "upper", "firstLower", "firstUpper", "firstIsLower"):
        args = [S(gstr(rng, hi=4))]
    elif fn == "exported":
        k = r()
        if k < 0.35:
            w = rng.choice(INITIALISMS)
            w = bytes(c | 0x20 if rng.random() < 0.6 else c for c in w)
            if rng.random() < 0.25:
                w = rng.choice([w + b"s", b" " + w, w[:-1], w + b"\xc3\xa9", w.replace(b"i", b"\xc4\xb1")])
            args = [S(w)]
        else:
            args = [S(gstr(rng, hi=4))]
    elif fn in ("camelcase", "snakecase", "kebabcase"):
        k = r()
        if k < 0.6:
            s = b"".join(rng.choice(ASCII_WORDS + CONNECTORS) for _ in range(rng.randint(1, 5)))
        else:
            s = gstr(rng, PIECES + CONNECTORS, hi=5)
        if fn == "camelcase" and not has_word(s):
            s += b"a"           # the all-connector class is the known finding C16-camelcase-connectors-only
        args = [S(s)]
    elif fn == "quoteMeta":
        args = [S(gstr(rng, PIECES + [bytes([c]) for c in b"\\.+*?()|[]{}^$"], hi=6))]
    elif fn in ("base", "clean", "dir"):
        s = b"".join(rng.choice(PATHS + [b"/", b"/", b"a", b".."]) for _ in range(rng.randint(0, 6)))
        args = [S(s)]
    elif fn == "readFile":
        args = [S(rng.choice([b"", b"f.txt", b"empty", b"d/g", b"caf\xc3\xa9", b"d", b"emptydir", b"nope", b"d/nope", b"f.txt\x00", b"\xff"]))]
    elif fn == "getenv":
        args = [S(rng.choice([k.encode() for k in ENV] + [b"", b"nope", b"a", b"A=", b"\xc3\xa9"]))]
    elif fn == "expandEnv":
        args = [S(gstr(rng, EXPAND, hi=6))]
    elif fn in ("incr", "decr"):
        args = [I(gint(rng))]
    elif fn in ("add", "sub", "mul"):
        args = [I(gint(rng)) for _ in range(rng.randint(1, 4))]
    elif fn in ("div", "mod"):
        args = [I(gint(rng))] + [I(rng.choice([1, -1, 2, -2, 3, 7, -7, MINI, MAXI, 0]) if r() < 0.7 else gint(rng)) for _ in range(rng.randint(0, 3))]
    elif fn == "min":
        args = [I(gint(rng)) for _ in range(rng.randint(0, 4) if r() < 0.9 else 0)]
    elif fn == "matchString":
        k = r()
        s = gstr(rng, [p for p in PIECES if p != b"\xef\xbf\xbd"], hi=5)
        if k < 0.7:
            lit = gslice(rng, s)
            try:
                lit.decode("utf-8")
            except UnicodeDecodeError:
                lit = b"a."
            if b"\xef\xbf\xbd" in lit:
                lit = b"a"
            return {"fn": fn, "pipe": r() < 0.5, "args": [S(quote_meta(lit)), S(s)], "lit": lit}
        args = [S(rng.choice([b"(", b"[", b"a{2,1}", b"\xff", b"*"])), S(s)]
    elif fn in ("ceil", "floor", "round"):
        k = r()
        if k < 0.8:
            v = rng.randint(-40, 40) / 4.0
        elif k < 0.9:
            v = rng.choice([2.0 ** 53, -2.0 ** 53, 2.0 ** 52 + 0.5, -(2.0 ** 52) - 0.5, 1e300, -1e300, 0.49999999999999994])
        else:
            v = rng.choice([float("inf"), float("-inf"), float("nan"), -0.0])
        args = [("f", v)]
    elif fn == "randInt":
        args = []
    else:
        raise KeyError(fn)
    return {"fn": fn, "pipe": bool(args) and r() < 0.5, "args": args}


VARIADIC = ("add", "sub", "mul", "div", "mod", "min")


def gen_malformed(rng):
    """ill-typed / wrong-arity calls: must be template errors, never crashes"""
    fn = rng.choice(sorted(FN))
    c = gen_case(rng, fn)
    a = list(c["args"])
    k = rng.random()
    if fn in VARIADIC:
        if a and (k < 0.7 or fn == "min"):
            a[rng.randrange(len(a))] = S(b"3")
        elif fn == "min":
            a = [S(b"x")]
        else:
            a = []
    elif k < 0.35 and a:
        a.pop(rng.randrange(len(a)))
    elif k < 0.6:
        a.insert(rng.randint(0, len(a)), rng.choice([S(b"x"), I(1)]))
    elif a:
        i = rng.randrange(len(a))
        a[i] = I(3) if a[i][0] != "i" else S(b"3")
    else:
        a = [S(b"x")]
    return {"fn": fn, "pipe": bool(a) and rng.random() < 0.5, "args": a, "malformed": True}


def has_word(s):
    return any(not (rune_of(c) in (45, 95) or rune_of(c) in SPACES) for c in chunks(s))


CORPUS = [
    ("firstIsLower", [S(b"")]), ("firstIsLower", [S(b"\xc3\xa9a")]), ("firstIsLower", [S(b"\xc3\x89a")]), ("firstIsLower", [S(b"\xffa")]),
    ("firstIsLower", [S(b"unexported")]), ("firstIsLower", [S(b"Exported")]), ("firstIsLower", [S(b"1234")]), ("firstIsLower", [S(b"\xe4\xb8\xad")]),
    ("exported", [S(b"")]), ("exported", [S(b"\xc3\xa9a")]), ("exported", [S(b"sql")]), ("exported", [S(b"Id")]), ("exported", [S(b"ids")]),
    ("exported", [S(b"\xffa")]), ("exported", [S(b"\xc7\x86x")]), ("exported", [S(b"\xc5\xbfql")]), ("exported", [S(b"foo")]),
    ("split", [S(b""), S(b"")]), ("split", [S(b","), S(b"")]), ("split", [S(b""), S(b"a\xffb\xc3\xa9")]), ("split", [S(b"aa"), S(b"aaaaa")]),
    ("splitAfterN", [S(b","), I(0), S(b"a,b")]), ("splitAfterN", [S(b","), I(MAXI), S(b"a,b,")]), ("splitAfterN", [S(b""), I(2), S(b"abc")]),
    ("replace", [S(b""), S(b"-"), I(2), S(b"abc")]), ("replace", [S(b""), S(b"-"), I(-1), S(b"")]), ("replace", [S(b"a"), S(b"a"), I(-1), S(b"aaa")]),
    ("replace", [S(b"old"), S(b"new"), I(2), S(b"oldoldold")]), ("replaceAll", [S(b""), S(b"X"), S(b"\xc3\xa9\xff")]),
    ("trim", [S(b"\xef\xbf\xbd"), S(b"\xffa\xff")]), ("trimRight", [S(b"\xff"), S(b"a\xef\xbf\xbd")]), ("trimLeft", [S(b"\xc3\xa9"), S(b"\xc3\xa9\xa9\xc3")]),
    ("div", [I(MINI), I(-1)]), ("mod", [I(MINI), I(-1)]), ("div", [I(7), I(-2)]), ("mod", [I(-7), I(2)]), ("div", [I(1), I(0)]), ("mod", [I(1), I(0)]),
    ("add", [I(MAXI), I(1)]), ("sub", [I(MINI), I(1)]), ("mul", [I(MINI), I(-1)]), ("incr", [I(MAXI)]), ("decr", [I(MINI)]), ("min", []), ("min", [I(3), I(-1), I(2)]),
    ("sub", [I(10), I(3), I(2)]), ("div", [I(100), I(5), I(2)]), ("mod", [I(100), I(7), I(2)]),
    ("camelcase", [S(b"some_words")]), ("camelcase", [S(b"http_server")]), ("camelcase", [S(b"no_https")]), ("camelcase", [S(b"_complex__case_")]),
    ("camelcase", [S(b"some words")]), ("camelcase", [S(b"GOLANG_IS_GREAT")]),
    ("clean", [S(b"")]), ("clean", [S(b"a/../..")]), ("clean", [S(b"/../a")]), ("clean", [S(b"a//b/./c/..")]), ("base", [S(b"///")]), ("dir", [S(b"a/b/")]),
    ("expandEnv", [S(b"$A ${AB} $nope ${} ${ $")]), ("getenv", [S(b"A")]), ("readFile", [S(b"")]), ("readFile", [S(b"d")]),
]
# documented examples of xstrings (the documentation of snakecase / kebabcase / camelcase)
DOC_EXAMPLES = {
    "snakecase": [(b"FirstName", b"first_name"), (b"HTTPServer", b"http_server"), (b"NoHTTPS", b"no_https"), (b"GO_PATH", b"go_path"),
                  (b"GO PATH", b"go_path"), (b"GO-PATH", b"go_path"), (b"http2xx", b"http_2xx"), (b"HTTP20xOK", b"http_20x_ok"),
                  (b"Duration2m3s", b"duration_2m3s"), (b"Bld4Floor3rd", b"bld4_floor_3rd")],
    "kebabcase": [(b"FirstName", b"first-name"), (b"HTTPServer", b"http-server"), (b"NoHTTPS", b"no-https"), (b"GO_PATH", b"go-path"),
                  (b"GO PATH", b"go-path"), (b"GO-PATH", b"go-path"), (b"http2xx", b"http-2xx"), (b"HTTP20xOK", b"http-20x-ok"),
                  (b"Duration2m3s", b"duration-2m3s"), (b"Bld4Floor3rd", b"bld4-floor-3rd")],
    "camelcase": [(b"some_words", b"someWords"), (b"http_server", b"httpServer"), (b"no_https", b"noHttps"), (b"_complex__case_", b"_complex_Case_"),
                  (b"some words", b"someWords"), (b"GOLANG_IS_GREAT", b"golangIsGreat")],
}
WITNESS_CAMEL = [b"_", b"__", b"-", b" ", b"_-", b"\t_", b"\xc2\xa0"]


# ---------------------------------------------------------------- running the implementation
def to_json(c):
    def a(x):
        t, v = x
        if t == "s": return {"s": hx(v)}
        if t == "i": return {"i": str(v)}
        if t == "f": return {"f": {"inf": "Inf", "-inf": "-Inf", "nan": "NaN"}.get(repr(v), repr(v))}
        return {"l": [hx(e) for e in v]}
    d = {"fn": c["fn"], "pipe": c["pipe"], "args": [a(x) for x in c["args"]]}
    for k in ("lit", "malformed", "expect"):
        if k in c:
            d[k] = hx(c[k]) if isinstance(c[k], bytes) else c[k]
    return d


def from_json(d):
    def a(x):
        if "s" in x: return S(bytes.fromhex(x["s"]))
        if "i" in x: return I(int(x["i"]))
        if "f" in x: return ("f", float(x["f"]))
        return L([bytes.fromhex(e) for e in x.get("l", [])])
    c = {"fn": d["fn"], "pipe": d.get("pipe", False), "args": [a(x) for x in d["args"]]}
    if "malformed" in d:
        c["malformed"] = d["malformed"]
    for k in ("expect", "lit"):
        if k in d:
            c[k] = bytes.fromhex(d[k])
    return c


def impl_case(c):
    return {"fn": c["fn"], "pipe": c["pipe"], "args": to_json(c)["args"]}


def norm_out(o):
    k = o["k"]
    if k == "bool": return ("bool", bool(o.get("t", False)))
    if k == "str": return ("str", bytes.fromhex(o.get("a", "")))
    if k == "list": return ("list", [bytes.fromhex(x) for x in o.get("l", []) or []])
    if k == "int": return ("int", int(o["i"]))
    if k == "float": return ("float", float(o["f"]))
    if k == "err":
        msg = bytes.fromhex(o.get("a", "")).decode(errors="replace")
        if re.search(r"error calling \w+: (runtime error|slices\.)", msg):
            return ("panic", msg)
        return ("err", msg)
    return ("crash", bytes.fromhex(o.get("a", "")).decode(errors="replace"))


def run_impl(ctx, cases):
    inp = {"env": {k: hx(v) for k, v in ENV.items()}, "files": {k: hx(v) for k, v in FILES.items()}, "dirs": DIRS,
           "cases": [impl_case(c) for c in cases]}
    p = run([ctx.bins["drv_funcs"]], inp=json.dumps(inp).encode(), timeout=900)
    if p.returncode != 0:
        raise RuntimeError("drv_funcs failed: " + p.stderr.decode(errors="replace")[-2000:])
    d = json.loads(p.stdout)
    outs = [norm_out(o) for o in d["outs"]]
    refs = [norm_out(o) if o else None for o in d["refs"] or []]
    return outs, refs, d["utab"]


HIST_FIXED = [
    ("readFile", [S(b"nope")]), ("readFile", [S(b"d/nope")]), ("readFile", [S(b"partial.txt")]), ("readFile", [S(b"f.txt")]),
    ("readFile", [S(b"d/g")]), ("readFile", [S(b"")]), ("readFile", [S(b"d")]), ("readFile", [S(b"./nope")]), ("readFile", [S(b"../nope")]),
    ("getenv", [S(b"A")]), ("getenv", [S(b"nope")]), ("expandEnv", [S(b"$A ${AB} $nope")]), ("base", [S(b"a/b")]), ("dir", [S(b"a/b")]),
    ("clean", [S(b"a/../b")]), ("exported", [S(b"name")]), ("firstIsLower", [S(b"")]), ("split", [S(b","), S(b"a,b")]),
    ("snakecase", [S(b"SomeName")]), ("add", [I(1), I(2)]), ("min", []), ("div", [I(1), I(0)]),
]


def hist_sample(rng, n):
    cs = [{"fn": f, "pipe": False, "args": a} for f, a in HIST_FIXED]
    fns = sorted(FN) + ["snakecase", "kebabcase", "matchString", "ceil", "floor", "round", "randInt"]
    for i in range(n):
        cs.append(gen_case(rng, "readFile" if i % 4 == 0 else rng.choice(fns)))
    return cs


def decoys_for(sample):
    """files placed next to the file:// templates, named like the readFile arguments of the sample"""
    d = {"partial.txt": b"DECOY:partial.txt"}
    for c in sample:
        if c["fn"] == "readFile" and c["args"] and c["args"][0][0] == "s":
            p = c["args"][0][1]
            try:
                name = p.decode("utf-8")
            except UnicodeDecodeError:
                continue
            if name and not name.startswith("/") and "\x00" not in name and ".." not in name.split("/") and name not in DIRS and not name.endswith("/"):
                d[name.lstrip("./") or "x"] = b"DECOY:" + p
    return {k: v for k, v in d.items() if not any(k2 != k and k2.startswith(k + "/") for k2 in d)}


def run_history(ctx, sample, templates=2):
    inp = {"env": {k: hx(v) for k, v in ENV.items()}, "files": {k: hx(v) for k, v in FILES.items()}, "dirs": DIRS, "cases": [],
           "hist": {"sample": [impl_case(c) for c in sample], "decoys": {k: hx(v) for k, v in decoys_for(sample).items()}, "templates": templates}}
    p = run([ctx.bins["drv_funcs"]], inp=json.dumps(inp).encode(), timeout=900)
    if p.returncode != 0:
        raise RuntimeError("drv_funcs (history mode) failed: " + p.stderr.decode(errors="replace")[-2000:])
    d = json.loads(p.stdout)
    h = d["hist"]
    return {"before": [norm_out(o) for o in h["before"]], "after": [norm_out(o) for o in h["after"]],
            "emb_before": h["emb_before"], "emb_after": h["emb_after"], "keys_diff": h.get("keys_diff") or [], "log": h.get("log") or [], "utab": d["utab"]}


def stable(o):
    """projection compared across the history: error texts and random numbers are not compared"""
    return (o[0],) if o[0] in ("err", "panic") else o


def check_history(ctx, sample):
    """the function map is process-wide: results of a fixed sample must be the same before and after mockery's own
    uses of the library (config-value rendering, file:// templates created with template.New next to decoy files),
    and the results AFTER must still be the documented ones (same oracles and model as the main stream)."""
    h = run_history(ctx, sample)
    diffs = []
    for i, c in enumerate(sample):
        b, a = h["before"][i], h["after"][i]
        if c["fn"] == "randInt":
            b, a = (b[0],), (a[0],)
        if stable(b) != stable(a):
            diffs.append((i, "through FuncMap", h["before"][i], h["after"][i]))
        elif h["emb_before"][i] != h["emb_after"][i]:
            eb, ea = h["emb_before"][i], h["emb_after"][i]
            dec = lambda x: x if x in ("-", "ERR", "ERR parse") or x.startswith("CRASH") else bytes.fromhex(x)
            diffs.append((i, "in a fresh embedded template (template.New)", ("rendered", dec(eb)), ("rendered", dec(ea))))
    reported = 0
    for i, how, b, a in diffs:
        if reported >= 3:
            break
        reported += 1
        c = sample[i]
        exp = reference(c, Utab(h["utab"]))
        rp = ctx.write_replay("history-%s-%d" % (c["fn"], i), {
            "what": ["the result of %s changed after file:// templates were created with mockery's template.New in a directory holding decoy files (%s): before %r, after %r" % (describe(c)["call"], how, b, a),
                     "the function map is shared by every template and config value of the run: the later results are the ones templates see"],
            "history": True, "case": to_json(c), "readable": describe(c, a, exp), "before": "%s %r" % (b[0], b[1] if len(b) > 1 else None),
            "decoys": sorted(decoys_for(sample)), "driver_log": h["log"], "differences": len(diffs)})
        ctx.violation(rp)
    if h["keys_diff"] and not diffs:
        rp = ctx.write_replay("history-keys", {"what": "the key set of FuncMap changed during the run: %s" % h["keys_diff"], "history": True,
                                               "obligation": "purity of the function table (C16_call_independent_of_history)", "driver_log": h["log"]})
        ctx.violation(rp, nofail=True)
    # the results after the history are judged like any other application
    _, _, _, fails, bad, errs = judge(ctx, sample, h["after"], [None] * len(sample), h["utab"])
    return h, diffs, fails, bad, errs


# ---------------------------------------------------------------- reference semantics (the oracle)
def wrap(z):
    return (z + 2 ** 63) % 2 ** 64 - 2 ** 63


def tdiv(a, b):
    q = abs(a) // abs(b)
    return q if (a >= 0) == (b >= 0) else -q


def in_set(cutrunes, r):
    return r in cutrunes


def ref_trim(s, cut, left, right):
    cs = chunks(s)
    cr = set(rune_of(c) for c in chunks(cut))
    i, j = 0, len(cs)
    if left:
        while i < j and rune_of(cs[i]) in cr: i += 1
    if right:
        while j > i and rune_of(cs[j - 1]) in cr: j -= 1
    return b"".join(cs[i:j])


def ref_split_after_n(s, sep, n, save):
    if n == 0:
        return []
    if sep == b"":
        cs = chunks(s)
        if n < 0 or n > len(cs):
            n = len(cs)
        return cs[:n - 1] + ([b"".join(cs[n - 1:])] if n > 0 else [])
    parts = s.split(sep) if n < 0 else s.split(sep, min(n - 1, len(s) + 1))
    return [p + sep for p in parts[:-1]] + parts[-1:] if save else parts


def ref_replace(s, old, new, n):
    if old != b"":
        return s.replace(old, new, -1 if n < 0 else min(n, len(s) + 1))
    if n == 0:
        return s
    cs = chunks(s)
    k = len(cs) + 1 if n < 0 else min(n, len(cs) + 1)
    out = [new]
    for i, c in enumerate(cs):
        out.append(c)
        if i + 1 < k:
            out.append(new)
    return b"".join(out)


def ref_map(s, f):
    return b"".join(enc(f(rune_of(c))) for c in chunks(s))


def ref_clean(p):
    """the documented rules of path/filepath.Clean applied literally until nothing changes"""
    if p == b"":
        return b"."
    rooted = p.startswith(b"/")
    els = [e for e in p.split(b"/") if e != b""]         # rule 1
    els = [e for e in els if e != b"."]                  # rule 2
    changed = True
    while changed:
        changed = False
        for i in range(1, len(els)):                     # rule 3: inner .. with the non-.. element before it
            if els[i] == b".." and els[i - 1] != b"..":
                del els[i - 1:i + 1]; changed = True
                break
        if not changed and rooted and els and els[0] == b"..":   # rule 4
            del els[0]; changed = True
    r = (b"/" if rooted else b"") + b"/".join(els)
    return r if r else b"."


def ref_base(p):
    if p == b"": return b"."
    q = p.rstrip(b"/")
    if q == b"": return b"/"
    return q.rsplit(b"/", 1)[-1]


def ref_dir(p):
    i = p.rfind(b"/")
    return ref_clean(p[:i + 1])


def ref_expand(s):
    """only for strings whose every dollar starts a well-formed $NAME or ${NAME}: the documented part"""
    rest = re.sub(rb"\$\{[A-Za-z_][A-Za-z0-9_]*\}|\$[A-Za-z_][A-Za-z0-9_]*", b"", s)
    if b"$" in rest:
        return None
    return re.sub(rb"\$\{([A-Za-z_][A-Za-z0-9_]*)\}|\$([A-Za-z_][A-Za-z0-9_]*)", lambda m: ENV.get((m.group(1) or m.group(2)).decode(), b""), s)


def quote_meta(b):
    return b"".join((b"\\" + bytes([ch]) if ch in b"\\.+*?()|[]{}^$" else bytes([ch])) for ch in b)


def reference(c, U):
    """expected observable by the documentation, or None when the documentation is silent."""
    fn, a = c["fn"], c["args"]
    if c.get("malformed"):
        return ("anyerr", None)
    v = [x[1] for x in a]
    if fn == "contains": return ("bool", v[0] in v[1])
    if fn == "hasPrefix": return ("bool", v[1].startswith(v[0]))
    if fn == "hasSuffix": return ("bool", v[1].endswith(v[0]))
    if fn == "join": return ("str", v[0].join(v[1]))
    if fn == "split": return ("list", ref_split_after_n(v[1], v[0], -1, False))
    if fn == "splitAfter": return ("list", ref_split_after_n(v[1], v[0], -1, True))
    if fn == "splitAfterN": return ("list", ref_split_after_n(v[2], v[0], v[1], True))
    if fn == "replace": return ("str", ref_replace(v[3], v[0], v[1], v[2]))
    if fn == "replaceAll": return ("str", ref_replace(v[2], v[0], v[1], -1))
    if fn == "trimPrefix": return ("str", v[1][len(v[0]):] if v[1].startswith(v[0]) else v[1])
    if fn == "trimSuffix": return ("str", v[1][:len(v[1]) - len(v[0])] if v[1].endswith(v[0]) else v[1])
    if fn == "trim": return ("str", ref_trim(v[1], v[0], True, True))
    if fn == "trimLeft": return ("str", ref_trim(v[1], v[0], True, False))
    if fn == "trimRight": return ("str", ref_trim(v[1], v[0], False, True))
    if fn == "trimSpace":
        cs = chunks(v[0]); i, j = 0, len(cs)
        while i < j and rune_of(cs[i]) in SPACES and not (len(cs[i]) == 1 and cs[i][0] >= 0x80): i += 1
        while j > i and rune_of(cs[j - 1]) in SPACES and not (len(cs[j - 1]) == 1 and cs[j - 1][0] >= 0x80): j -= 1
        return ("str", b"".join(cs[i:j]))
    if fn == "lower": return ("str", ref_map(v[0], U.to_lower))
    if fn == "upper": return ("str", ref_map(v[0], U.to_upper))
    if fn in ("firstIsLower", "firstLower", "firstUpper", "exported"):
        s = v[0]
        cs = chunks(s)
        if fn == "firstIsLower":
            if not cs: return ("bool", False)
            r = rune_of(cs[0])
            if U.lower(r): return ("bool", True)
            if U.upper(r) or not U.letter(r): return ("bool", False)
            return ("bool", True)      # letter without case / title case: "not upper" (Go's notion of unexported), see NOTES
        if not cs: return ("str", b"")
        r = rune_of(cs[0]); rest = b"".join(cs[1:])
        invalid = len(cs[0]) == 1 and cs[0][0] >= 0x80
        if fn == "firstLower": return ("str", enc(U.to_lower(r)) + rest if U.upper(r) else s)
        if fn == "firstUpper": return ("str", enc(U.to_upper(r)) + rest if U.lower(r) else s)
        up = ref_map(s, U.to_upper)
        if up in INITIALISMS: return ("str", up)
        if invalid or U.to_upper(r) == r: return ("str", s)
        return ("str", enc(U.to_upper(r)) + rest)
    if fn == "quoteMeta": return ("str", quote_meta(v[0]))
    if fn == "base": return ("str", ref_base(v[0]))
    if fn == "clean": return ("str", ref_clean(v[0]))
    if fn == "dir": return ("str", ref_dir(v[0]))
    if fn == "getenv": return ("str", ENV.get(v[0].decode("utf-8", "surrogateescape"), b""))
    if fn == "expandEnv":
        e = ref_expand(v[0])
        return ("str", e) if e is not None else None
    if fn == "readFile":
        if v[0] == b"": return ("str", b"")
        k = v[0].decode("utf-8", "surrogateescape")
        return ("str", FILES[k]) if k in FILES else ("anyerr", None)
    if fn == "incr": return ("int", wrap(v[0] + 1))
    if fn == "decr": return ("int", wrap(v[0] - 1))
    if fn in ("add", "sub", "mul", "div", "mod"):
        acc = v[0]
        for x in v[1:]:
            if fn == "add": acc = wrap(acc + x)
            elif fn == "sub": acc = wrap(acc - x)
            elif fn == "mul": acc = wrap(acc * x)
            elif x == 0: return ("anyerr", None)          # undefined: a template error is the documented outcome
            elif fn == "div": acc = wrap(tdiv(acc, x))
            else: acc = wrap(acc - x * tdiv(acc, x))
        return ("int", acc)
    if fn == "min": return ("int", min(v)) if v else ("anyerr", None)
    if fn in ("ceil", "floor", "round"):
        x = v[0]
        if math.isnan(x) or math.isinf(x): return ("float", x)
        if fn == "ceil": return ("float", float(math.ceil(x)))
        if fn == "floor": return ("float", float(math.floor(x)))
        if abs(x) >= 2.0 ** 52: return ("float", x)
        return ("float", math.copysign(float(math.floor(abs(x) + 0.5)), x) if abs(x) != 0.49999999999999994 else math.copysign(0.0, x))
    if fn == "randInt": return ("nonneg", None)
    if fn == "matchString":
        if "lit" in c: return ("bool", c["lit"] in v[1])      # matchString (quoteMeta lit) s  ==  contains lit s
        return ("anyerr", None)
    if fn in DOC_EXAMPLES and "expect" in c: return ("str", c["expect"])
    return None


def same(exp, got):
    if exp is None: return True
    k, v = exp
    if got[0] == "crash": return False
    if k == "anyerr": return got[0] in ("err", "panic")
    if k == "nonneg": return got[0] == "int" and 0 <= got[1] <= MAXI
    if k == "float":
        if got[0] != "float": return False
        return (math.isnan(v) and math.isnan(got[1])) or v == got[1]
    return (k, v) == (got[0], got[1])


def metamorphic(c, got, by_key):
    """relations between outputs that need no reference"""
    errs = []
    fn = c["fn"]
    if c.get("malformed"):
        return errs
    if fn in ("snakecase", "kebabcase") and got[0] == "str" and re.fullmatch(rb"[A-Za-z0-9_\- ]*", c["args"][0][1]):
        # only on the vocabulary of the documented examples (ASCII letters, digits, '_', '-', ' '): for punctuation
        # (xstrings counts '_' after punctuation as punctuation), non-ASCII and invalid UTF-8 the xstrings
        # documentation promises nothing, and only "returns a string" is checked
        other = by_key.get(("kebabcase" if fn == "snakecase" else "snakecase", c["args"][0][1]))
        if other and other[0] == "str":
            sn, kb = (got[1], other[1]) if fn == "snakecase" else (other[1], got[1])
            if sn.replace(b"_", b"-") != kb:
                errs.append("kebabcase is not snakecase with '-' for '_': %r vs %r" % (sn, kb))
        if any(65 <= ch <= 90 for ch in got[1]):
            errs.append("%s output contains an ASCII upper-case letter: %r" % (fn, got[1]))
        bad = b" -" if fn == "snakecase" else b" _"
        if any(ch in bad for ch in got[1]):
            errs.append("%s output contains a foreign connector: %r" % (fn, got[1]))
    if fn in ("snakecase", "kebabcase", "camelcase") and got[0] != "str":
        errs.append("%s did not return a string: %r" % (fn, got))
    if fn == "camelcase" and got[0] == "str" and len(chunks(got[1])) > len(chunks(c["args"][0][1])):
        errs.append("camelcase output has more characters than its input: %r -> %r" % (c["args"][0][1], got[1]))
    return errs


def coq_z(z): return "(%d)%%Z" % z


def arg_term(x):
    t, v = x
    if t == "s": return "AStr %s" % coq_bytes(v)
    if t == "i": return "AInt %s" % coq_z(v)
    return "AList %s" % coq_list(coq_bytes(e) for e in v)


def res_term(o):
    k, v = o
    if k == "bool": return "Val (VBool %s)" % coq_bool(v)
    if k == "str": return "Val (VStr %s)" % coq_bytes(v)
    if k == "list": return "Val (VList %s)" % coq_list(coq_bytes(e) for e in v)
    if k == "int": return "Val (VInt %s)" % coq_z(v)
    if k == "panic": return "Panic"
    return "Err"


def case_term(c, o):
    return "{| c_fn := %s; c_args := %s; c_obs := %s |}" % (FN[c["fn"]], coq_list(arg_term(a) for a in c["args"]), res_term(o))


def coq_context(utab):
    rows = coq_list("(%d%%N, (%s, %s, %s, %d%%N, %d%%N))" % (r[0], coq_bool(r[1]), coq_bool(r[2]), coq_bool(r[3]), r[4], r[5]) for r in utab)
    env = coq_list("(%s, %s)" % (coq_bytes(k.encode()), coq_bytes(v)) for k, v in ENV.items())
    files = coq_list("(%s, %s)" % (coq_bytes(k.encode("utf-8", "surrogateescape")), coq_bytes(v)) for k, v in FILES.items())
    return ("From Coq Require Import NArith ZArith.\nDefinition T : utab := %s.\nDefinition W : world := {| w_env := %s; w_files := %s |}.\n" % (rows, env, files))


HMOD = "Funcs.FuncMap Harness.C16"


def describe(c, got=None, exp=None, ref=None):
    def a(x):
        t, v = x
        if t == "s": return repr(v)[1:]
        if t == "l": return "[" + " ".join(repr(e)[1:] for e in v) + "]"
        return str(v)
    d = {"call": ("{{ %s | %s %s }}" % (a(c["args"][-1]), c["fn"], " ".join(a(x) for x in c["args"][:-1]))) if c["pipe"] and c["args"]
         else "{{ %s %s }}" % (c["fn"], " ".join(a(x) for x in c["args"]))}
    show = lambda o: None if o is None else "%s %r" % (o[0], o[1])
    if got is not None: d["observed"] = show(got)
    if exp is not None: d["documented"] = show(exp)
    if ref is not None: d["stdlib_namesake"] = show(ref)
    return d


def funcmap_keys(ctx):
    src = (ctx.tree / "template_funcs" / "funcmap.go").read_text()
    m = re.search(r"var FuncMap = template\.FuncMap\{(.*?)\n\}", src, re.S)
    body = re.sub(r"/\*.*?\*/", "", m.group(1), flags=re.S) if m else ""
    return sorted(set(re.findall(r'^\s*"(\w+)":', body, re.M)))


def shrink(ctx, c, fails):
    """greedy: drop arguments' bytes / list elements, move ints toward 0, while the failure stays"""
    def variants(c):
        for i, (t, v) in enumerate(c["args"]):
            if t == "s":
                cs = chunks(v)
                for j in range(len(cs)):
                    yield i, (t, b"".join(cs[:j] + cs[j + 1:]))
            elif t == "l":
                for j in range(len(v)):
                    yield i, (t, v[:j] + v[j + 1:])
            elif t == "i" and v not in (0, 1, -1):
                for w in (0, 1, -1, v // 2):
                    yield i, (t, w)
    if "lit" in c or "expect" in c:
        return c
    progress = True
    rounds = 0
    while progress and rounds < 40:
        progress = False
        rounds += 1
        for i, nv in variants(c):
            cand = dict(c, args=c["args"][:i] + [nv] + c["args"][i + 1:])
            if fails(cand):
                c = cand
                progress = True
                break
    return c


def evaluate(ctx, cases):
    """run implementation + oracles + model on the cases"""
    outs, refs, utab = run_impl(ctx, cases)
    return judge(ctx, cases, outs, refs, utab)


def judge(ctx, cases, outs, refs, utab):
    U = Utab(utab)
    by_key = {(c["fn"], c["args"][0][1]): o for c, o in zip(cases, outs) if c["fn"] in ("snakecase", "kebabcase") and c["args"]}
    fails = {}
    for i, (c, o, rf) in enumerate(zip(cases, outs, refs)):
        e = []
        exp = reference(c, U)
        if o[0] == "crash":
            e.append("the run crashed: %s" % o[1])
        if not same(exp, o):
            e.append("documented result %r, observed %r" % (exp, o))
        if rf is not None and rf != o and not c.get("malformed"):
            e.append("differs from the Go standard-library namesake called with the subject last: %r vs %r" % (rf, o))
        e += metamorphic(c, o, by_key)
        if e:
            fails[i] = (e, exp, rf)
    # sanity of the table translation: IsSpace column against the model's explicit White_Space set
    tab_problems = ["unicode.IsSpace(U+%04X)=%d but the model's is_space says %s" % (r[0], r[6], r[0] in SPACES) for r in utab if bool(r[6]) != (r[0] in SPACES)]
    modelled = [i for i, c in enumerate(cases) if c["fn"] in FN]
    terms = [case_term(cases[i], outs[i]) for i in modelled]
    bad, errs = coq_mismatches(ctx, HMOD, terms, shard=250, extra_import=coq_context(utab), check="mismatches T W") if terms else ([], [])
    bad = [modelled[i] for i in bad]
    return outs, refs, utab, fails, bad, errs + tab_problems


def known_camel(c, o):
    """class + symptom of known finding C16-camelcase-connectors-only"""
    if c["fn"] != "camelcase" or not c["args"] or c["args"][0][0] != "s":
        return False
    s = c["args"][0][1]
    cs = chunks(s)
    return bool(cs) and not has_word(s) and o == ("str", s + cs[-1])


def check(ctx, only=None, hist_cases=None):
    gate = proof_gate(ctx)
    if not ctx.build_tree(drivers=["drv_funcs"]):
        ctx.write_evidence(gate, 0, 0, "build failed", [])
        return
    known = {k["id"]: k for k in load_known("C16")}
    per = 2500 if ctx.thorough() else 200
    notes = []
    if only is not None:
        cases = only
        witness = []
    else:
        cases = [{"fn": f, "pipe": False, "args": a} for f, a in CORPUS]
        cases += [{"fn": f, "pipe": True, "args": a} for f, a in CORPUS if a]
        for f, exs in DOC_EXAMPLES.items():
            cases += [{"fn": f, "pipe": False, "args": [S(i)], "expect": o} for i, o in exs]
        for f in ALL_FUNCS:
            n = per * (3 if f in ("split", "splitAfterN", "replace", "contains", "trim", "exported", "firstIsLower", "div") else 1)
            if f in ("randInt", "readFile", "getenv"):
                n = per // 3
            cases += [gen_case(ctx.rng, f) for _ in range(n)]
        # snake/kebab pairs on the same input for the metamorphic relation
        for c in [c for c in cases if c["fn"] == "snakecase" and "expect" not in c]:
            cases.append(dict(c, fn="kebabcase"))
        cases += [gen_malformed(ctx.rng) for _ in range(per * 2)]
        witness = [{"fn": "camelcase", "pipe": False, "args": [S(w)]} for w in WITNESS_CAMEL]
        # the function table itself: every entry of FuncMap is either modelled or named as not modelled
        keys = funcmap_keys(ctx)
        if keys != sorted(ALL_FUNCS):
            notes.append("FuncMap keys changed: added %s, removed %s" % (sorted(set(keys) - set(ALL_FUNCS)), sorted(set(ALL_FUNCS) - set(keys))))
    outs, refs, utab, fails, bad, errs = evaluate(ctx, cases)
    # history stream: the same sample before and after mockery's own uses of the (process-wide) function map
    hres = None
    if hist_cases is not None or only is None:
        sample = hist_cases if hist_cases is not None else hist_sample(ctx.rng, 1500 if ctx.thorough() else 150)
        hres, hdiffs, hfails, hbad, herrs = check_history(ctx, sample)
        if not hdiffs:
            for i in sorted(hfails)[:2]:
                rp = ctx.write_replay("history-oracle-%s-%d" % (sample[i]["fn"], i), {
                    "what": hfails[i][0], "history": True, "case": to_json(sample[i]), "readable": describe(sample[i], hres["after"][i], hfails[i][1]),
                    "note": "observed after file:// templates were created in the same process; the same result was observed before"})
                ctx.violation(rp)
            if (hbad or herrs) and not hfails:
                notes.append("history stream: model and implementation disagree on %d applications evaluated after the history, e.g. %s; %s" % (
                    len(hbad), [describe(sample[i], hres["after"][i]) for i in hbad[:3]], herrs))
    # known-finding classification (main stream stays outside the class; replayed inputs may be inside)
    for i in list(fails):
        if known_camel(cases[i], outs[i]) and "C16-camelcase-connectors-only" in known:
            ctx.known("camelcase %r -> %r (input of connectors only: last connector written twice, xstrings)" % (cases[i]["args"][0][1], outs[i][1]))
            del fails[i]
            bad = [b for b in bad if b != i]
    if witness:
        wouts, _, wutab = run_impl(ctx, witness)
        wbad, werrs = coq_mismatches(ctx, HMOD, [case_term(c, o) for c, o in zip(witness, wouts)], extra_import=coq_context(wutab), check="mismatches T W")
        ok = [known_camel(c, o) for c, o in zip(witness, wouts)]
        if all(ok) and not wbad and not werrs and "C16-camelcase-connectors-only" in known:
            ctx.known("camelcase of a non-empty string of connectors only repeats the last connector (%d witnesses, e.g. %r -> %r)" % (len(witness), WITNESS_CAMEL[0], wouts[0][1]))
        else:
            rp = ctx.write_replay("known-finding-changed", {
                "what": "the symptom of known finding C16-camelcase-connectors-only changed or disappeared (update known/C16.json, the model Funcs/Case.v camel_runes and C16_camelcase_connectors_refuted)",
                "obligation": "witness stream of C16-camelcase-connectors-only; correspondence of camelcase",
                "examples": [{"case": to_json(c), "readable": describe(c, o)} for c, o, k in zip(witness, wouts, ok) if not k][:5] or [{"case": to_json(witness[i]), "readable": describe(witness[i], wouts[i])} for i in wbad[:5]],
                "coq_errors": werrs})
            ctx.violation(rp, nofail=True)

    def oracle_fails(cc):
        o2, r2, u2 = run_impl(ctx, [cc])
        U2 = Utab(u2)
        return (not same(reference(cc, U2), o2[0])) or (r2[0] is not None and r2[0] != o2[0] and not cc.get("malformed")) or bool(metamorphic(cc, o2[0], {})) and not known_camel(cc, o2[0])

    reported = set()
    for i in sorted(fails):
        fn = cases[i]["fn"]
        if fn in reported or len(reported) >= 4:
            continue
        reported.add(fn)
        small = shrink(ctx, cases[i], oracle_fails) if oracle_fails(cases[i]) else cases[i]
        so, sr, su = run_impl(ctx, [small])
        rp = ctx.write_replay("oracle-%s-%d" % (fn, i), {
            "what": fails[i][0], "case": to_json(small), "readable": describe(small, so[0], reference(small, Utab(su)), sr[0]),
            "original": describe(cases[i], outs[i], fails[i][1], fails[i][2]),
            "failing_functions": sorted({cases[j]["fn"] for j in fails}), "failing_cases": len(fails)})
        ctx.violation(rp)
    if not gate["ok"] and not fails:
        ctx.violation(gate["replay"], nofail=True)
    if (bad or errs or notes) and not fails:
        detail = []
        for i in bad[:4]:
            def mism(cc):
                o2, _, u2 = run_impl(ctx, [cc])
                b2, e2 = coq_mismatches(ctx, HMOD, [case_term(cc, o2[0])], extra_import=coq_context(u2), check="mismatches T W")
                return bool(b2 or e2)
            small = shrink(ctx, cases[i], mism) if cases[i]["fn"] in FN else cases[i]
            so, _, su = run_impl(ctx, [small])
            expd = coq_show_ctx(ctx, su, "model_res T W (%s)" % case_term(small, so[0]))
            detail.append({"case": to_json(small), "readable": describe(small, so[0]), "model_expected": expd})
        rp = ctx.write_replay("correspondence", {
            "what": "model Funcs/FuncMap.v [apply] and the implementation disagree (or the function table changed); no oracle failure among %d applications" % len(cases),
            "obligation": "correspondence Harness/C16.v check_case (result of every application, verbatim)",
            "mismatching_cases": len(bad), "coq_errors": errs, "notes": notes, "examples": detail})
        ctx.violation(rp, nofail=True)
    # evidence
    hist = {}
    for c in cases:
        hist[c["fn"]] = hist.get(c["fn"], 0) + 1
    feat = {"pipeline_form": sum(1 for c in cases if c["pipe"]), "malformed_calls": sum(1 for c in cases if c.get("malformed")),
            "with_invalid_utf8": sum(1 for c in cases if any(t == "s" and not valid(v) for t, v in c["args"])),
            "with_multibyte": sum(1 for c in cases if any(t == "s" and valid(v) and any(b >= 128 for b in v) for t, v in c["args"])),
            "with_empty_string_arg": sum(1 for c in cases if any(t == "s" and v == b"" for t, v in c["args"])),
            "int_boundary_args": sum(1 for c in cases if any(t == "i" and abs(v) >= 2 ** 62 for t, v in c["args"])),
            "results_error_or_panic": sum(1 for o in outs if o[0] in ("err", "panic"))}

    def nontrivial(c, o):
        # the result is a value that differs from every string argument (the function did something), or a boolean true
        if o[0] in ("err", "panic", "crash"): return False
        if o[0] == "bool": return o[1]
        if o[0] in ("int", "float"): return len(c["args"]) > 1 or c["fn"] in ("incr", "decr")
        return all(not (t == "s" and ((o[0] == "str" and v == o[1]) or (o[0] == "list" and o[1] == [v]))) for t, v in c["args"])
    distinct = len({json.dumps(to_json(c), sort_keys=True) for c, o in zip(cases, outs) if nontrivial(c, o)})
    ctx.write_evidence(gate, len(cases) + len(witness) + (2 * len(hres["before"]) if hres else 0), distinct,
                       "seeded applications of every FuncMap entry (corpus and documented examples first), arguments biased to boundaries (empty, separator at the ends/repeated/overlapping, multi-byte, invalid UTF-8, counts <0/0/1/MaxInt64, MinInt64, +-1), half of them in pipeline form, plus ill-typed calls; non-trivial = the result is a value that is not simply one of the string arguments back (booleans: true; arithmetic: at least two operands); distinct by (function, arguments, call form)",
                       [describe(c, o) for c, o in list(zip(cases, outs))[:6]] or ([describe(c, o) for c, o in list(zip(hist_cases or [], hres["after"] if hres else []))[:6]]),
                       extra={"function_histogram": hist, "input_features": feat, "model_mismatches": len(bad), "oracle_failures": len(fails),
                              "history_stream": ({"sample": len(hres["before"]), "evaluated_twice_through_FuncMap_and_embedded_template": True,
                                                 "file_templates_created_with_template_New": 2, "driver_log": hres["log"][:6], "differences": len(hdiffs)} if hres else None),
                              "modelled_functions": sorted(FN), "not_modelled_functions": UNMODELLED, "unicode_table_rows": len(utab),
                              "traces_validated_against_impl": sum(1 for c in cases if c["fn"] in FN) + len(witness)},
                       assumptions=["the model functions are pure (a Gallina function of its arguments, the Unicode table and the environment/file map; C16_call_independent_of_history): that the implementation's process-wide FuncMap behaves the same is checked by the history stream (same sample before and after config-value rendering and file:// templates created with mockery's template.New next to decoy files), not proved",
                                    "driver drv_funcs executes {{ f args }} / {{ last | f args }} with template_funcs.FuncMap through text/template; the environment is cleared and set to a fixed map, files live in a fresh temporary directory",
                                    "Go's unicode tables are data (dumped per run for the occurring code points), not verified"])


def valid(b):
    try:
        b.decode("utf-8")
        return True
    except UnicodeDecodeError:
        return False


def coq_show_ctx(ctx, utab, term):
    rc, out, err = coq_eval(ctx, "show", "From Mk Require Import Lib.Bytes %s.\n%s" % (HMOD, coq_context(utab)), "",
                            "Definition R := Eval vm_compute in (%s).\nPrint R." % term)
    return " ".join(out.split()) if rc == 0 else "coqc failed: " + err[-1500:]


def replay(ctx, path):
    d = json.loads(open(path).read())
    cs = [d["case"]] if "case" in d else [e["case"] for e in d.get("examples", [])]
    if d.get("history"):
        check(ctx, only=[], hist_cases=[from_json(c) for c in cs])
    else:
        check(ctx, only=[from_json(c) for c in cs])
