"""C09 - invalid or unsatisfiable input fails loudly: non-zero exit, never a crash.
(This module also holds the scenario machinery shared with C10: Go module trees, configs,
the resolver that turns a scenario into the abstract world of coq/Cfg/Pipeline.v, running the
real binary, snapshots.)"""
import copy, hashlib, json, os, posixpath, re, shutil, stat, subprocess, tempfile
from common import *

MOD = "example.com/m"
GOMOD_STD = "module %s\n\ngo 1.23\n\nrequire github.com/stretchr/testify v1.10.0\n" % MOD
PROBES = VERIF / "harness" / "probes"
HMOD = "Cfg.Fs Cfg.GoMod Cfg.Pipeline Harness.C09"

# ----------------------------------------------------------------------------------------
# source packages.  kind: how packages.Load sees the package with default build tags.
# files: name -> (build tag or None, text); ifaces: per file, in declaration order.
# ----------------------------------------------------------------------------------------
CATALOG = {
    "a": {"files": {"a.go": (None, "package a\n\ntype A1 interface{ Get(x int) string }\n\ntype A2 interface{ Do() error }\n")},
          "ifaces": {"a.go": ["A1", "A2"]}},
    "b": {"files": {"b.go": (None, "package b\n\nimport \"context\"\n\ntype B1 interface {\n\tRun(ctx context.Context, s string, more ...int) (int, error)\n}\n")},
          "ifaces": {"b.go": ["B1"]}},
    "c": {"files": {"c1.go": (None, "package c\n\ntype C1 interface{ M() }\n\ntype NotIface struct{ X int }\n\ntype Fn func(int) int\n"),
                    "c2.go": (None, "package c\n\ntype c2 interface{ m() }\n\ntype C3[T any] interface{ Put(v T) T }\n")},
          "ifaces": {"c1.go": ["C1"], "c2.go": ["c2", "C3"]}},
    "r": {"files": {"r.go": (None, "package r\n\ntype R1 interface{ M() }\n")}, "ifaces": {"r.go": ["R1"]}},
    "r/s1": {"files": {"s1.go": (None, "package s1\n\ntype S1 interface{ M() int }\n")}, "ifaces": {"s1.go": ["S1"]}},
    "r/s2": {"files": {"s2.go": (None, "package s2\n\ntype S2 interface{ M() string }\n")}, "ifaces": {"s2.go": ["S2"]}},
    "d/e": {"files": {"e.go": (None, "package e\n\ntype E1 interface{ M() }\n")}, "ifaces": {"e.go": ["E1"]}},
    "nodecl": {"files": {"n.go": (None, "package nodecl\n")}, "ifaces": {"n.go": []}},
    "consts": {"files": {"k.go": (None, "package consts\n\nconst K = 1\n\nvar V = K\n\nfunc F() {}\n")}, "ifaces": {"k.go": []}},
    "onlytest": {"files": {"x_test.go": (None, "package onlytest\n\ntype T interface{ M() }\n")}, "ifaces": {}},
    "tagged": {"files": {"t.go": ("special", "//go:build special\n\npackage tagged\n\ntype Tg interface{ M() }\n")}, "ifaces": {"t.go": ["Tg"]}},
    "mixedtag": {"files": {"m_plain.go": (None, "package mixedtag\n\ntype Nm interface{ M() }\n"),
                           "m_special.go": ("special", "//go:build special\n\npackage mixedtag\n\ntype Sp interface{ M() }\n")},
                 "ifaces": {"m_plain.go": ["Nm"], "m_special.go": ["Sp"]}},
    "emptydir": {"files": {"README.txt": (None, "no go files here\n")}, "ifaces": {}, "nogo": True},
    "typeerr": {"files": {"t.go": (None, "package typeerr\n\ntype TE interface{ M() }\n\nvar X int = \"s\"\n")}, "ifaces": {"t.go": ["TE"]}, "errors": 1},
    "syntaxerr": {"files": {"s.go": (None, "package syntaxerr\n\ntype SE interface{ M() }\n\nfunc {\n")}, "ifaces": {"s.go": ["SE"]}, "errors": 1},
    "badimport": {"files": {"b.go": (None, "package badimport\n\nimport \"example.com/m/doesnotexist\"\n\ntype BI interface{ M(x doesnotexist.T) }\n")},
                  "ifaces": {"b.go": ["BI"]}, "errors": 1},
    "nonexist": {"files": {}, "ifaces": {}, "absent": True},
    # types declared inside function bodies (one shadows a package-level interface), a blank type
    # declaration, an interface type defined from an identifier
    "funclocal": {"files": {"fl.go": (None, "package funclocal\n\ntype FL1 interface{ M() }\n\ntype FL2 FL1\n\ntype _ interface{ Blank() }\n\n"
                                            "func f() {\n\ttype L interface{ M() }\n\tvar _ L\n\ttype FL1 interface{ Other() }\n\tvar _ FL1\n"
                                            "\t_ = func() { type Inner interface{ X() } }\n}\n")},
                  "ifaces": {"fl.go": ["FL1", "FL2"]}},
    # nested recursive packages
    "n": {"files": {"n.go": (None, "package n\n\ntype N1 interface{ M() }\n")}, "ifaces": {"n.go": ["N1"]}},
    "n/q": {"files": {"q.go": (None, "package q\n\ntype Q1 interface{ M() }\n")}, "ifaces": {"q.go": ["Q1"]}},
    "n/q/r": {"files": {"r.go": (None, "package r\n\ntype QR1 interface{ M() }\n")}, "ifaces": {"r.go": ["QR1"]}},
    "n/z": {"files": {"z.go": (None, "package z\n\ntype Z1 interface{ M() }\n")}, "ifaces": {"z.go": ["Z1"]}},
    # identifiers with multi-byte letters (not only at the end)
    "uni": {"files": {"uni.go": (None, "package uni\n\ntype \u00dcberwacher interface{ M() }\n\ntype \u00dcn\u00efc\u00f6d\u00e9 interface{ M(x int) string }\n\n"
                                       "type Gr\u00f6\u00dfe interface{ Wert() int }\n\ntype \u03a9mega1 interface{ M() }\n\ntype I\u00f1t\u00ebrface interface{ M() }\n")},
            "ifaces": {"uni.go": ["\u00dcberwacher", "\u00dcn\u00efc\u00f6d\u00e9", "Gr\u00f6\u00dfe", "\u03a9mega1", "I\u00f1t\u00ebrface"]}},
    # distinct packages with the SAME package name (and partly the same interface names)
    "x/store": {"files": {"s.go": (None, "package store\n\ntype Store interface{ Get(k string) string }\n")}, "ifaces": {"s.go": ["Store"]}},
    "y/store": {"files": {"s.go": (None, "package store\n\ntype Store interface{ Get(k string) string }\n\ntype Other interface{ M() }\n")}, "ifaces": {"s.go": ["Store", "Other"]}},
    "v1/api": {"files": {"api.go": (None, "package api\n\ntype ApiA interface{ A() }\n")}, "ifaces": {"api.go": ["ApiA"]}},
    "v2/api": {"files": {"api.go": (None, "package api\n\ntype ApiB interface{ B() }\n")}, "ifaces": {"api.go": ["ApiB"]}},
}
VALID_PKGS = ["a", "b", "c", "r", "r/s1", "r/s2", "d/e"]
BUILTIN = {"testify": {"boilerplate-file": str, "mock-build-tags": str, "unroll-variadic": bool},
           "matryer": {"boilerplate-file": str, "mock-build-tags": str, "skip-ensure": bool, "stub-impl": bool, "with-resets": bool}}
TRAP_SCHEMA = {"boom-read": bool, "boom-index": bool, "boom-syntax": bool, "note": str}
REQ_SCHEMA = {"note": str, "__required__": ["note"]}
DEFAULTS = {"dir": "{{.InterfaceDir}}", "filename": "mocks_test.go", "pkgname": "{{.SrcPackageName}}",
            "structname": "{{.Mock}}{{.InterfaceName}}", "template": "testify", "formatter": "goimports",
            "force-file-write": False, "require-template-schema-exists": True,
            "template-schema": "{{.Template}}.schema.json", "all": False, "recursive": False,
            "include-interface-regex": "", "exclude-interface-regex": "", "build-tags": ""}
KNOWN_KEYS = set(DEFAULTS) | {"template-data", "replace-type", "exclude-subpkg-regex", "log-level", "config", "_anchors"}


def pkg_path(name):
    return MOD + "/" + name


def pkg_goname(name):
    return name.split("/")[-1]


# ----------------------------------------------------------------------------------------
# scenario = everything needed to build the tree and the config
# ----------------------------------------------------------------------------------------
def new_scn(pkgs):
    return {"pkgs": list(pkgs),            # catalogue names materialised below m/
            "root": {},                    # root-level parameters
            "packages": {},                # import path -> None | {"config":…, "interfaces":{name: None|{"config":…,"configs":[…]}}}
            "raw_config": None,            # bytes: written instead of the structured config
            "no_config": False,
            "cfg_status": "CfgOk",
            "init": {},                    # relpath below the scenario root -> bytes | "DIR"
            "ro": [],                      # relpaths made read-only before the run
            "links": {},                   # relpath -> symlink target (relative to the link's directory)
            "cwd": "m",                    # physical working directory (holds .mockery.yml), below the scenario root
            "pwd": None,                   # the name under which it is entered ($PWD): a path through a symlink, or None
            "gomod": GOMOD_STD, "extra_mods": {},   # reldir below m/ -> go.mod text
            "env": {},
            "tags": [],                    # injected failure classes (names of Coq fclass) and notes
            "aux_ok": True}


def lvl(d, key, default=None):
    return d.get(key, default) if d else default


def chain_get(chain, key):
    for d in chain:
        if d and key in d and d[key] is not None:
            return d[key]
    return DEFAULTS.get(key)


def merged_data(chain):
    """template-data after mergeStringMaps down the levels (top-level keys; nested maps are
    not used by the generators)."""
    out = {}
    for d in chain:
        td = lvl(d, "template-data")
        if td:
            for k, v in td.items():
                out.setdefault(k, v)
    return out


VARS = ["InterfaceDirRelative", "InterfaceDir", "InterfaceFile", "InterfaceName", "Mock", "StructName",
        "SrcPackageName", "SrcPackagePath", "Template", "ConfigDir"]
VAR_RE = re.compile(r"\{\{\s*\.(\w+)\s*\}\}")


def expand(value, data):
    """config.ParseTemplates on one attribute: returns (status, final value)."""
    v = value
    for _ in range(21):
        if "{{" not in v:
            return "TOk", v
        bad = [False]

        def sub(m):
            if m.group(1) not in data:
                bad[0] = True
                return ""
            return data[m.group(1)]
        nv = VAR_RE.sub(sub, v)
        if bad[0]:
            return "TBad", v
        if nv == v:
            # something with {{ that is not a plain variable reference: only the malformed
            # forms used by the generators reach this
            return "TBad", v
        v = nv
    return "TCyclic", v


def data_ok(schema, data):
    for k in schema.get("__required__", []):
        if k not in data:
            return False
    for k, v in data.items():
        if k not in schema or k == "__required__":
            return False
        if not isinstance(v, schema[k]) or (schema[k] is not bool and isinstance(v, bool)):
            return False
    return True


def go_search(rx, s):
    """regexp.MatchString for the simple patterns the generators use; None = does not compile."""
    try:
        return re.search(rx, s) is not None
    except re.error:
        return None


BAD_RX = ["(", "[a-", "a{2,1}", "*x", "\\", "(\u00fc", "[\u00e9-a]"]


def rx_valid(rx):
    return rx not in BAD_RX


def schema_of_template(tname):
    """the schema CONTENT that goes with a template (the generators never pair a probe template
    with another probe's schema)"""
    if tname in BUILTIN:
        return BUILTIN[tname]
    if tname.endswith("c10_trap.templ"):
        return TRAP_SCHEMA
    if tname.endswith("c10_req.templ"):
        return REQ_SCHEMA
    return None


def tinfo_of(tname, S):
    """(kind, found, parses) of a `template` value"""
    if any(tname.startswith(p) for p in ("file://", "http://", "https://")):
        f = tname[len("file://"):] if tname.startswith("file://") else None
        found = bool(f) and posixpath.dirname(f) == posixpath.join(S, "tpl") and (PROBES / posixpath.basename(f)).is_file()
        return "TRemote", found, (not found) or not f.endswith("badsyntax.templ")
    return "TBuiltin", tname in BUILTIN, True


def schema_exists(url, S):
    sf = url[len("file://"):] if url.startswith("file://") else None
    return bool(sf) and posixpath.dirname(sf) == posixpath.join(S, "tpl") and (PROBES / posixpath.basename(sf)).is_file()


def resolve(scn, S):
    """The abstract world (a plain dict mirroring coq/Cfg/Pipeline.v) of a scenario rooted at S."""
    m = posixpath.join(S, "m")
    root = dict(scn.get("env_root", {}))        # MOCKERY_* environment: below the config file
    root.update({k: v for k, v in scn["root"].items() if k != "_anchors"})
    tags = [t for t in str(lvl(root, "build-tags", "") or "").split(" ") if t]
    present = scn["pkgs"]

    def files_of(name, tgs):
        c = CATALOG[name]
        return [f for f, (tag, _) in sorted(c["files"].items())
                if f.endswith(".go") and not f.endswith("_test.go") and (tag is None or tag in tgs)]

    def load(name, tgs=None):
        tgs = tags if tgs is None else tgs
        c = CATALOG[name]
        if name not in present or c.get("absent") or c.get("nogo"):
            return 0, 1
        fs_ = files_of(name, tgs)
        if not fs_:
            anygo = any(f.endswith(".go") and not f.endswith("_test.go") for f in c["files"])
            return 0, (1 if anygo else 0)     # all excluded by constraints -> error; test-only -> clean
        return len(fs_), c.get("errors", 0)

    # ---- Initialize: every configured package is merged from the root; then the recursive
    # packages, deepest first (a sub-package inherits from its nearest recursive ancestor) ----
    pk = {}          # path -> {"own": cfg entry, "pchain": list of package-level dicts, most specific first}
    for path, ent in scn["packages"].items():
        pk[path] = {"own": ent or {}, "pchain": [lvl(ent, "config"), root]}
    roots = []

    def is_rec(path):
        return bool(chain_get(pk[path]["pchain"], "recursive"))

    def subs_of(path):
        # packages.Load(path/...) without the configured build tags
        return [pkg_path(n) for n in present
                if (pkg_path(n) == path or pkg_path(n).startswith(path + "/")) and load(n, [])[0] > 0]

    def verdict(excl, p2):
        for rx in excl:
            r = go_search(rx, p2) if rx_valid(rx) else None
            if r is None:
                return None
            if r:
                return True
        return False

    for path in sorted([p for p in pk if is_rec(p)], reverse=True):
        excl = chain_get(pk[path]["pchain"], "exclude-subpkg-regex") or []
        subs = subs_of(path)
        roots.append({"load_ok": True, "subs": subs, "excl": excl})
        for p2 in subs:
            v = verdict(excl, p2)
            if v is None or v or p2 == path:
                continue
            if p2 in pk:
                # an existing entry already has every scalar (its own, the root's or its
                # nearest ancestor's): only map-typed values can still be filled
                pk[p2]["pchain"] = pk[p2]["pchain"] + [{"template-data": lvl(pk[path]["pchain"][0], "template-data")}]
            else:
                pk[p2] = {"own": {}, "pchain": list(pk[path]["pchain"]), "added": True}
    # the second Initialize (RootApp.Run): packages added above inherited recursive: true
    for path in pk:
        if pk[path].get("added") and is_rec(path):
            roots.append({"load_ok": True, "subs": subs_of(path), "excl": chain_get(pk[path]["pchain"], "exclude-subpkg-regex") or []})
    # ---- packages ----
    pkgs = []
    templates = {}
    for path in pk:
        name = path[len(MOD) + 1:] if path.startswith(MOD + "/") else None
        own = pk[path]["own"]
        pchain = pk[path]["pchain"]
        if name not in CATALOG:
            nfiles, nerr, decls_src = 0, 1, []
        else:
            nfiles, nerr = load(name)
            decls_src = []
            if nfiles:
                for f in files_of(name, tags):
                    for i in CATALOG[name]["ifaces"].get(f, []):
                        decls_src.append((f, i))
        srcdir = posixpath.join(m, name) if name else m
        goname = pkg_goname(name) if name else "x"
        # package-level ParseTemplates (iface = nil)
        pdata = {"InterfaceDir": "", "InterfaceDirRelative": "", "InterfaceFile": "", "InterfaceName": "", "Mock": "",
                 "StructName": chain_get(pchain, "structname"), "SrcPackageName": goname, "SrcPackagePath": path,
                 "Template": chain_get(pchain, "template"), "ConfigDir": m}
        pst = "TOk"
        for attr in ("dir", "filename", "pkgname", "structname", "template-schema"):
            st, val = expand(chain_get(pchain, attr), pdata)
            if st != "TOk" and pst == "TOk":
                pst = st
        listed = list((lvl(own, "interfaces") or {}).keys())
        decls = []
        for f, iname in decls_src:
            ient = (lvl(own, "interfaces") or {}).get(iname) if iname in listed else None
            if iname in listed:
                icfg = lvl(ient, "config")
                entries = lvl(ient, "configs")
                chains = [[e, icfg] + pchain for e in entries] if entries else [[icfg] + pchain]
            else:
                chains = [pchain]
            reqs = []
            for ch in chains:
                mock = "Mock" if iname[:1].isupper() else "mock"
                tname = chain_get(ch, "template")
                data = {"InterfaceDir": srcdir, "InterfaceDirRelative": name, "InterfaceFile": posixpath.join(srcdir, f),
                        "InterfaceName": iname, "Mock": mock, "StructName": chain_get(ch, "structname"),
                        "SrcPackageName": goname, "SrcPackagePath": path, "Template": tname, "ConfigDir": m}
                st = "TOk"
                vals = {}
                for attr in ("dir", "filename", "pkgname", "structname", "template-schema"):
                    s1, val = expand(chain_get(ch, attr), data)
                    vals[attr] = val
                    if s1 != "TOk" and st == "TOk":
                        st = s1
                key = posixpath.normpath(posixpath.join(vals["dir"], vals["filename"])) if st == "TOk" else "?" + iname
                # a relative output path is resolved by the kernel from the PHYSICAL working directory
                phys = key if key.startswith("/") else posixpath.normpath(posixpath.join(S, scn.get("cwd", "m"), key))
                rel = posixpath.relpath(phys, S)
                td = merged_data(ch)
                # replace-type makes the preparation fail when a parameter of that type exists
                rt = None
                for d in ch:
                    if lvl(d, "replace-type"):
                        rt = lvl(d, "replace-type")
                        break
                rt = rt if (rt and "context" in rt and iname == "B1") else None
                templates[tname] = tinfo_of(tname, S)
                schema = schema_of_template(tname)
                trap = tname.endswith("c10_trap.templ")
                fm = chain_get(ch, "formatter")
                reqs.append({"iface": iname, "tstatus": st, "key": key, "path": [] if rel == "." else rel.split("/"),
                             "outside": rel.startswith(".."),
                             "pkgname": vals["pkgname"], "template": tname, "structname": vals["structname"],
                             "require_schema": bool(chain_get(ch, "require-template-schema-exists")),
                             "schema_ok": schema_exists(vals["template-schema"], S) if templates[tname][0] == "TRemote" else True,
                             "force": bool(chain_get(ch, "force-file-write")),
                             "formatter": {"gofmt": "FGofmt", "goimports": "FGoimports", "noop": "FNoop"}.get(fm, "FUnknown"),
                             "prep_ok": not rt,
                             "data_ok": (data_ok(schema, td) if schema is not None else True),
                             "exec_ok": not (trap and (td.get("boom-read") is True or td.get("boom-index") is True)),
                             "syntax_ok": not (trap and td.get("boom-syntax") is True)})
            decls.append({"name": iname, "reqs": reqs})
        inc = chain_get(pchain, "include-interface-regex") or ""
        exc = chain_get(pchain, "exclude-interface-regex") or ""
        names = [d["name"] for d in decls] + listed
        pkgs.append({"path": path, "nfiles": nfiles, "nerrors": nerr, "decls": decls, "listed": listed,
                     "all": bool(chain_get(pchain, "all")),
                     "include": None if inc == "" else {"valid": rx_valid(inc), "matches": [n for n in names if rx_valid(inc) and go_search(inc, n)]},
                     "exclude": None if exc == "" else {"valid": rx_valid(exc), "matches": [n for n in names if rx_valid(exc) and go_search(exc, n)]},
                     "cfg": {"tstatus": pst}})
    # an output name that is a symbolic link to /dev/full: the file can be opened, every write to it
    # fails (ENOSPC).  In the model: an existing file at the name's path that cannot be written.
    for p_ in pkgs:
        for d_ in p_["decls"]:
            for q_ in d_["reqs"]:
                q_["devfull"] = str(scn.get("links", {}).get("/".join(q_["path"]), "")).endswith(DEVFULL_NAME)
    for r in roots:
        r["exclude"] = [{"valid": rx_valid(rx), "matches": [s_ for s_ in r["subs"] if rx_valid(rx) and go_search(rx, s_)]} for rx in r["excl"]]
    fsinfo = {"dirs": {k for k, v in scn["init"].items() if v == "DIR"}, "files": {k for k, v in scn["init"].items() if v != "DIR"},
              "ro": set(scn["ro"])}
    return {"cfg": derive_cfg_status(scn), "roots": roots, "pkgs": pkgs, "templates": templates, "aux_ok": scn["aux_ok"], "fsinfo": fsinfo}


# ---------------- Python mirror of the selection (only to enumerate map keys / expectations) ------
def selected(world):
    out = []
    for p in world["pkgs"]:
        if p["nfiles"] == 0:
            continue
        for d in p["decls"]:
            n = d["name"]
            if p["all"] or n in p["listed"]:
                sel = True
            elif p["include"] is None:
                sel = False
            elif not p["include"]["valid"]:
                sel = None
            elif n in p["include"]["matches"]:
                if p["exclude"] is None:
                    sel = True
                elif not p["exclude"]["valid"]:
                    sel = None
                else:
                    sel = n not in p["exclude"]["matches"]
            else:
                sel = False
            if sel:
                for q in d["reqs"]:
                    out.append((p, q))
    return out


def out_keys(world):
    ks = []
    for _, q in selected(world):
        if q["key"] not in ks:
            ks.append(q["key"])
    return ks


# ----------------------------------------------------------------------------------------
# Gallina printers
# ----------------------------------------------------------------------------------------
def coq_path(segs):
    return coq_list(coq_bytes(s) for s in segs)


def rx_term(r):
    return "(rx_of %s %s)" % (coq_bool(r["valid"]), coq_list(coq_bytes(x) for x in r["matches"]))


def orx_term(r):
    return "None" if r is None else "(Some %s)" % rx_term(r)


def req_term(q):
    return ("{| q_iface := %s; q_tstatus := %s; q_key := %s; q_path := %s; q_pkgname := %s; q_template := %s; "
            "q_require_schema := %s; q_schema_ok := %s; q_force := %s; q_formatter := %s; "
            "q_prep_ok := %s; q_data_ok := %s; q_exec_ok := %s |}") % (
        coq_bytes(q["iface"]), q["tstatus"], coq_bytes(q["key"]), coq_path(q["path"]), coq_bytes(q["pkgname"]),
        coq_bytes(q["template"]), coq_bool(q["require_schema"]), coq_bool(q["schema_ok"]), coq_bool(q["force"]), q["formatter"],
        coq_bool(q["prep_ok"]), coq_bool(q["data_ok"]), coq_bool(q["exec_ok"]))


def pkg_term(p):
    decls = coq_list("{| d_name := %s; d_reqs := %s |}" % (coq_bytes(d["name"]), coq_list(req_term(q) for q in d["reqs"])) for d in p["decls"])
    return ("{| p_path := %s; p_nfiles := %d; p_nerrors := %d; p_decls := %s; p_listed := %s; p_all := %s; "
            "p_include := %s; p_exclude := %s; p_cfg := {| c_tstatus := %s |} |}") % (
        coq_bytes(p["path"]), p["nfiles"], p["nerrors"], decls, coq_list(coq_bytes(x) for x in p["listed"]),
        coq_bool(p["all"]), orx_term(p["include"]), orx_term(p["exclude"]), p["cfg"]["tstatus"])


def node_term(n):
    if n is None:
        return "None"
    if n == "DIR":
        return "(Some Dir)"
    return "(Some (File %s))" % coq_bytes(n)


def world_term(world, before, ro, contents, invalid_keys):
    fs_items = coq_list("(%s, %s)" % (coq_path(p), "Dir" if n == "DIR" else "File %s" % coq_bytes(n)) for p, n in before)
    return ("{| w_cfg := %s; w_roots := %s; w_pkgs := %s; w_tinfo := tinfo_of %s; "
            "w_modaux := (fun _ => %s); w_fs := fs_of %s; w_ro := set_of %s; w_content := content_of %s; "
            "w_valid_go := (fun k => negb (sset_of %s k)) |}") % (
        world["cfg"],
        coq_list("{| rr_load_ok := %s; rr_subpkgs := %s; rr_exclude := %s |}" % (
            coq_bool(r["load_ok"]), coq_list(coq_bytes(s_) for s_ in r["subs"]), coq_list(rx_term(x) for x in r["exclude"])) for r in world["roots"]),
        coq_list(pkg_term(p) for p in world["pkgs"]),
        coq_list("(%s, (%s, %s, %s))" % (coq_bytes(n), coq_bool(k == "TRemote"), coq_bool(f), coq_bool(pr)) for n, (k, f, pr) in sorted(world["templates"].items())),
        coq_bool(world["aux_ok"]),
        fs_items, coq_list(coq_path(p) for p in ro),
        coq_list("(%s, %s)" % (coq_bytes(k), coq_bytes(v)) for k, v in contents),
        coq_list(coq_bytes(k) for k in invalid_keys))


def case_term(world, before, ro, contents, invalid_keys, keys, exit_class, final):
    return "{| c_world := %s; c_outs := %s; c_exit := %s; c_final := %s |}" % (
        world_term(world, before, ro, contents, invalid_keys), coq_list(coq_bytes(k) for k in keys), exit_class,
        coq_list("(%s, %s)" % (coq_path(p), node_term(n)) for p, n in final))


# ----------------------------------------------------------------------------------------
# trees, runs, snapshots
# ----------------------------------------------------------------------------------------
def config_bytes(scn):
    if scn["raw_config"] is not None:
        return scn["raw_config"]
    d = dict(scn["root"])
    d["packages"] = scn["packages"]
    return json.dumps(d, indent=1).encode()       # JSON is YAML


def subst(obj, S):
    """scenario values may refer to the scenario root as @S@"""
    if isinstance(obj, str):
        return obj.replace("@S@", S)
    if isinstance(obj, dict):
        return {subst(k, S): subst(v, S) for k, v in obj.items()}
    if isinstance(obj, list):
        return [subst(v, S) for v in obj]
    return obj


def bind(scn, S):
    b = copy.deepcopy(scn)
    b["root"] = subst(b["root"], S)
    b["packages"] = subst(b["packages"], S)
    b["links"] = {k: (v.replace("@DEVFULL@", DEVFULL["path"] or ("/nonexistent/" + DEVFULL_NAME)) if isinstance(v, str) else v)
                  for k, v in b.get("links", {}).items()}
    return b


def materialize(scn, S, with_init=True):
    """Write the tree of a (bound) scenario below S."""
    m = os.path.join(S, "m")
    os.makedirs(m)
    with open(os.path.join(m, "go.mod"), "wb") as f:
        f.write(scn["gomod"].encode() if isinstance(scn["gomod"], str) else scn["gomod"])
    shutil.copy(str(REPO / "go.sum"), os.path.join(m, "go.sum"))
    for name in scn["pkgs"]:
        c = CATALOG[name]
        if c.get("absent"):
            continue
        d = os.path.join(m, name)
        os.makedirs(d, exist_ok=True)
        for fn, (_, text) in c["files"].items():
            with open(os.path.join(d, fn), "w") as f:
                f.write(text)
    for rel, text in scn["extra_mods"].items():
        d = os.path.join(m, rel)
        os.makedirs(d, exist_ok=True)
        with open(os.path.join(d, "go.mod"), "wb") as f:
            f.write(text.encode() if isinstance(text, str) else text)
    tpl = os.path.join(S, "tpl")
    os.makedirs(tpl)
    for f in PROBES.glob("c10_*"):
        shutil.copy(str(f), os.path.join(tpl, f.name))
    if not scn["no_config"]:
        os.makedirs(os.path.join(S, scn.get("cwd", "m")), exist_ok=True)
        with open(os.path.join(S, scn.get("cwd", "m"), ".mockery.yml"), "wb") as f:
            f.write(config_bytes(scn))
    if with_init:
        for rel, content in scn["init"].items():
            p = os.path.join(S, rel)
            if content == "DIR":
                os.makedirs(p, exist_ok=True)
            else:
                os.makedirs(os.path.dirname(p), exist_ok=True)
                with open(p, "wb") as f:
                    f.write(content)
        for rel, target in scn.get("links", {}).items():
            p = os.path.join(S, rel)
            os.makedirs(os.path.dirname(p), exist_ok=True)
            os.symlink(target, p)
        for rel in scn["ro"]:
            p = os.path.join(S, rel)
            os.chmod(p, 0o555 if os.path.isdir(p) else 0o444)


def node_of(path, data):
    """what the model holds for a file: go.mod files verbatim (the model reads them), anything
    else as the SHA-256 of its bytes"""
    if os.path.basename(path) == "go.mod":
        return data
    return hashlib.sha256(data).hexdigest().encode()


def snapshot(S):
    """lstat view of the tree: directories, regular files (hash), symbolic links (their target
    string; never followed - what they point to is in the tree and is recorded where it lives)"""
    out = {}
    for dirpath, dirnames, filenames in os.walk(S):
        rel = os.path.relpath(dirpath, S)
        segs = () if rel == "." else tuple(rel.split(os.sep))
        out[segs] = "DIR"
        for dn in dirnames:
            p = os.path.join(dirpath, dn)
            if os.path.islink(p):
                out[segs + (dn,)] = b"symlink -> " + os.readlink(p).encode()
        for fn in filenames:
            p = os.path.join(dirpath, fn)
            if os.path.islink(p):
                out[segs + (fn,)] = b"symlink -> " + os.readlink(p).encode()
                continue
            try:
                with open(p, "rb") as f:
                    out[segs + (fn,)] = node_of(p, f.read())
            except OSError:
                out[segs + (fn,)] = b"<unreadable>"
    return out


def resolve_links(world, S):
    """The file that an output name denotes: symbolic links (at the output path or in a parent
    directory) are followed, as Stat / MkdirAll / WriteFile follow them.  q["namepath"] keeps the name."""
    root = os.path.realpath(S)
    for p in world["pkgs"]:
        for d in p["decls"]:
            for q in d["reqs"]:
                q["namepath"] = list(q["path"])
                if q["outside"] or q.get("devfull"):
                    continue
                real = os.path.realpath(os.path.join(S, *q["path"]))
                rel = os.path.relpath(real, root)
                q["path"] = [] if rel == "." else rel.split(os.sep)
                q["outside"] = rel.startswith("..")


def ref_of(res, q):
    """reference content of the collection this request belongs to (scn["ref_name"]: the name that the
    de-aliased valid base gives to an interface's file)"""
    alt = res["scn"].get("ref_name", {}).get(q["iface"])
    if alt is not None:
        return res["ref_contents"].get(tuple(alt))
    return res["ref_contents"].get(tuple(q.get("namepath", q["path"])))


_SETPRIV = None


def setpriv_prefix():
    """root ignores permission bits; drop the capabilities that do so (needed for the read-only scenarios)"""
    global _SETPRIV
    if _SETPRIV is None:
        if os.geteuid() != 0:
            _SETPRIV = []
        else:
            caps = "-dac_override,-dac_read_search,-fowner"
            pre = ["setpriv", "--bounding-set=" + caps, "--inh-caps=" + caps]
            try:
                ok = subprocess.run(pre + ["true"], stdout=subprocess.DEVNULL, stderr=subprocess.DEVNULL).returncode == 0
            except OSError:
                ok = False
            _SETPRIV = pre if ok else False
    return _SETPRIV


def run_mockery(ctx, scn, S, args=()):
    env = go_env({"GOFLAGS": "-mod=mod"})
    for k in list(env):
        if k.startswith("MOCKERY_"):
            del env[k]
    env.update(scn["env"])
    cmd = [ctx.bins["mockery"]] + list(args)
    if scn["ro"]:
        pre = setpriv_prefix()
        if pre is False:
            return None
        cmd = pre + cmd
    wd = os.path.join(S, scn.get("pwd") or scn.get("cwd", "m"))
    env["PWD"] = wd                     # the logical working directory, as a shell would export it
    p = run(cmd, cwd=wd, env=env, timeout=120)
    out = p.stdout + p.stderr
    panic = (p.returncode == 2 and b"goroutine " in out) or b"\npanic: " in b"\n" + out
    cls = "Panic" if panic else ("Exit0" if p.returncode == 0 else "ExitErr")
    diag = bool(re.search(rb"\b(ERR|FTL)\b", out)) or (p.returncode != 0 and len(out.strip()) > 0 and not panic and b"rror" in out)
    return {"rc": p.returncode, "cls": cls, "diag": diag, "tail": out.decode(errors="replace")[-1500:]}


def unlock(S):
    subprocess.run(["chmod", "-R", "u+rwx", S], stderr=subprocess.DEVNULL)


def execute(ctx, scn, idx, base=None):
    """Reference run of the valid base configuration (pristine tree), then the scenario run.
    Returns a dict with everything the oracles and the case term need."""
    res = {"scn": scn, "idx": idx}
    contents, ref_bytes = {}, {}
    if base is not None:
        Sr = str(ctx.scratch / ("ref%d" % idx))
        b = bind(base, Sr)
        materialize(b, Sr, with_init=False)
        rr = run_mockery(ctx, b, Sr)
        res["ref"] = rr
        wr = resolve(b, Sr)
        for p, q in selected(wr):
            f = os.path.join(Sr, *q["path"])
            if os.path.isfile(f):
                with open(f, "rb") as fh:
                    data = fh.read()
                contents[tuple(q["path"])] = hashlib.sha256(data).hexdigest().encode()
                ref_bytes[tuple(q["path"])] = data
        res["ref_world"] = wr
        shutil.rmtree(Sr, ignore_errors=True)
    # initial states that need the reference content: previously generated / stale generated
    for rel, how in scn.get("init_from_ref", {}).items():
        data = ref_bytes.get(tuple(rel.split("/")))
        if data is None:
            data = b"package unknown\n\n// placeholder: no reference content for this path\n"
        if how == "same":
            scn["init"][rel] = data
        elif how == "stale":
            scn["init"][rel] = data + b"\n// stale: generated by an earlier run\n"
        else:
            # longer than the new content and different from its first line on
            scn["init"][rel] = b"// Code generated by an EARLIER run, with more mocks; DO NOT EDIT.\n" + data + b"".join(
                b"\n// MockGone%d was generated for an interface that no longer exists\n" % i for i in range(12))
    S = str(ctx.scratch / ("scn%d" % idx))
    b = bind(scn, S)
    materialize(b, S)
    world = resolve(b, S)
    if scn.get("links"):
        resolve_links(world, S)
    before = snapshot(S)
    r = run_mockery(ctx, b, S)
    if r is None:
        unlock(S)
        shutil.rmtree(S, ignore_errors=True)
        res["skipped"] = "setpriv unavailable"
        return res
    unlock(S)
    after = snapshot(S)
    if scn.get("rerun") and base is not None:
        # the corrected configuration (= the valid base, overwriting allowed) in the SAME tree
        b2 = bind(dict(copy.deepcopy(base), root=dict(base["root"], **{"force-file-write": True}), cwd=scn.get("cwd", "m"), pwd=scn.get("pwd"),
                       env=scn["env"]), S)
        with open(os.path.join(S, b2.get("cwd", "m"), ".mockery.yml"), "wb") as f:
            f.write(config_bytes(b2))
        res["run2"] = run_mockery(ctx, dict(b2, ro=[]), S)
        res["after2"] = snapshot(S)
        res["world2"] = resolve(b2, S)
    # struct names present in the outputs (direct check that a mock was generated)
    present = {}
    for p, q in selected(world):
        f = os.path.join(S, *q["path"])
        txt = b""
        if os.path.isfile(f):
            with open(f, "rb") as fh:
                txt = fh.read()
        present[(q["key"], q["structname"])] = bool(re.search(rb"^type %s(\[[^\]]*\])? struct" % re.escape(q["structname"].encode()), txt, re.M))
    shutil.rmtree(S, ignore_errors=True)
    res.update({"world": world, "before": before, "after": after, "run": r, "present": present, "ref_contents": contents, "S": S})
    return res


def build_case(res):
    world = res["world"]
    sel = selected(world)
    keys = out_keys(world)
    contents, invalid = [], []
    res["unknown_content"] = 0
    for p, q in sel:
        h = None if res["scn"].get("pair") else ref_of(res, q)
        if not q["syntax_ok"] or any((not q2["syntax_ok"]) for _, q2 in sel if q2["key"] == q["key"]):
            h = None          # the probe's boom-syntax switch changes the text (written only under formatter noop)
        if h is None:
            # no reference (the valid base has no such output): the content cannot be judged,
            # everything else (exit class, which paths change) still is
            obs = res["after"].get(tuple(q["path"]))
            h = obs if isinstance(obs, bytes) and obs != res["before"].get(tuple(q["path"])) else b"<no reference content: this file cannot be produced>"
            res["unknown_content"] += 1 if isinstance(obs, bytes) and obs != res["before"].get(tuple(q["path"])) else 0
        if (q["key"], h) not in contents and q["key"] not in [k for k, _ in contents]:
            contents.append((q["key"], h))
        if not q["syntax_ok"] and q["key"] not in invalid:
            invalid.append(q["key"])
    paths = sorted(set(res["before"]) | set(res["after"]) | {tuple(q["path"]) for _, q in sel if not q["outside"]})
    before = [(list(p), n) for p, n in sorted(res["before"].items())]
    final = [(list(p), res["after"].get(p)) for p in paths]
    ro = [r.split("/") for r in res["scn"]["ro"]] + [list(q["path"]) for _, q in sel if q.get("devfull")]
    return case_term(world, before, ro, contents, invalid, keys, res["run"]["cls"], final), len(keys)


def describe(res):
    scn = res["scn"]
    d = {"packages_in_tree": scn["pkgs"], "config": (scn["raw_config"].decode(errors="replace") if scn["raw_config"] is not None else
                                                    json.loads(config_bytes(scn).decode())),
         "tags": scn["tags"], "gomod": scn["gomod"] if isinstance(scn["gomod"], str) else scn["gomod"].decode(errors="replace"),
         "extra_mods": scn["extra_mods"], "init": {k: (v if v == "DIR" else v.decode(errors="replace")[:80]) for k, v in scn["init"].items()},
         "read_only": scn["ro"], "env": scn["env"], "no_config": scn["no_config"]}
    if "run" in res:
        d["observed"] = {"exit": res["run"]["cls"], "rc": res["run"]["rc"], "diagnostic": res["run"]["diag"], "output_tail": res["run"]["tail"][-600:],
                         "changed_paths": ["/".join(p) for p in sorted(set(res["before"]) | set(res["after"])) if res["before"].get(p) != res["after"].get(p)]}
    return d


# ----------------------------------------------------------------------------------------
# generators
# ----------------------------------------------------------------------------------------
LAYOUTS = ["default", "mocksdir", "periface", "pkgoverride", "multi"]


def gen_base(rng, npk=None, layout=None, pkgs=None):
    """A valid multi-package configuration."""
    layout = layout or rng.choice(LAYOUTS)
    if pkgs is None:
        pool = ["a", "b", "c"]
        pkgs = rng.sample(pool, npk or rng.randint(2, 3))
        if rng.random() < 0.3:
            pkgs.append("uni")                      # interface names with multi-byte letters
        if rng.random() < 0.35:
            pkgs += ["r", "r/s1", "r/s2"]
        elif rng.random() < 0.2:
            pkgs += ["d/e"]
    scn = new_scn(pkgs)
    scn["layout"] = layout
    root = scn["root"]
    if rng.random() < 0.3:
        root["formatter"] = rng.choice(["gofmt", "goimports", "noop"])
    if layout == "mocksdir":
        root["dir"] = rng.choice(["mocks/{{.SrcPackageName}}", "mocks/{{.SrcPackageName}}", "m\u00f6cks/{{.SrcPackageName}}"])
        root["filename"] = rng.choice(["mocks.go", "zz_{{.SrcPackageName}}.go"])
        root["pkgname"] = "mocks"
    elif layout == "periface":
        root["filename"] = "mock_{{.InterfaceName}}_test.go"
        if rng.random() < 0.5:
            root["structname"] = rng.choice(["{{.InterfaceName}}Mock", "M\u00f6ck{{.InterfaceName}}"])
    for name in pkgs:
        if name in ("r/s1", "r/s2"):
            continue
        path = pkg_path(name.split("/")[0]) if name == "d/e" else pkg_path(name)
        ent = {"config": {}}
        mode = rng.choice(["all", "listed", "regex"]) if name not in ("r", "d/e") else "all"
        ifs = [i for f in sorted(CATALOG[name]["ifaces"]) for i in CATALOG[name]["ifaces"][f]]
        if name in ("r", "d/e"):
            ent["config"]["recursive"] = True
        if mode == "all":
            if rng.random() < 0.3 and "all" not in root:
                root["all"] = True
            else:
                ent["config"]["all"] = True
        elif mode == "listed":
            chosen = rng.sample(ifs, rng.randint(1, len(ifs)))
            ent["interfaces"] = {}
            for i in chosen:
                r = rng.random()
                if r < 0.4:
                    ent["interfaces"][i] = None
                elif r < 0.7:
                    ent["interfaces"][i] = {"config": {"structname": "Mock{{.InterfaceName}}"}}
                elif layout == "multi" or r < 0.85:
                    ent["interfaces"][i] = {"configs": [{"structname": "First{{.InterfaceName}}"},
                                                        {"structname": "Second{{.InterfaceName}}",
                                                         "filename": "second_{{.InterfaceName}}_test.go"}]}
                else:
                    ent["interfaces"][i] = {"config": {"template-data": {"unroll-variadic": rng.random() < 0.5}}}
        else:
            ent["config"]["include-interface-regex"] = rng.choice(["^[A-Z]", ".*", "1$", "^(A1|B1|C1)$"])
            if rng.random() < 0.5:
                ent["config"]["exclude-interface-regex"] = rng.choice(["2$", "^C3$", "zzz"])
        if layout == "pkgoverride" and rng.random() < 0.6:
            ent["config"]["dir"] = "{{.InterfaceDir}}/gen"
            ent["config"]["pkgname"] = "gen"
            ent["config"]["filename"] = "gen_mocks.go"
        if not ent["config"]:
            del ent["config"]
        scn["packages"][path] = ent
    if "r/s1" in pkgs and rng.random() < 0.3:
        scn["packages"][pkg_path("r/s1")] = {"config": {"structname": "Sub{{.InterfaceName}}"}}
    return scn


def unrelated_files(rng, scn):
    """files that no run may touch: next to the outputs, in the module root, outside the module"""
    out = {}
    for name in scn["pkgs"]:
        if CATALOG[name].get("absent"):
            continue
        if rng.random() < 0.5:
            out["m/%s/notes_%d.txt" % (name, rng.randint(0, 9))] = b"user notes " + str(rng.random()).encode()
    out["m/README.md"] = b"# module\n"
    out["other/keep.txt"] = b"outside the module\n"
    if rng.random() < 0.5:
        out["m/mocks/unrelated.txt"] = b"in a future output directory\n"
    return out


# ----------------------------------------------------------------------------------------
# Python mirror of has_class (coq/Cfg/Pipeline.v) - used for the oracle and the histogram
# ----------------------------------------------------------------------------------------
def sel_status(p, n):
    if p["all"] or n in p["listed"]:
        return True
    if p["include"] is None:
        return False
    if not p["include"]["valid"]:
        return None
    if n not in p["include"]["matches"]:
        return False
    if p["exclude"] is None:
        return True
    if not p["exclude"]["valid"]:
        return None
    return n not in p["exclude"]["matches"]


def governing(world):
    """{key: first selected request with that key} = the mock whose config governs the file"""
    g = {}
    for p, q in selected(world):
        g.setdefault(q["key"], q)
    return g


def req_fails(world, q, g):
    """producing the file fails because of this mock (g = the governing mock of its file)"""
    kind, found, parses = world["templates"][q["template"]]
    validates = kind == "TBuiltin" or g["require_schema"]
    return (not q["prep_ok"] or not found or (validates and not q["data_ok"]) or not parses or not q["exec_ok"]
            or (not q["syntax_ok"] and g["formatter"] != "FNoop"))


def classes_of(world):
    cl = set()
    if world["cfg"] == "CfgUnknownKey":
        cl.add("UnknownKey")
    elif world["cfg"] == "CfgBadRegex":
        cl.add("InvalidRegexWritten")
    elif world["cfg"] != "CfgOk":
        cl.add("ConfigUnreadable")
    if not world["pkgs"]:
        cl.add("NoPackages")
    for r in world["roots"]:
        for s_ in r["subs"]:
            for rx in r["exclude"]:
                if not rx["valid"]:
                    cl.add("BadRegexSubpkg")
                    break
                if s_ in rx["matches"]:
                    break
    paths_with_files = [p["path"] for p in world["pkgs"] if p["nfiles"] > 0]
    for p in world["pkgs"]:
        has_sub = any(x.startswith(p["path"] + "/") for x in paths_with_files)
        if p["nerrors"] and (p["nfiles"] > 0 or not has_sub):
            cl.add("PkgLoadError")
        names = [d["name"] for d in p["decls"]] if p["nfiles"] > 0 else []
        for n in p["listed"]:
            if n not in names:
                cl.add("ListedMissing")
        if p["nfiles"] > 0:
            for d in p["decls"]:
                if sel_status(p, d["name"]) is None:
                    cl.add("BadRegexInterface")
    sel = selected(world)
    gov = governing(world)
    bykey = {}
    for p, q in sel:
        kind, found, parses = world["templates"][q["template"]]
        g = gov[q["key"]]
        if not found:
            cl.add("UnknownTemplate" if kind == "TBuiltin" else "MissingRemoteTemplate")
        if q["formatter"] == "FUnknown":
            cl.add("UnknownFormatter")
        if q["tstatus"] == "TCyclic" or p["cfg"]["tstatus"] == "TCyclic":
            cl.add("CyclicTemplate")
        if q["tstatus"] == "TBad" or p["cfg"]["tstatus"] == "TBad":
            cl.add("BadTemplatedValue")
        if q is g and kind == "TRemote" and q["require_schema"] and not q["schema_ok"]:
            cl.add("SchemaMissing")
        if (kind == "TBuiltin" or g["require_schema"]) and not q["data_ok"]:
            cl.add("SchemaReject")
        if not parses:
            cl.add("TemplateSyntax")
        if not q["exec_ok"]:
            cl.add("TemplateExecution")
        if not q["syntax_ok"] and g["formatter"] != "FNoop":
            cl.add("InvalidGoOutput")
        if not q["prep_ok"]:
            cl.add("PrepareFailure")
        bykey.setdefault(q["key"], []).append((p, q))
    fi = world.get("fsinfo", {"dirs": set(), "files": set(), "ro": set()})
    for k, g in gov.items():
        if g["outside"] or g["tstatus"] != "TOk":
            continue
        rel = "/".join(g["path"])
        if g.get("devfull"):
            cl.add("OutputWriteFault")
        if rel in fi["dirs"]:
            cl.add("OutputIsDirectory")
        if any("/".join(g["path"][:n]) in fi["files"] for n in range(1, len(g["path"]))):
            cl.add("OutputParentIsFile")
        parent = "/".join(g["path"][:-1])
        if (parent in fi["ro"] and rel not in fi["files"] and rel not in fi["dirs"]) or (rel in fi["ro"] and rel in fi["files"] and g["force"]):
            cl.add("OutputReadOnly")
    for k, l in bykey.items():
        if len({p["path"] for p, _ in l}) > 1:
            cl.add("ConflictPackage")
        if len({q["pkgname"] for _, q in l}) > 1:
            cl.add("ConflictPkgName")
        if len({q["template"] for _, q in l}) > 1:
            cl.add("ConflictTemplate")
    return cl


# ----------------------------------------------------------------------------------------
# injections: each takes a valid base scenario and returns the mutated copy (tags = the
# failure classes it is meant to be in; checked against classes_of)
# ----------------------------------------------------------------------------------------
def pick_pkg(rng, scn, pred=lambda path, ent: True):
    c = [(p, e) for p, e in scn["packages"].items() if pred(p, e)]
    return rng.choice(c) if c else (None, None)


def name_of(path):
    return path[len(MOD) + 1:]


def ifaces_of(path):
    n = name_of(path)
    if n not in CATALOG:
        return []
    return [i for f in sorted(CATALOG[n]["ifaces"]) for i in CATALOG[n]["ifaces"][f]]


def ensure_cfg(scn, path):
    ent = scn["packages"].get(path) or {}
    ent.setdefault("config", {})
    scn["packages"][path] = ent
    return ent


def selecting(scn):
    """{package path: [selected interface names]} of a scenario (only packages named in the config)"""
    w = resolve(bind(scn, "/nonexistent"), "/nonexistent")
    out = {}
    for p, q in selected(w):
        if p["path"] in scn["packages"] and p["nerrors"] == 0:      # not a package injected as a load error
            out.setdefault(p["path"], [])
            if q["iface"] not in out[p["path"]]:
                out[p["path"]].append(q["iface"])
    return out


def level_dict(rng, scn, levels=("root", "pkg", "iface", "entry")):
    """A config dict at a random level that governs at least one selected mock:
    returns (level name, dict, package path)."""
    lv = rng.choice(levels)
    sel = selecting(scn)
    path = rng.choice(sorted(sel))
    if lv == "root":
        return lv, scn["root"], path
    ent = ensure_cfg(scn, path)
    if lv == "pkg":
        return lv, ent["config"], path
    ent.setdefault("interfaces", {})
    i = rng.choice(sel[path])
    ie = ent["interfaces"].get(i) or {}
    ent["interfaces"][i] = ie
    if lv == "iface" and not ie.get("configs"):
        ie.setdefault("config", {})
        return "iface", ie["config"], path
    if not ie.get("configs"):
        ie["configs"] = [{}, {"structname": "Other{{.InterfaceName}}", "filename": "other_{{.InterfaceName}}_test.go"}]
        if scn.get("base_ref") is not None:
            # the extra entry adds an output file: the valid base gets it too (reference content)
            bref = scn["base_ref"]
            for n in scn["pkgs"]:                      # an earlier injection may have added packages
                if n not in bref["pkgs"] and not CATALOG[n].get("absent") and not CATALOG[n].get("errors") and not CATALOG[n].get("nogo") and n != "tagged":
                    bref["pkgs"].append(n)
            if path not in bref["packages"]:
                bref["packages"][path] = copy.deepcopy({k: v for k, v in ent.items() if k != "interfaces"})
            bent = ensure_cfg(bref, path)
            if not bent["config"]:
                del bent["config"]
            bent.setdefault("interfaces", {})
            bie = bent["interfaces"].get(i) or {}
            bie["configs"] = copy.deepcopy(ie["configs"])
            bent["interfaces"][i] = bie
    e = rng.choice(ie["configs"])
    return "entry", e, path


def inj_listed_missing(rng, scn, with_all=False):
    path, ent = pick_pkg(rng, scn, (lambda p, e: ifaces_of(p)) if with_all else (lambda p, e: True))
    ent = ensure_cfg(scn, path)
    if with_all:
        # all: true (at the package or inherited from the root) together with a listed name that does
        # not exist; the selection changes, so the valid base gets the same setting
        at_pkg = rng.random() < 0.5
        for sc in [scn] + ([scn["base_ref"]] if scn.get("base_ref") is not None else []):
            e2 = ensure_cfg(sc, path)
            if at_pkg:
                e2["config"]["all"] = True
            else:
                sc["root"]["all"] = True
                e2["config"].pop("all", None)
            e2["config"].pop("include-interface-regex", None)
            e2["config"].pop("exclude-interface-regex", None)
    ent.setdefault("interfaces", {})
    ent["interfaces"][rng.choice(["Typo", "a1", "DoesNotExist", "NotIface"])] = None
    scn["tags"].append("ListedMissing")


def inj_pkg_load_error(rng, scn, fileless=False):
    name = rng.choice(["nonexist", "emptydir", "tagged"] if fileless else ["typeerr", "syntaxerr", "badimport", "nonexist", "emptydir", "tagged"])
    if name not in scn["pkgs"]:
        scn["pkgs"].append(name)
    mode = rng.choice(["all", "rootall"] if fileless else ["all", "listed", "rootall"])
    if mode == "all":
        scn["packages"][pkg_path(name)] = {"config": {"all": True}}
    elif mode == "listed":
        ifs = ifaces_of(pkg_path(name)) or ["X"]
        scn["packages"][pkg_path(name)] = {"interfaces": {ifs[0]: None}}
    else:
        scn["root"]["all"] = True
        scn["packages"][pkg_path(name)] = None
    scn["tags"].append("PkgLoadError")


def inj_unknown_template(rng, scn, levels=("root", "pkg", "iface", "entry")):
    lv, d, path = level_dict(rng, scn, levels)
    d["template"] = rng.choice(["nonsense", "Testify", "mockery", "t\u00ebstify", "\u0442estify"])
    scn["tags"].append("UnknownTemplate")
    scn["tags"].append("level:" + lv)


def inj_unknown_formatter(rng, scn, levels=("root", "pkg", "iface", "entry")):
    lv, d, path = level_dict(rng, scn, levels)
    d["formatter"] = rng.choice(["prettier", "GoFmt", "none", "g\u00f6fmt"])
    scn["tags"].append("UnknownFormatter")
    scn["tags"].append("level:" + lv)


def inj_unknown_key(rng, scn):
    key = rng.choice(["dirr", "file-name", "mockname", "inpackage", "with-expecter", "templates", "outpkg", "d\u00efr", "\u0444ormatter"])
    lv = rng.choice(["root", "pkg", "iface", "entry", "pkgentry", "ifaceentry"])
    if lv in ("pkgentry", "ifaceentry"):
        path, _ = pick_pkg(rng, scn, lambda p, e: ifaces_of(p))
        ent = scn["packages"].get(path) or {}
        scn["packages"][path] = ent
        if lv == "pkgentry":
            ent[rng.choice(["confg", "interface", "recursive"])] = {"all": True}
        else:
            ent.setdefault("interfaces", {})
            i = rng.choice(ifaces_of(path))
            ie = ent["interfaces"].get(i) or {}
            ie[rng.choice(["cfg", "structname"])] = "x"
            ent["interfaces"][i] = ie
    else:
        _, d, _ = level_dict(rng, scn, (lv,))
        d[key] = rng.choice(["x", True, 3])
    scn["cfg_status"] = "CfgUnknownKey"
    scn["tags"].append("UnknownKey")


def inj_bad_regex(rng, scn, kind=None):
    bad = rng.choice(BAD_RX[:4] + BAD_RX[5:])
    kind = kind or rng.choice(["include", "exclude", "subpkg"])
    if kind == "subpkg":
        if "r" not in scn["pkgs"]:
            scn["pkgs"] += ["r", "r/s1", "r/s2"]
        ent = ensure_cfg(scn, pkg_path("r"))
        ent["config"]["recursive"] = True
        ent["config"].setdefault("all", True)
        good = rng.sample(["zzz", "s2$", "^nomatch"], rng.randint(0, 2))
        tgt = rng.choice([scn["root"], ent["config"]])          # the list of the recursive package, or the inherited one
        tgt["exclude-subpkg-regex"] = good + [bad] + rng.sample(["s1$"], rng.randint(0, 1))
        scn["tags"].append("BadRegexSubpkg")
        return
    # a package whose selection reaches the regex: not all, with an unlisted declared interface
    path, ent = pick_pkg(rng, scn, lambda p, e: name_of(p) in ("a", "b", "c"))
    ent = ensure_cfg(scn, path)
    where = rng.choice(["root", "pkg"])
    scn["root"].pop("all", None)
    for p2, e2 in scn["packages"].items():      # keep the other packages selected as before
        if p2 != path and (e2 is None or not lvl(e2, "interfaces")) and not lvl(lvl(e2, "config"), "include-interface-regex"):
            ensure_cfg(scn, p2)["config"]["all"] = True
    ent["config"].pop("all", None)
    ent.pop("interfaces", None)
    tgt = scn["root"] if where == "root" else ent["config"]
    if kind == "include":
        ent["config"].pop("include-interface-regex", None)
        tgt["include-interface-regex"] = bad
    else:
        ent["config"]["include-interface-regex"] = ".*"
        ent["config"].pop("exclude-interface-regex", None)
        tgt["exclude-interface-regex"] = bad
    scn["tags"].append("BadRegexInterface")


def inj_cyclic(rng, scn):
    lv, d, path = level_dict(rng, scn)
    d["structname"] = rng.choice(["{{.StructName}}x", "Mock{{.StructName}}"])
    scn["tags"].append("CyclicTemplate")


def inj_bad_templated(rng, scn):
    lv, d, path = level_dict(rng, scn)
    k = rng.choice(["dir", "filename", "pkgname"])
    d[k] = rng.choice(["{{.Nope}}", "x{{.InterfaceNam}}"])
    scn["tags"].append("BadTemplatedValue")


def inj_schema_reject(rng, scn, levels=("root", "pkg", "iface", "entry")):
    lv, d, path = level_dict(rng, scn, levels)
    d["template-data"] = rng.choice([{"bogus-key": 1}, {"unroll-variadic": "yes"}, {"boilerplate-file": 3}, {"b\u00f6gus-k\u00e9y": 1}, {"unroll-variadic": "\u00fc"}])
    scn["tags"].append("SchemaReject")
    scn["tags"].append("level:" + lv)


WRONG_TYPED = [42, None, ["header.txt"], {"a": 1}, True, 1.5]


def inj_schema_wrong_type(rng, scn, level, tmpl="testify"):
    """the file-level STRING keys of the built-in schemas (boilerplate-file, mock-build-tags) given as a
    number, null, a list, a map, a boolean - both keys at once, with two different wrong types - at one
    level; at interface / configs-entry level on the FIRST selected interface of a package (its
    template-data is the file-level template-data)"""
    vals = rng.sample(WRONG_TYPED, 2)
    data = {"boilerplate-file": vals[0], "mock-build-tags": vals[1]}
    if tmpl == "matryer":
        path, ifs = shared_file(rng, scn, "a")
        for sc in [scn] + ([scn["base_ref"]] if scn.get("base_ref") is not None else []):
            sc["packages"][path]["config"]["template"] = "matryer"
        scn["packages"][path]["config"]["template-data"] = data
    elif level == "root":
        scn["root"]["template-data"] = data
    else:
        sel = selecting(scn)
        path = rng.choice(sorted(sel))
        ent = ensure_cfg(scn, path)
        if level == "pkg":
            ent["config"]["template-data"] = data
        else:
            i = sel[path][0]
            ent.setdefault("interfaces", {})
            ie = ent["interfaces"].get(i) or {}
            ent["interfaces"][i] = ie
            if level == "iface" and not ie.get("configs"):
                ie.setdefault("config", {})["template-data"] = data
            else:
                if not ie.get("configs"):
                    ie["configs"] = [{}]
                (ie["configs"][0] if ie["configs"][0] is not None else ie["configs"].__setitem__(0, {}) or ie["configs"][0])["template-data"] = data
    scn["tags"] += ["SchemaReject", "level:wrong-type-%s-%s" % (tmpl, level)]


def inj_schema_reject_later(rng, scn):
    """the violation sits only on a mock that is NOT the first of its file; nothing at root or
    package level (the file-level template-data is then empty)"""
    path = two_ifaces_pkg(rng, scn)
    ent = ensure_cfg(scn, path)
    ifs = ifaces_of(path)
    ent["config"]["all"] = True
    ent["config"].pop("include-interface-regex", None)
    ent["config"].pop("template-data", None)
    scn["root"].pop("template-data", None)
    ent["config"]["filename"] = "shared_file_test.go"
    bad = rng.choice([{"bogus-key": 1}, {"unroll-variadic": "yes"}])
    how = rng.choice(["iface", "entry"])
    last = ifs[-1]
    if how == "iface":
        ent["interfaces"] = {last: {"config": {"template-data": bad}}}
    else:
        ent["interfaces"] = {last: {"configs": [{"structname": "Plain{{.InterfaceName}}"},
                                                 {"structname": "Odd{{.InterfaceName}}", "template-data": bad}]}}
    scn["tags"].append("SchemaReject")
    scn["tags"].append("level:later-" + how)


def inj_schema_required(rng, scn):
    """a template whose schema requires a key, and no template-data anywhere"""
    lv, d, path = level_dict(rng, scn, ("root", "pkg"))
    d["template"] = "file://@S@/tpl/c10_req.templ"
    # no template-data anywhere - in the valid base too (it shapes the content of the other files)
    for sc in [scn] + ([scn["base_ref"]] if scn.get("base_ref") is not None else []):
        for dd in [sc["root"]] + [lvl(e, "config") for e in sc["packages"].values()]:
            if dd:
                dd.pop("template-data", None)
        for e in sc["packages"].values():
            for i, ie in (lvl(e, "interfaces") or {}).items():
                for c in [lvl(ie, "config")] + list(lvl(ie, "configs") or []):
                    if c and "template-data" in c:
                        del c["template-data"]
    scn["tags"].append("SchemaReject")
    scn["tags"].append("level:required-no-data")


def inj_conflict_pkg(rng, scn):
    ps = sorted(selecting(scn))
    if len(ps) < 2:
        scn["pkgs"].append("b" if pkg_path("b") not in scn["packages"] else "a")
        scn["packages"][pkg_path(scn["pkgs"][-1])] = {"config": {"all": True}}
        ps = sorted(selecting(scn))
    a, b = rng.sample(ps, 2)
    for p in (a, b):
        c = ensure_cfg(scn, p)["config"]
        c["dir"] = "out/shared"
        c["filename"] = "all_mocks.go"
        c["pkgname"] = "shared"
    scn["tags"].append("ConflictPackage")


def two_ifaces_pkg(rng, scn):
    for name in ("a", "c"):
        if pkg_path(name) not in scn["packages"]:
            continue
        return pkg_path(name)
    scn["pkgs"].append("a")
    scn["packages"][pkg_path("a")] = {"config": {"all": True}}
    return pkg_path("a")


def inj_conflict_pkgname(rng, scn):
    path = two_ifaces_pkg(rng, scn)
    ent = ensure_cfg(scn, path)
    ifs = ifaces_of(path)
    ent["config"]["all"] = True
    ent["config"].pop("include-interface-regex", None)
    ent["config"]["filename"] = "same_file_test.go"
    ent["interfaces"] = {ifs[0]: {"config": {"pkgname": "otherpkg", "filename": "same_file_test.go"}}}
    scn["tags"].append("ConflictPkgName")


def inj_conflict_template(rng, scn):
    path = two_ifaces_pkg(rng, scn)
    ent = ensure_cfg(scn, path)
    ifs = ifaces_of(path)
    ent["config"]["all"] = True
    ent["config"].pop("include-interface-regex", None)
    ent["config"]["filename"] = "same_file_test.go"
    ent["interfaces"] = {ifs[0]: {"config": {"template": "matryer", "filename": "same_file_test.go"}}}
    scn["tags"].append("ConflictTemplate")


def inj_config_unreadable(rng, scn):
    k = rng.choice(["yaml", "type", "missing", "scalar"])
    if k == "yaml":
        scn["raw_config"] = b"packages:\n  example.com/m/a:\n\t- oops: [\n"
        scn["cfg_status"] = "CfgBadYaml"
    elif k == "scalar":
        scn["raw_config"] = b"just a string\n"
        scn["cfg_status"] = "CfgBadYaml"
    elif k == "type":
        scn["root"][rng.choice(["all", "force-file-write"])] = {"nested": [1, 2]}
        scn["cfg_status"] = "CfgBadType"
    else:
        scn["no_config"] = True
        scn["cfg_status"] = "CfgNotFound"
    scn["tags"].append("ConfigUnreadable")


def inj_no_packages(rng, scn):
    scn["packages"] = {}
    scn["tags"].append("NoPackages")


def use_trap(scn, path=None):
    d = scn["root"] if path is None else ensure_cfg(scn, path)["config"]
    d["template"] = "file://@S@/tpl/c10_trap.templ"
    # the builtin templates' template-data keys are not in the probe's schema
    for p, e in scn["packages"].items():
        if path is not None and p != path:
            continue          # other packages keep their template and their data (and their content)
        for i, ie in (lvl(e, "interfaces") or {}).items():
            for c in [lvl(ie, "config")] + list(lvl(ie, "configs") or []):
                if c and "template-data" in c:
                    del c["template-data"]


def inj_missing_remote(rng, scn, levels=("root", "pkg", "iface", "entry")):
    lv, d, path = level_dict(rng, scn, levels)
    d["template"] = "file://@S@/tpl/does_not_exist.templ"
    scn["tags"].append("MissingRemoteTemplate")
    scn["tags"].append("level:" + lv)


def inj_schema_missing(rng, scn):
    lv, d, path = level_dict(rng, scn, ("root", "pkg"))
    use_trap(scn, None if lv == "root" else path)
    d["template-schema"] = "file://@S@/tpl/no_such_schema.json"
    scn["tags"].append("SchemaMissing")


def inj_template_syntax(rng, scn, levels=("root", "pkg", "iface", "entry")):
    lv, d, path = level_dict(rng, scn, levels)
    d["template"] = "file://@S@/tpl/c10_badsyntax.templ"
    d["require-template-schema-exists"] = False
    scn["tags"].append("TemplateSyntax")
    scn["tags"].append("level:" + lv)


def inj_exec_failure(rng, scn):
    use_trap(scn)
    lv, d, path = level_dict(rng, scn, ("iface", "entry"))
    d["template-data"] = {rng.choice(["boom-read", "boom-index"]): True}
    scn["tags"].append("TemplateExecution")


def inj_invalid_go(rng, scn):
    use_trap(scn)
    if scn["root"].get("formatter", "goimports") not in ("gofmt", "goimports"):
        # the formatter shapes the content of every file: the valid base must use the same one
        scn["root"]["formatter"] = scn["base_ref"]["root"]["formatter"] = rng.choice(["gofmt", "goimports"])
    lv, d, path = level_dict(rng, scn, ("iface", "entry"))
    d["template-data"] = {"boom-syntax": True}
    scn["tags"].append("InvalidGoOutput")


def inj_prepare_failure(rng, scn):
    """replace-type whose target does not exist, on the one interface that has a parameter of
    the replaced type (b.B1: context.Context)"""
    if "b" not in scn["pkgs"]:
        scn["pkgs"].append("b")
    ent = ensure_cfg(scn, pkg_path("b"))
    if not ent["config"]:
        del ent["config"]
    ent.setdefault("interfaces", {})
    ie = ent["interfaces"].get("B1") or {}
    ent["interfaces"]["B1"] = ie
    tgt = ie.setdefault("config", {}) if not ie.get("configs") else ie["configs"][0]
    tgt["replace-type"] = {"context": {"Context": {"pkg-path": "example.com/m/does/not/exist", "type-name": "X"}}}
    scn["tags"].append("PrepareFailure")


# ---- "a later occurrence after a valid first one": the bad value sits on the LAST mock of a file that
# ---- several mocks share (caches, first-only checks) --------------------------------------------------
def shared_file(rng, scn, name=None, n=None):
    """Make package a (2 interfaces) or c (3) write all its mocks into one file, in the scenario and
    in its valid base; returns (package path, interface names in discovery order)."""
    name = name or rng.choice(["a", "c"])
    path = pkg_path(name)
    for sc in [scn] + ([scn["base_ref"]] if scn.get("base_ref") is not None else []):
        if name not in sc["pkgs"]:
            sc["pkgs"].append(name)
        ent = ensure_cfg(sc, path)
        ent["config"]["all"] = True
        for k in ("include-interface-regex", "exclude-interface-regex", "template-data"):
            ent["config"].pop(k, None)
        ent["config"]["filename"] = "shared_file_test.go"
        ent["interfaces"] = {}
        sc["root"].pop("template-data", None)
    return path, ifaces_of(path)


def later(field, values, tag, trap=False, entry=False):
    def inj(rng, scn):
        if trap:
            use_trap(scn)
        path, ifs = shared_file(rng, scn)
        v = rng.choice(values)
        v = v(rng) if callable(v) else v
        ent = scn["packages"][path]
        if entry:
            ent["interfaces"][ifs[-1]] = {"configs": [{"structname": "Plain{{.InterfaceName}}"}, {"structname": "Odd{{.InterfaceName}}", field: v}]}
            bent = scn["base_ref"]["packages"][path] if scn.get("base_ref") is not None else None
            if bent is not None:
                bent["interfaces"][ifs[-1]] = {"configs": [{"structname": "Plain{{.InterfaceName}}"}, {"structname": "Odd{{.InterfaceName}}"}]}
        else:
            ent["interfaces"][ifs[-1]] = {"config": {field: v}}
        scn["tags"].append(tag)
        scn["tags"].append("level:later-" + ("entry" if entry else "iface"))
    return inj


LOOKALIKES = [("testify", "unroll-variadic", False, "false"), ("testify", "unroll-variadic", True, "true"),
              ("testify", "mock-build-tags", "3", 3),
              ("matryer", "with-resets", True, "true"), ("matryer", "skip-ensure", False, "false"), ("matryer", "stub-impl", True, "true")]


def inj_schema_lookalike(rng, scn):
    """two mocks of one file whose template-data documents PRINT identically but differ in JSON
    type: the valid one first, the ill-typed one (a string for a boolean, a number for a string) on
    the later mock; under the embedded testify / matryer schemas"""
    tmpl, key, good, bad = rng.choice(LOOKALIKES)
    path, ifs = shared_file(rng, scn, "a" if tmpl == "matryer" else None)
    how = rng.choice(["inherit-override", "two-entries", "two-ifaces"])
    for sc, later_v in [(scn, bad)] + ([(scn["base_ref"], good)] if scn.get("base_ref") is not None else []):
        ent = sc["packages"][path]
        ent["config"]["template"] = tmpl
        if how == "inherit-override":
            ent["config"]["template-data"] = {key: good}             # inherited by the first mocks
            ent["interfaces"] = {ifs[-1]: {"config": {"template-data": {key: later_v}}}}
        elif how == "two-entries":
            ent["interfaces"] = {ifs[0]: {"configs": [{"structname": "Plain{{.InterfaceName}}", "template-data": {key: good}},
                                                       {"structname": "Odd{{.InterfaceName}}", "template-data": {key: later_v}}]}}
        else:
            ent["interfaces"] = {ifs[0]: {"config": {"template-data": {key: good}}}, ifs[-1]: {"config": {"template-data": {key: later_v}}}}
    scn["tags"].append("SchemaReject")
    scn["tags"].append("level:lookalike-" + how)


# ---- ListedMissing in the shapes where nothing unlisted is left in the package ------------------------
def inj_listed_stale(rng, scn):
    """every interface the package declares is listed, plus one stale name"""
    name = rng.choice(["a", "b", "c"])
    path = pkg_path(name)
    for sc in [scn] + ([scn["base_ref"]] if scn.get("base_ref") is not None else []):
        if name not in sc["pkgs"]:
            sc["pkgs"].append(name)
        sc["packages"][path] = {"interfaces": {i: None for i in ifaces_of(path)}}
    scn["packages"][path]["interfaces"][rng.choice(["Removed", "OldName", ifaces_of(path)[0] + "x"])] = None
    scn["tags"].append("ListedMissing")
    scn["tags"].append("level:stale-all-listed")


def inj_listed_noifaces(rng, scn):
    """a package that declares no interface at all (constants, structs, functions) + a listed name"""
    name = rng.choice(["consts", "nodecl", "onlytest"])
    scn["pkgs"].append(name)
    scn["packages"][pkg_path(name)] = {"interfaces": {rng.choice(["K", "Reader", "T"]): None}}
    scn["tags"].append("ListedMissing")
    scn["tags"].append("level:no-interfaces")


def inj_listed_fileless_parent(rng, scn):
    """a directory-only recursive root (skipped by the parser) with a listed name"""
    for sc in [scn] + ([scn["base_ref"]] if scn.get("base_ref") is not None else []):
        if "d/e" not in sc["pkgs"]:
            sc["pkgs"].append("d/e")
        sc["packages"][pkg_path("d")] = {"config": {"recursive": True, "all": True}}
    scn["packages"][pkg_path("d")]["interfaces"] = {rng.choice(["E1", "D1"]): None}
    scn["tags"].append("ListedMissing")
    scn["tags"].append("level:fileless-parent")


def inj_listed_unicode(rng, scn):
    """a listed interface that does not exist (ASCII and non-ASCII spellings) in a package whose
    declared interfaces have multi-byte letters in their names"""
    path = pkg_path("uni")
    ifs = ifaces_of(path)
    how = rng.choice(["all", "listed", "listed-all"])
    for sc in [scn] + ([scn["base_ref"]] if scn.get("base_ref") is not None else []):
        if "uni" not in sc["pkgs"]:
            sc["pkgs"].append("uni")
        if how == "all":
            sc["packages"][path] = {"config": {"all": True}, "interfaces": {}}
        elif how == "listed":
            sc["packages"][path] = {"interfaces": {i: None for i in ifs[:2]}}
        else:
            sc["packages"][path] = {"interfaces": {i: None for i in ifs}}
    for n in rng.sample(["Missing", "\u00dcberwachr", "\u03a9mega", "Gr\u00f6sse", "I\u00f1t\u00ebrfac\u00e9", "\u00fcberwacher"], rng.randint(1, 3)):
        scn["packages"][path]["interfaces"][n] = None
    scn["tags"].append("ListedMissing")
    scn["tags"].append("level:unicode-" + how)


def inj_listed_multi(rng, scn):
    """several missing names at once, in two packages"""
    ps = [p for p in scn["packages"]]
    for path in rng.sample(ps, min(2, len(ps))):
        ent = ensure_cfg(scn, path)
        if not ent["config"]:
            del ent["config"]
        ent.setdefault("interfaces", {})
        for n in rng.sample(["Typo", "Gone", "a1", "Zz", "NotIface"], rng.randint(2, 3)):
            ent["interfaces"][n] = None
    scn["tags"].append("ListedMissing")
    scn["tags"].append("level:multi")


def inj_bad_regex_unread(rng, scn, how):
    """an invalid regular expression in a place where the run never consults it"""
    bad = rng.choice(BAD_RX[:4] + BAD_RX[5:])
    if how == "subpkg-leaf":
        # recursive: true on a package without sub-packages (in-package mocks: no directory of an earlier
        # run counts as one), the invalid exclude-subpkg-regex on the package or inherited from the root
        path = rng.choice(sorted(p for p in selecting(scn) if name_of(p) in ("a", "b", "c", "uni")) or [None])
        if path is None:
            raise IndexError("no leaf package")
        ent = ensure_cfg(scn, path)
        ent["config"]["recursive"] = True
        tgt = rng.choice([scn["root"], ent["config"]])
        tgt["exclude-subpkg-regex"] = rng.sample(["zzz", "^nomatch"], rng.randint(0, 1)) + [bad]
    elif how == "no-ifaces":
        name = rng.choice(["consts", "nodecl"])
        scn["pkgs"].append(name)
        c = {"include-interface-regex": bad} if rng.random() < 0.5 else {"include-interface-regex": ".*", "exclude-interface-regex": bad}
        scn["packages"][pkg_path(name)] = {"config": c}
    elif how == "all-true":
        path = rng.choice(sorted(selecting(scn)))
        ent = ensure_cfg(scn, path)
        ent["config"]["all"] = True
        ent["config"][rng.choice(["include-interface-regex", "exclude-interface-regex"])] = bad
    elif how == "not-recursive":
        scn["root"]["exclude-subpkg-regex"] = [bad]
        scn["root"].pop("recursive", None)
        for e in scn["packages"].values():
            if lvl(lvl(e, "config"), "recursive"):
                e["config"]["recursive"] = False
    else:  # below the package level, where these settings mean nothing
        lv, d, path = level_dict(rng, scn, ("iface", "entry"))
        d[rng.choice(["include-interface-regex", "exclude-interface-regex"])] = bad
    scn["tags"] += ["InvalidRegexWritten", "level:unread-" + how]


def inj_bad_regex_later_pkg(rng, scn):
    """the invalid regex only on the package that comes last (by path); the earlier ones are fine"""
    cands = sorted(p for p in scn["packages"] if name_of(p) in ("a", "b", "c"))
    path = cands[-1]
    ent = ensure_cfg(scn, path)
    scn["root"].pop("all", None)
    for p2, e2 in scn["packages"].items():
        if p2 != path and (e2 is None or not lvl(e2, "interfaces")) and not lvl(lvl(e2, "config"), "include-interface-regex"):
            ensure_cfg(scn, p2)["config"]["all"] = True
    ent["config"].pop("all", None)
    ent.pop("interfaces", None)
    if rng.random() < 0.5:
        ent["config"]["include-interface-regex"] = rng.choice(BAD_RX[:4])
    else:
        ent["config"]["include-interface-regex"] = ".*"
        ent["config"]["exclude-interface-regex"] = rng.choice(BAD_RX[:4])
    scn["tags"].append("BadRegexInterface")
    scn["tags"].append("level:later-package")


def inj_conflict_same_name(rng, scn, same_iface=False):
    """two DISTINCT source packages with the same package name (with or without a same-named
    interface), same output file, same pkgname and template: the source package PATHS differ"""
    # same_iface: only the interface that both packages declare under the same name is selected
    pair = ("x/store", "y/store") if same_iface else rng.choice([("x/store", "y/store"), ("v1/api", "v2/api")])
    how = "listed" if same_iface else rng.choice(["all", "listed"])
    for name in pair:
        if name not in scn["pkgs"]:
            scn["pkgs"].append(name)
        cfg = {"dir": "out/shared", "filename": "all_mocks.go", "pkgname": "shared"}
        if how == "all":
            scn["packages"][pkg_path(name)] = {"config": dict(cfg, all=True)}
        else:
            scn["packages"][pkg_path(name)] = {"config": cfg, "interfaces": {ifaces_of(pkg_path(name))[0]: None}}
    scn["tags"].append("ConflictPackage")
    scn["tags"].append("level:same-package-name-" + pair[0].split("/")[-1])


def inj_conflict_pkg_third(rng, scn):
    """two mocks of package a, then one of package b, all for the same file"""
    for name in ("a", "b"):
        if name not in scn["pkgs"]:
            scn["pkgs"].append(name)
        scn["packages"][pkg_path(name)] = {"config": {"all": True, "dir": "out/shared", "filename": "all_mocks.go", "pkgname": "shared"}}
    scn["tags"].append("ConflictPackage")
    scn["tags"].append("level:later-third")


def output_names(scn):
    """{relpath of an output file below the scenario root: governing request} of a scenario"""
    w = resolve(bind(scn, "/S"), "/S")
    return {"/".join(q["path"]): q for k, q in governing(w).items() if not q["outside"] and q["tstatus"] == "TOk"}


def inj_write_fails_dir(rng, scn):
    """a directory occupies an output path; force-file-write true or false: the file cannot be
    written either way, the other files of the run are fine"""
    scn["root"]["force-file-write"] = rng.random() < 0.7
    rel = rng.choice(sorted(output_names(scn)))
    scn["init"][rel] = "DIR"
    scn["init"][rel + "/keep.txt"] = b"inside the directory that occupies the output path\n"
    scn["tags"] += ["OutputIsDirectory", "level:force-%s" % scn["root"]["force-file-write"]]


def inj_write_fails_parent_file(rng, scn):
    """a regular file stands where a parent directory of the output should be"""
    path = rng.choice(sorted(selecting(scn)))
    for sc in [scn] + ([scn["base_ref"]] if scn.get("base_ref") is not None else []):
        c = ensure_cfg(sc, path)["config"]
        c["dir"] = "gen/{{.SrcPackageName}}/deep"
        c["filename"] = "mocks.go"
        c["pkgname"] = "deep"
        for ie in (lvl(sc["packages"][path], "interfaces") or {}).values():
            for cc in [lvl(ie, "config")] + list(lvl(ie, "configs") or []):
                if cc:
                    for k in ("dir", "pkgname"):
                        cc.pop(k, None)
    scn["init"][rng.choice(["m/gen", "m/gen/" + pkg_goname(name_of(path))])] = b"a regular file, not a directory\n"
    scn["tags"] += ["OutputParentIsFile"]


DEVFULL_NAME = "verif-private-devfull"
DEVFULL = {"path": None, "tried": False}


def devfull_ok():
    """A PRIVATE character device (1,7) = a copy of /dev/full in the harness's own directory: every write
    to it fails with ENOSPC.  The real /dev/full is never opened or linked to (a changed mockery that
    removes or replaces what an output path points to must not be able to damage the system, and an
    open(..., 'w') of a missing /dev/full would create a regular file there).  None if the device cannot
    be made (not root, nodev mount): the write-fault scenarios are then not generated."""
    if not DEVFULL["tried"]:
        DEVFULL["tried"] = True
        d = tempfile.mkdtemp(prefix="vf-devfull-", dir=os.environ.get("VERIF_SCRATCH", "/tmp"))
        p_ = os.path.join(d, DEVFULL_NAME)
        try:
            os.mknod(p_, 0o666 | stat.S_IFCHR, os.makedev(1, 7))
            os.chmod(p_, 0o666)
            fd = os.open(p_, os.O_WRONLY)
            try:
                os.write(fd, b"x")
            except OSError as e:
                if e.errno == 28:
                    DEVFULL["path"] = p_
            finally:
                os.close(fd)
        except OSError:
            pass
        if DEVFULL["path"] is None:
            shutil.rmtree(d, ignore_errors=True)
        else:
            import atexit
            atexit.register(shutil.rmtree, d, True)
    return DEVFULL["path"] is not None


def inj_write_fault(rng, scn):
    """the output path is a symbolic link to /dev/full: it can be opened, the write itself fails
    (no space left on device); the other files of the run are valid"""
    if not devfull_ok():
        raise IndexError("no private full device available")
    path = rng.choice(sorted(selecting(scn)))
    # not inside a source package directory (go list would read the link)
    for sc in [scn] + ([scn["base_ref"]] if scn.get("base_ref") is not None else []):
        c = ensure_cfg(sc, path)["config"]
        c["dir"] = "gen/{{.SrcPackageName}}"
        c["pkgname"] = "gen"
        for ie in (lvl(sc["packages"][path], "interfaces") or {}).values():
            for cc in [lvl(ie, "config")] + list(lvl(ie, "configs") or []):
                if cc:
                    for k in ("dir", "pkgname"):
                        cc.pop(k, None)
    scn["root"]["force-file-write"] = rng.random() < 0.75
    for e in scn["packages"].values():
        if lvl(lvl(e, "config"), "force-file-write") is not None:
            del e["config"]["force-file-write"]
    names = [r for r, q in output_names(scn).items() if r.startswith("m/gen/")]
    scn["links"][rng.choice(sorted(names))] = "@DEVFULL@"
    scn["tags"] += ["OutputWriteFault", "level:force-%s" % scn["root"]["force-file-write"]]


def inj_write_fails_readonly(rng, scn):
    """the directory that should receive a new output file is read-only"""
    names = output_names(scn)
    cands = sorted(r for r in names if r.rsplit("/", 1)[0] in ("m/" + n for n in scn["pkgs"]))
    if not cands:
        raise IndexError("no output in a source directory")
    rel = rng.choice(cands)
    scn["ro"].append(rel.rsplit("/", 1)[0])
    scn["tags"] += ["OutputReadOnly"]


def at(fn, *levels):
    return lambda rng, scn: fn(rng, scn, levels)


INJECTIONS = {
    "ListedMissing": inj_listed_missing, "ListedMissingAll": lambda rng, scn: inj_listed_missing(rng, scn, True),
    "ListedMissingStale": inj_listed_stale, "ListedMissingNoIfaces": inj_listed_noifaces,
    "ListedMissingFilelessParent": inj_listed_fileless_parent, "ListedMissingMulti": inj_listed_multi,
    "ListedMissingUnicode": inj_listed_unicode,
    "SchemaRejectLookalike": inj_schema_lookalike,
    "UnknownTemplateLater": later("template", ["nonsense", "Testify"], "UnknownTemplate"),
    "UnknownFormatterLater": later("formatter", ["prettier", "GoFmt"], "UnknownFormatter"),
    "UnknownFormatterLaterEntry": later("formatter", ["prettier"], "UnknownFormatter", entry=True),
    "CyclicLater": later("structname", ["{{.StructName}}x"], "CyclicTemplate"),
    "BadTemplatedLater": later("pkgname", ["{{.Nope}}"], "BadTemplatedValue", entry=True),
    "ConflictPkgNameThird": later("pkgname", ["otherpkg"], "ConflictPkgName"),
    "ConflictTemplateThird": later("template", ["matryer"], "ConflictTemplate"),
    "ConflictPackageThird": inj_conflict_pkg_third, "ConflictPackageSameName": inj_conflict_same_name,
    "ConflictPackageSameNameSameIface": lambda rng, scn: inj_conflict_same_name(rng, scn, True),
    "TemplateExecutionLater": later("template-data", [{"boom-read": True}, {"boom-index": True}], "TemplateExecution", trap=True),
    "InvalidGoOutputLater": later("template-data", [{"boom-syntax": True}], "InvalidGoOutput", trap=True, entry=True),
    "BadRegexLaterPkg": inj_bad_regex_later_pkg,
    "BadRegexSubpkgLeaf": lambda rng, scn: inj_bad_regex_unread(rng, scn, "subpkg-leaf"),
    "BadRegexNoIfaces": lambda rng, scn: inj_bad_regex_unread(rng, scn, "no-ifaces"),
    "BadRegexAllTrue": lambda rng, scn: inj_bad_regex_unread(rng, scn, "all-true"),
    "BadRegexNotRecursive": lambda rng, scn: inj_bad_regex_unread(rng, scn, "not-recursive"),
    "BadRegexBelowPackage": lambda rng, scn: inj_bad_regex_unread(rng, scn, "below-package"),
    "WriteFailsDir": inj_write_fails_dir, "WriteFailsParentFile": inj_write_fails_parent_file,
    "WriteFailsReadOnly": inj_write_fails_readonly, "WriteFaultDevFull": inj_write_fault,
    "PkgLoadError": inj_pkg_load_error,
    "PkgLoadErrorFileless": lambda rng, scn: inj_pkg_load_error(rng, scn, True),
    "UnknownTemplateRootPkg": at(inj_unknown_template, "root", "pkg"), "UnknownTemplateIface": at(inj_unknown_template, "iface"),
    "UnknownTemplateEntry": at(inj_unknown_template, "entry"),
    "UnknownFormatterRootPkg": at(inj_unknown_formatter, "root", "pkg"), "UnknownFormatterIface": at(inj_unknown_formatter, "iface"),
    "UnknownFormatterEntry": at(inj_unknown_formatter, "entry"),
    "UnknownKey": inj_unknown_key,
    "BadRegexInclude": lambda rng, scn: inj_bad_regex(rng, scn, "include"),
    "BadRegexExclude": lambda rng, scn: inj_bad_regex(rng, scn, "exclude"),
    "BadRegexSubpkg": lambda rng, scn: inj_bad_regex(rng, scn, "subpkg"),
    "CyclicTemplate": inj_cyclic, "BadTemplatedValue": inj_bad_templated,
    "SchemaRejectRoot": at(inj_schema_reject, "root"), "SchemaRejectPkg": at(inj_schema_reject, "pkg"),
    "SchemaRejectIface": at(inj_schema_reject, "iface"), "SchemaRejectEntry": at(inj_schema_reject, "entry"),
    "SchemaRejectLater": inj_schema_reject_later, "SchemaRequired": inj_schema_required,
    "SchemaWrongTypeRoot": lambda rng, scn: inj_schema_wrong_type(rng, scn, "root"),
    "SchemaWrongTypePkg": lambda rng, scn: inj_schema_wrong_type(rng, scn, "pkg"),
    "SchemaWrongTypeIface": lambda rng, scn: inj_schema_wrong_type(rng, scn, "iface"),
    "SchemaWrongTypeEntry": lambda rng, scn: inj_schema_wrong_type(rng, scn, "entry"),
    "SchemaWrongTypeMatryer": lambda rng, scn: inj_schema_wrong_type(rng, scn, "pkg", "matryer"),
    "ConflictPackage": inj_conflict_pkg, "ConflictPkgName": inj_conflict_pkgname, "ConflictTemplate": inj_conflict_template,
    "ConfigUnreadable": inj_config_unreadable, "NoPackages": inj_no_packages, "MissingRemoteTemplate": inj_missing_remote, "MissingRemoteTemplateRootPkg": at(inj_missing_remote, "root", "pkg"),
    "SchemaMissing": inj_schema_missing, "TemplateSyntax": inj_template_syntax,
    "TemplateSyntaxRootPkg": at(inj_template_syntax, "root", "pkg"), "TemplateExecution": inj_exec_failure,
    "InvalidGoOutput": inj_invalid_go, "PrepareFailure": inj_prepare_failure,
}
TRAP_KINDS = {"TemplateExecution", "InvalidGoOutput", "TemplateExecutionLater", "InvalidGoOutputLater"}      # the valid base already uses the probe template
FAIL_CLASSES = {"ListedMissing", "PkgLoadError", "UnknownTemplate", "MissingRemoteTemplate", "UnknownFormatter",
                "ConfigUnreadable", "UnknownKey", "BadRegexSubpkg", "BadRegexInterface", "CyclicTemplate", "BadTemplatedValue",
                "SchemaMissing", "SchemaReject", "TemplateSyntax", "TemplateExecution", "InvalidGoOutput", "PrepareFailure",
                "ConflictPackage", "ConflictPkgName", "ConflictTemplate", "NoPackages",
                "OutputIsDirectory", "OutputParentIsFile", "OutputReadOnly", "OutputWriteFault", "InvalidRegexWritten"}

# ---- valid but unusual inputs ----
GOMOD_SPELLINGS = [
    ("tab", "module\t%s\n\ngo 1.23\n\nrequire github.com/stretchr/testify v1.10.0\n" % MOD),
    ("tabs-spaces", "module \t  %s  \t\n\ngo 1.23\n\nrequire github.com/stretchr/testify v1.10.0\n" % MOD),
    ("quoted", "module \"%s\"\n\ngo 1.23\n\nrequire github.com/stretchr/testify v1.10.0\n" % MOD),
    ("comment", "module %s // the module\n\ngo 1.23\n\nrequire github.com/stretchr/testify v1.10.0\n" % MOD),
    ("comment-nospace", "module %s//x\n\ngo 1.23\n\nrequire github.com/stretchr/testify v1.10.0\n" % MOD),
    ("block", "module (\n\t%s\n)\n\ngo 1.23\n\nrequire github.com/stretchr/testify v1.10.0\n" % MOD),
    ("block-quoted-comments", "// leading\n\nmodule ( // open\n\n\t// inside\n\t\"%s\" // path\n\n) // close\n\ngo 1.23\n\nrequire (\n\tgithub.com/stretchr/testify v1.10.0\n)\n" % MOD),
    ("leading-comments", "// Copyright\n// module fake/path\n\n// Deprecated: no\nmodule %s\n\ngo 1.23\n\nrequire github.com/stretchr/testify v1.10.0\n" % MOD),
    ("crlf", "module %s\r\n\r\ngo 1.23\r\n\r\nrequire github.com/stretchr/testify v1.10.0\r\n" % MOD),
    ("indented", "  module %s\n\ngo 1.23\n\nrequire github.com/stretchr/testify v1.10.0\n" % MOD),
    ("module-last", "go 1.23\n\nrequire github.com/stretchr/testify v1.10.0\n\nmodule %s\n" % MOD),
]


def unusual(rng, kind, i=0):
    """valid-but-unusual inputs: the run must not crash (and, with the repairs, succeeds)"""
    if kind == "gomod":
        scn = gen_base(rng, layout=rng.choice(["default", "mocksdir", "periface"]))
        name, text = GOMOD_SPELLINGS[i % len(GOMOD_SPELLINGS)]
        scn["gomod"] = text
        scn["tags"].append("gomod:" + name)
        return scn
    if kind == "nestedmod":
        # the output directory lives in its own module whose go.mod is spelled unusually
        scn = gen_base(rng, layout="default", pkgs=rng.sample(["a", "b", "c"], 2))
        name, text = rng.choice(GOMOD_SPELLINGS + [("nomodule", "go 1.23\n"), ("empty", ""), ("garbage", "module (\n x\n"), ("two", "module a\nmodule b\n")])
        text = text.replace(MOD, "example.com/mocksmod").replace("\nrequire github.com/stretchr/testify v1.10.0", "").replace("require (\n\tgithub.com/stretchr/testify v1.10.0\n)\n", "")
        scn["extra_mods"]["mocksmod"] = text
        scn["root"]["dir"] = "mocksmod/{{.SrcPackageName}}"
        scn["root"]["filename"] = "mocks.go"
        scn["root"]["pkgname"] = "mocks"
        scn["tags"].append("nestedmod:" + name)
        scn["nested_ok"] = name not in ("nomodule", "empty", "garbage", "two")
        return scn
    if kind == "nogomod":
        scn = gen_base(rng, layout="default", pkgs=rng.sample(["a", "b", "c"], 2))
        path, _ = pick_pkg(rng, scn)
        ensure_cfg(scn, path)["config"]["dir"] = "../outside/{{.SrcPackageName}}"
        ensure_cfg(scn, path)["config"]["pkgname"] = "outside"
        scn["tags"].append("nogomod")
        return scn
    if kind == "funclocal":
        # types declared in function bodies, a blank type declaration, `type FL2 FL1`
        scn = gen_base(rng, layout=rng.choice(["default", "periface"]), pkgs=rng.sample(["a", "b", "c"], 2))
        scn["pkgs"].append("funclocal")
        scn["packages"][pkg_path("funclocal")] = rng.choice([{"config": {"all": True}}, {"interfaces": {"FL1": None, "FL2": None}},
                                                             {"config": {"include-interface-regex": "^FL"}}])
        scn["tags"].append("unusual:funclocal")
        return scn
    if kind == "anchors":
        scn = gen_base(rng)
        scn["root"]["_anchors"] = rng.choice([{"a": 1}, {"shared": {"all": True}}, {}])
        scn["tags"].append("unusual:anchors")
        return scn
    if kind == "nestedrec":
        # two nested recursive packages: n/q/r takes n/q's settings, n/z takes n's
        scn = gen_base(rng, layout="default", pkgs=rng.sample(["a", "b"], 1))
        scn["pkgs"] += ["n", "n/q", "n/q/r", "n/z"]
        scn["packages"][pkg_path("n")] = {"config": {"recursive": True, "all": True, "structname": "N{{.InterfaceName}}"}}
        scn["packages"][pkg_path("n/q")] = {"config": {"recursive": True, "all": True, "structname": "Q{{.InterfaceName}}"}}
        if rng.random() < 0.5:
            scn["packages"][pkg_path("n")]["config"]["exclude-subpkg-regex"] = ["/z$"]
        scn["tags"].append("unusual:nestedrec")
        return scn
    if kind == "nullconfigs":
        # a null entry in `configs` stands for "no overrides" (like a null package or interface entry)
        scn = gen_base(rng, layout="default", pkgs=["a", "b"])
        scn["packages"][pkg_path("a")] = {"interfaces": {"A1": {"configs": rng.choice([[None], [None, {"structname": "Second{{.InterfaceName}}", "filename": "second_test.go"}]])},
                                                         "A2": None}}
        scn["tags"].append("unusual:nullconfigs")
        return scn
    if kind == "envbool":
        scn = gen_base(rng, layout="default", pkgs=["a", "b"])
        scn["root"].pop("force-file-write", None)
        v = ["tRuE", "TRue", "trUE", "TRUE", "True"][i % 5]
        scn["env"] = {"MOCKERY_FORCE_FILE_WRITE": v}
        scn["env_root"] = {"force-file-write": True}
        scn["tags"].append("unusual:envbool")
        return scn
    scn = gen_base(rng, layout=rng.choice(["default", "periface"]), pkgs=rng.sample(["a", "b", "c"], 2))
    name = {"onlytest": "onlytest", "nodecl": rng.choice(["nodecl", "consts"]), "mixedtag": "mixedtag", "mixedtag-tags": "mixedtag",
            "tagged-tags": "tagged"}[kind]
    scn["pkgs"].append(name)
    scn["packages"][pkg_path(name)] = {"config": {"all": True}}
    if kind.endswith("-tags"):
        scn["root"]["build-tags"] = rng.choice(["special", "other special"])
    scn["tags"].append("unusual:" + kind)
    return scn


UNUSUAL = ["gomod", "gomod", "nestedmod", "nestedmod", "nogomod", "onlytest", "nodecl", "mixedtag", "mixedtag-tags", "tagged-tags",
           "nullconfigs", "envbool", "gomod", "funclocal", "anchors", "nestedrec"]


# ----------------------------------------------------------------------------------------
# go.mod texts for the module_path correspondence (driver calls findPkgPath directly)
# ----------------------------------------------------------------------------------------
def gen_gomod_text(rng):
    """(text, aux_ok, kind)"""
    ws = lambda lo=0: "".join(rng.choice([" ", "\t", " ", "\r" if rng.random() < 0.05 else " "]) for _ in range(rng.randint(lo, 3)))
    com = lambda: rng.choice(["", "", "// c", "//", "// module x/y", "//\tmodule (", "// \xe9 caf\xe9"])
    blank = lambda: ws() + com()
    path = rng.choice(["example.com/m", "x", "a.b/c-d_e/v2", "github.com/Org/Repo", "m/~user", "gopkg.in/yaml.v3", "example.com/m/sub.dir"])
    form = rng.choice(["bare", "bare", "quoted"])
    tok = path if form == "bare" else '"%s"' % path
    lines = [blank() for _ in range(rng.randint(0, 3))]
    shape = rng.choice(["line", "line", "block", "block", "none", "malformed"])
    if shape == "line":
        lines.append(ws() + "module" + ws(1) + tok + ws() + com())
    elif shape == "block":
        lines.append(ws() + "module" + ws() + "(" + ws() + com())
        lines += [blank() for _ in range(rng.randint(0, 2))]
        lines.append(ws() + tok + ws() + com())
        lines += [blank() for _ in range(rng.randint(0, 2))]
        lines.append(ws() + ")" + ws() + com())
    elif shape == "malformed":
        lines.append(rng.choice(["module", "module x y", "module ( x )", "module (", "module `x`", "module 'x'", "module \"x", "module x\"y",
                                 "module /* c */ x", "module x /* c", "module\"x\"", "module(x)", "modulex y", "module x\x01", "module \x7f",
                                 "module \"a\\tb\"", "module \xc3\xa9", "module ()", "module ( )", "module [", "module x,y", ") module x",
                                 "module x ( )", "module x (", "\"module\" x"]))
    aux_ok = True
    rest = []
    for _ in range(rng.randint(0, 4)):
        r = rng.random()
        if r < 0.25:
            rest.append(blank())
        elif r < 0.45:
            rest.append(rng.choice(["go 1.23", "go 1.23.4", "go\t1.21 // c"]))
            if any(x.startswith("go") and not x.startswith("godebug") for x in rest[:-1] + lines):
                pass
        elif r < 0.6:
            rest += ["require (", "\tgithub.com/stretchr/testify v1.10.0 // indirect", "\ta.b/c v0.1.0", ")"]
        elif r < 0.7:
            rest.append("require a.b/c v1.2.3")
        elif r < 0.8:
            rest += rng.choice([["replace a.b/c => ../c"], ["exclude (", " a.b/c v1.0.0", ")"], ["toolchain go1.23.1"], ["unknown directive here"],
                                ["tool a.b/c/cmd"], ["godebug x=y"], ["weird ( )"], ["x ( ) y"], ["retract v1.0.0"], ["ignore ./x"]])
        elif r < 0.86:
            rest.append(rng.choice(["module other/path", "module (", ")", "foo (", "( x", "\"unterminated", "x /* y"]))
        elif r < 0.92:
            aux_ok = False
            rest.append(rng.choice(["go abc", "require a.b/c", "go 1.2 3", "require a.b/c notaversion"]))
    ODD = ["module other/path", "module (", ")", "foo (", "( x", "\"unterminated", "x /* y", "weird ( )", "x ( ) y"]
    BADAUX = ["go abc", "require a.b/c", "go 1.2 3", "require a.b/c notaversion"]
    isgo = lambda x: x.startswith("go") and not x.startswith("godebug")
    if any(x in ODD for x in rest) or shape == "malformed":
        # which lines are statements then depends on the block structure: keep the
        # go/require/retract statements well formed and unique, so that aux_ok = True is right
        rest = [x for x in rest if x not in BADAUX]
        seen_go = False
        kept = []
        for x in rest:
            if isgo(x):
                if seen_go:
                    continue
                seen_go = True
            kept.append(x)
        rest = kept
        aux_ok = True
    elif sum(1 for x in rest if isgo(x)) > 1:
        aux_ok = False                      # a second go statement is rejected by the library
    text = "\n".join(lines + rest)
    if rng.random() < 0.8:
        text += "\n"
    return text.encode("latin-1"), aux_ok, shape


GOMOD_CORPUS = [(t.encode(), True, "corpus:" + n) for n, t in GOMOD_SPELLINGS] + [
    (b"", True, "corpus:empty"), (b"module x", True, "corpus:no-newline"), (b"\n\n\n", True, "corpus:blank"),
    (b"module\tx\r\n", True, "corpus:tab-crlf"), (b"module x\nmodule y\n", True, "corpus:two"),
    (b"module \"x\" // c\n", True, "corpus:quoted-comment"), (b"module x//c\n", True, "corpus:comment-nospace"),
    (b"module a/b/\n", True, "corpus:trailing-slash"), (b"module a//b\n", True, "corpus:slash-pair")]


def gomod_corpus():
    f = VERIF / "corpus" / "C09" / "gomod.json"
    if not f.exists():
        return []
    return [(bytes.fromhex(c["text_hex"]), c["aux_ok"], "corpus:" + c["name"]) for c in json.loads(f.read_text())]


def gobs_term(o):
    if o["k"] == "ok":
        return "GOk %s %s" % (coq_bytes(bytes.fromhex(o["p"])), coq_bytes(bytes.fromhex(o["s"])))
    if o["k"] == "err":
        return "GErr"
    return "GPanic"


def build_modpath_driver(ctx):
    """The driver needs an export shim inside package internal: both are copied into the
    scratch copy of the tree only."""
    src = VERIF / "harness" / "go" / "c09_modpath"
    dst = ctx.tree / "zz_verif" / "c09_modpath"
    dst.mkdir(parents=True, exist_ok=True)
    shutil.copy(str(src / "main.go.txt"), str(dst / "main.go"))
    shutil.copy(str(src / "export.go.txt"), str(ctx.tree / "internal" / "zz_verif_export.go"))
    p = run(["go", "build", "-o", str(ctx.scratch / "drv_modpath"), "."], cwd=dst, env=go_env(), timeout=900)
    if p.returncode != 0:
        ctx.build_failure("c09_modpath", p)
        return False
    ctx.bins["drv_modpath"] = str(ctx.scratch / "drv_modpath")
    return True


def run_modpath(ctx, texts):
    d = ctx.scratch / "gm"
    d.mkdir(exist_ok=True)
    p = run([ctx.bins["drv_modpath"], str(d)], inp=json.dumps([t.hex() for t in texts]).encode(), timeout=600)
    if p.returncode != 0:
        raise RuntimeError("drv_modpath failed: " + p.stderr.decode(errors="replace")[-2000:])
    return json.loads(p.stdout)


# ----------------------------------------------------------------------------------------
# oracles (the property itself, evaluated on the observed behaviour; no model involved)
# ----------------------------------------------------------------------------------------
def oracle_c09(res):
    errs = []
    r, world, scn = res["run"], res["world"], res["scn"]
    classes = classes_of(world)
    if r["cls"] == "Panic":
        errs.append("mockery terminated by an unrecovered panic")
        return errs, classes
    missing = [k for k, v in res["present"].items() if not v]
    if r["cls"] == "Exit0" and missing and not scn.get("alias"):
        errs.append("exit status 0 but configured mocks were not written: %s" % missing[:4])
    if classes & FAIL_CLASSES and r["cls"] == "Exit0":
        errs.append("exit status 0 although the input is in failure class(es) %s" % sorted(classes & FAIL_CLASSES))
    if r["cls"] == "ExitErr" and not r["diag"]:
        errs.append("non-zero exit without a diagnostic")
    return errs, classes


def expected_valid(res):
    """a scenario without any injected failure must succeed"""
    scn = res["scn"]
    return not (classes_of(res["world"]) & FAIL_CLASSES) and not any(t in ("nogomod",) for t in scn["tags"]) and scn.get("nested_ok", True)


# ----------------------------------------------------------------------------------------
def foreign_class(scn):
    """input classes whose defects are owned by other properties and not repaired: none at present
    (the C07 / C08 / C12 / C19 repairs are in the tree)"""
    return None


class Out(list):
    def append(self, pair):
        if pair[0]["raw_config"] is None and foreign_class(pair[0]):
            return
        list.append(self, pair)


def has_unknown_key(scn):
    ok = lambda d: d is None or (isinstance(d, dict) and all(k in KNOWN_KEYS for k in d))
    if not all(k in KNOWN_KEYS for k in scn["root"]):
        return True
    for e in scn["packages"].values():
        if e is None:
            continue
        if any(k not in ("config", "interfaces") for k in e) or not ok(e.get("config")):
            return True
        for ie in (e.get("interfaces") or {}).values():
            if ie is None:
                continue
            if any(k not in ("config", "configs") for k in ie) or not ok(ie.get("config")) or not all(ok(c) for c in (ie.get("configs") or [])):
                return True
    return False


def has_bad_regex(scn):
    """an invalid regular expression written anywhere in the configuration (root, package, interface,
    configs entry), consulted or not"""
    def bad(d):
        if not isinstance(d, dict):
            return False
        for k in ("include-interface-regex", "exclude-interface-regex"):
            if isinstance(d.get(k), str) and not rx_valid(d[k]):
                return True
        return any(isinstance(x, str) and not rx_valid(x) for x in (d.get("exclude-subpkg-regex") or []))
    if bad(scn["root"]):
        return True
    for e in scn["packages"].values():
        if e is None:
            continue
        if bad(e.get("config")):
            return True
        for ie in (e.get("interfaces") or {}).values():
            if ie and (bad(ie.get("config")) or any(bad(c) for c in (ie.get("configs") or []))):
                return True
    return False


def derive_cfg_status(scn):
    """cfg_status of the configuration that is finally emitted"""
    if scn["raw_config"] is not None or scn["no_config"]:
        return scn["cfg_status"]
    bad_type = any(isinstance(scn["root"].get(k), dict) for k in ("all", "force-file-write"))
    return "CfgUnknownKey" if has_unknown_key(scn) else ("CfgBadType" if bad_type else ("CfgBadRegex" if has_bad_regex(scn) else "CfgOk"))


def init_consistent(scn):
    """no initial file or link lies below a path that is itself a regular file or a link"""
    filelike = {k for k, v in scn["init"].items() if v != "DIR"} | set(scn.get("links", {}))
    every = set(scn["init"]) | set(scn.get("links", {}))
    return not any(p.startswith(f + "/") for p in every for f in filelike)


def apply_injections(rng, kinds_):
    """valid base + the injections; retried until every injected class really holds of the
    resolved world (a bad value that a more specific level overrides is not in the class)"""
    for attempt in range(30):
        base = gen_base(rng)
        if set(kinds_) & TRAP_KINDS:
            use_trap(base)
        s = copy.deepcopy(base)
        s["base_ref"] = base
        ks = sorted(kinds_, key=lambda k: k in ("NoPackages", "ConfigUnreadable"))     # these replace the whole config: last
        try:
            for k in ks:
                if s["raw_config"] is None and not s["no_config"] and s["packages"]:
                    INJECTIONS[k](rng, s)
        except (IndexError, KeyError, ValueError):
            continue          # the first injection left nothing for the second one to attach to
        del s["base_ref"]
        if not init_consistent(s):
            continue
        if s["raw_config"] is None and not s["no_config"]:
            # the abstract world is derived from the configuration that is finally emitted: a later
            # injection may have overwritten an earlier one's edit
            s["cfg_status"] = derive_cfg_status(s)
        # the base only configures packages that are in its tree (an injection into a package that
        # an earlier injection added to the scenario must not leak into the base)
        for pth in list(base["packages"]):
            nm = name_of(pth)
            if nm not in base["pkgs"] and not any(x.startswith(nm + "/") for x in base["pkgs"]):
                del base["packages"][pth]
        if s["raw_config"] is not None or s["no_config"] or foreign_class(s) or foreign_class(base):
            if s["raw_config"] is not None or s["no_config"]:
                return s, base
            continue
        cl = classes_of(resolve(bind(s, "/nonexistent"), "/nonexistent"))
        want = {t for t in s["tags"] if t in FAIL_CLASSES}
        if len(kinds_) > 1 or want <= cl or cl & {"UnknownKey", "ConfigUnreadable"}:
            if cl & FAIL_CLASSES:
                # a scenario only claims the classes that the final configuration really is in
                s["tags"] = [t for t in s["tags"] if t not in FAIL_CLASSES or t in cl]
                return s, base
    raise RuntimeError("generator: could not place injection %s" % (kinds_,))


def gen_scenarios(ctx, n_inj, n_combo, n_unusual, n_valid):
    rng = ctx.rng
    out = Out()
    kinds = [k for k in INJECTIONS if k != "WriteFaultDevFull" or devfull_ok()]
    for i in range(n_valid):
        s = gen_base(rng)
        s["init"] = unrelated_files(rng, s)
        out.append((s, s))
    for i in range(n_inj):
        s, base = apply_injections(rng, [kinds[i % len(kinds)]])
        s["init"] = dict(unrelated_files(rng, s), **s["init"])
        out.append((s, base))
    for i in range(n_combo):
        s, base = apply_injections(rng, rng.sample(kinds, 2))
        # two injections may touch the same sub-tree of the configuration (one strips the template-data the
        # other set, ...): the valid base then no longer predicts the CONTENT of the files that are still
        # written.  Pairs are judged on exit class, on which paths change and by the oracle; the content of
        # a written file is taken as observed (counted in the evidence).
        s["pair"] = True
        out.append((s, base))
    for i in range(n_unusual):
        s = unusual(rng, UNUSUAL[i % len(UNUSUAL)], i)
        base = s
        if any(t.startswith("nogomod") for t in s["tags"]):
            base = copy.deepcopy(s)
            for e in base["packages"].values():
                if lvl(lvl(e, "config"), "dir", "").startswith("../outside"):
                    del e["config"]["dir"], e["config"]["pkgname"]
        elif any(t.startswith("nestedmod") for t in s["tags"]):
            base = copy.deepcopy(s)
            base["extra_mods"]["mocksmod"] = "module example.com/mocksmod\n\ngo 1.23\n"
        out.append((s, base))
    return out


def to_replay(res, what, extra=None):
    d = {"what": what, "scenario": {k: (v if not isinstance(v, bytes) else {"bytes_hex": v.hex()}) for k, v in res["scn"].items() if k not in ("init",)},
         "init": {k: (v if v == "DIR" else {"bytes_hex": v.hex()}) for k, v in res["scn"]["init"].items()},
         "base": res.get("base_json"), "readable": describe(res)}
    if extra:
        d.update(extra)
    return d


def scn_from_replay(d):
    s = d["scenario"]
    for k, v in list(s.items()):
        if isinstance(v, dict) and set(v) == {"bytes_hex"}:
            s[k] = bytes.fromhex(v["bytes_hex"])
    s["init"] = {k: (v if v == "DIR" else bytes.fromhex(v["bytes_hex"])) for k, v in d.get("init", {}).items()}
    return s


def run_pipeline_stream(ctx, pairs, oracle, start=0):
    """Execute scenarios in parallel, apply the oracle, build the Coq cases."""
    def one(t):
        i, (s, base) = t
        r = execute(ctx, s, start + i, base)
        r["base_json"] = None if base is None else {k: v for k, v in base.items() if k in ("pkgs", "root", "packages", "gomod", "extra_mods")}
        return r
    results = pmap(one, list(enumerate(pairs)), workers=min(JOBS, 12))
    return results


def known_symptom(res, finding):
    return res["run"]["cls"] == "Exit0" and any(not v for v in res["present"].values())


def alias_witness(rng):
    """known finding C09-output-path-alias: same file, two spellings, force-file-write"""
    s = new_scn(["a"])
    s["root"]["force-file-write"] = True
    s["packages"][pkg_path("a")] = {"interfaces": {"A1": None, "A2": {"config": {"dir": rng.choice(["a", "./a", "../m/a"])}}}}
    s["alias"] = True
    s["tags"].append("known:C09-output-path-alias")
    return s


# ---------------- config shape fuzz: oracle only (never a panic, failures carry a diagnostic) ----
JUNK = [None, 0, -1, 1.5, "", "x", True, [], {}, [None], [[]], {"x": None}, {"config": None}, [1, "a", None],
        {"a": {"b": {"c": {"d": [{}]}}}}, "{{", "{{.X}}", "(", ["("], {"": ""}, "\u0000", 2 ** 70]
TYPED_JUNK = {"all": ["maybe", [True], {"x": 1}, 2], "recursive": ["yes", None, []], "dir": [5, None, ["a"], {"x": 1}, True],
              "filename": [7, [], ""], "configs": [{}, "x", [None, 3], [[]], [{"configs": []}], None],
              "interfaces": [[], "x", {"A1": 5}, {"A1": []}, {"A1": {"config": 3}}, {"A1": {"configs": {"a": 1}}}, {"": None}],
              "template-data": [[1], "x", 3, {"a": {"b": None}}, {"unroll-variadic": None}], "config": [[], 3, "x"],
              "replace-type": [{"a": None}, {"a": {"B": None}}, {"a": {"B": {"pkg-path": 3}}}, [], "x", {"a": {"B": []}}],
              "exclude-subpkg-regex": ["x", [1, None], {"a": 1}, [[]], None], "include-interface-regex": [[], 3, None, True],
              "build-tags": [[], 1, "a  b", None], "formatter": [None, 1, []], "force-file-write": ["TRUE", 1, None, []],
              "packages": [None, [], "x", {"": None}, {"example.com/m/a": []}, {"example.com/m/a": 3}, {"./a": None}, {"example.com/m/...": {"config": {"all": True}}}],
              "log-level": ["loud", 3, None], "template": [None, 3, [], "file://", "file:///", "https://", "http://%zz"],
              "template-schema": [None, 3, "file://", "{{"], "_anchors": [None], "structname": [None, 3, ""], "pkgname": [None, "", 3, "a b"]}


def nodes(tree, path=()):
    yield path, tree
    if isinstance(tree, dict):
        for k, v in tree.items():
            yield from nodes(v, path + (k,))
    elif isinstance(tree, list):
        for i, v in enumerate(tree):
            yield from nodes(v, path + (i,))


def set_at(tree, path, value):
    if not path:
        return value
    t = tree
    for k in path[:-1]:
        t = t[k]
    t[path[-1]] = value
    return tree


def fuzz_config(rng):
    base = gen_base(rng, pkgs=rng.sample(["a", "b", "c"], 2) + (["r", "r/s1", "r/s2"] if rng.random() < 0.3 else []))
    tree = json.loads(config_bytes(base).decode())
    what = []
    for _ in range(rng.randint(1, 2)):
        r = rng.random()
        allnodes = list(nodes(tree))
        if r < 0.45:
            path, _ = rng.choice(allnodes[1:] or allnodes)
            tree = set_at(tree, path, copy.deepcopy(rng.choice(JUNK)))
            what.append("replace %s" % (path,))
        else:
            k = rng.choice(sorted(TYPED_JUNK))
            v = copy.deepcopy(rng.choice(TYPED_JUNK[k]))
            dicts = [p for p, n in allnodes if isinstance(n, dict)]
            path = rng.choice(dicts)
            if k == "packages":
                path = ()
            tgt = tree
            for x in path:
                tgt = tgt[x]
            if isinstance(tgt, dict):
                tgt[k] = v
            what.append("set %s at %s" % (k, path))
    s = new_scn(base["pkgs"])
    s["raw_config"] = json.dumps(tree).encode()
    s["cfg_status"] = "unknown"
    s["tags"] = ["fuzz"]
    s["fuzz"] = what
    return s


def run_fuzz(ctx, scns, start):
    def one(t):
        i, s = t
        S = str(ctx.scratch / ("fz%d" % (start + i)))
        b = bind(s, S)
        materialize(b, S)
        r = run_mockery(ctx, b, S)
        shutil.rmtree(S, ignore_errors=True)
        return r
    return pmap(one, list(enumerate(scns)), workers=min(JOBS, 12))


# ---------------- MOCKERY_<BOOL KEY>=value ----------------
ENV_BOOL_KEYS = ["FORCE_FILE_WRITE", "ALL", "RECURSIVE", "REQUIRE_TEMPLATE_SCHEMA_EXISTS"]
ENV_VALUES = ["true", "TRUE", "True", "tRuE", "false", "FALSE", "False", "FaLsE",
              "fal\u017fe", "FAL\u017fE", "fAl\u017fe", "\u017f", "tr\u00fce", "TR\u00dcE", "\u212a", "tru\u0404", "\uff54\uff52\uff55\uff45", "\uff11",
              " true", "true ", "TRUE\n", "\ttrue", "true\r", "true\u200b", "tru", "truee", "ttrue", "rue", "fals", "falsee",
              "1", "0", "t", "T", "f", "F", "", "yes", "no", "on", "off", "y", "null", "truefalse", "true,false", "\"true\"", "'false'"]


def gen_env_cases(rng, n_random):
    vals = list(ENV_VALUES)
    for _ in range(n_random):
        w = rng.choice(["true", "false"])
        r = rng.random()
        if r < 0.5:                                   # a random letter case
            vals.append("".join(c.upper() if rng.random() < 0.5 else c for c in w))
        elif r < 0.75:                                # one letter replaced by a look-alike
            i = rng.randrange(len(w))
            vals.append(w[:i] + rng.choice(["\u017f", "\u0455", "\u0435", "\u0430", "\u1e6d", "\u0131", "\uff45", "3", "|"]) + w[i + 1:])
        else:                                         # padding / truncation / doubling
            vals.append(rng.choice([" " + w, w + " ", w + "\n", w[:-1], w + w[-1], w.upper() + "\t", "\ufeff" + w]))
    return [(k, v) for v in vals for k in ([rng.choice(ENV_BOOL_KEYS)] if v not in ENV_VALUES[:16] else ENV_BOOL_KEYS)]


def run_env(ctx, cases, start):
    def one(t):
        i, (key, val) = t
        s = new_scn(["a"])
        s["packages"][pkg_path("a")] = {"config": {"all": True}}
        s["env"] = {"MOCKERY_" + key: val}
        S = str(ctx.scratch / ("env%d" % (start + i)))
        b = bind(s, S)
        materialize(b, S)
        r = run_mockery(ctx, b, S)
        shutil.rmtree(S, ignore_errors=True)
        return r
    return pmap(one, list(enumerate(cases)), workers=min(JOBS, 12))


def check(ctx, only=None):
    gate = proof_gate(ctx)
    if not ctx.build_tree():
        ctx.write_evidence(gate, 0, 0, "build failed", [])
        return
    if not build_modpath_driver(ctx):
        ctx.write_evidence(gate, 0, 0, "build failed", [])
        return
    big = ctx.thorough()
    oracle_fail, nofail, samples = [], [], []
    hist = {}
    # ---------------- 1. go.mod texts against findPkgPath ----------------
    gm = gomod_corpus() + list(GOMOD_CORPUS) + [gen_gomod_text(ctx.rng) for _ in range(6000 if big else 600)]
    if only is not None:
        gm = [(bytes.fromhex(x["text_hex"]), x["aux_ok"], "replay") for x in only.get("gomod", [])]
    gobs = run_modpath(ctx, [t for t, _, _ in gm]) if gm else []
    for (t, aux, kind), o in zip(gm, gobs):
        hist["gomod:" + kind.split(":")[0]] = hist.get("gomod:" + kind.split(":")[0], 0) + 1
        if o["k"] == "panic":
            oracle_fail.append(("gomod", {"what": ["findPkgPath panics on a go.mod text: %s" % o.get("msg", "")],
                                          "gomod": [{"text_hex": t.hex(), "aux_ok": aux}], "text": t.decode("latin-1")}))
    gterms = ["{| g_text := %s; g_aux_ok := %s; g_obs := %s |}" % (coq_bytes(t), coq_bool(aux), gobs_term(o)) for (t, aux, _), o in zip(gm, gobs)]
    gbad, gerrs = coq_mismatches(ctx, HMOD, gterms, check="gmismatches") if gterms else ([], [])
    # ---------------- 2. whole runs ----------------
    if only is not None:
        pairs = [(scn_from_replay(x), x.get("base")) for x in only.get("scenarios", [])]
        pairs = [(s, (dict(new_scn(b["pkgs"]), **b) if b else None)) for s, b in pairs]
    else:
        nk = len(INJECTIONS)
        pairs = gen_scenarios(ctx, n_inj=(nk * 6 if big else nk), n_combo=(120 if big else 6),
                              n_unusual=(len(UNUSUAL) * 8 if big else len(UNUSUAL) + 3), n_valid=(60 if big else 8))
        pairs += [(alias_witness(ctx.rng), None) for _ in range(2)]
    results = run_pipeline_stream(ctx, pairs, oracle_c09)
    # ---------------- 3. config shapes (oracle only) ----------------
    if only is not None:
        fz = [dict(new_scn(x["pkgs"]), raw_config=bytes.fromhex(x["raw_config_hex"]), tags=["fuzz"], cfg_status="unknown") for x in only.get("fuzz", [])]
    else:
        fz = [fuzz_config(ctx.rng) for _ in range(1500 if big else 80)]
    for s, r in zip(fz, run_fuzz(ctx, fz, 100000)):
        hist["config-shape-fuzz"] = hist.get("config-shape-fuzz", 0) + 1
        bad_ = []
        if r["cls"] == "Panic":
            bad_.append("mockery terminated by an unrecovered panic on a malformed configuration: %s" % (re.findall(r"panic: [^\n]*", r["tail"]) or [r["tail"][-200:]])[0])
        elif r["cls"] == "ExitErr" and not r["diag"] and b'"log-level"' not in s["raw_config"]:
            # (a null / empty log-level parses to zerolog's NoLevel, which silences every message: the
            # configuration asked for that, so a silent failure is not counted)
            bad_.append("non-zero exit without a diagnostic on a malformed configuration")
        if bad_:
            oracle_fail.append(("fuzz", {"what": bad_, "fuzz": [{"pkgs": s["pkgs"], "raw_config_hex": s["raw_config"].hex()}],
                                         "config": json.loads(s["raw_config"].decode()), "mutations": s.get("fuzz"), "output_tail": r["tail"][-800:]}))
    # ---------------- 4. boolean environment variables ----------------
    if only is not None:
        ecases = [(x["key"], x["value"]) for x in only.get("env", [])]
    else:
        ecases = gen_env_cases(ctx.rng, 300 if big else 16)
    eres = run_env(ctx, ecases, 200000) if ecases else []
    for (key, val), r in zip(ecases, eres):
        hist["env-bool"] = hist.get("env-bool", 0) + 1
        bad_ = []
        if r["cls"] == "Panic":
            bad_.append("mockery terminated by an unrecovered panic on MOCKERY_%s=%r: %s" % (key, val, (re.findall(r"panic: [^\n]*", r["tail"]) or [""])[0]))
        elif r["cls"] == "ExitErr" and not r["diag"]:
            bad_.append("non-zero exit without a diagnostic on MOCKERY_%s=%r" % (key, val))
        if bad_:
            oracle_fail.append(("env", {"what": bad_, "env": [{"key": key, "value": val}], "output_tail": r["tail"][-600:]}))
    eterms = ["{| e_val := %s; e_exit := %s |}" % (coq_bytes(v.encode()), r["cls"]) for (k, v), r in zip(ecases, eres)]
    ebad, eerrs = coq_mismatches(ctx, HMOD, eterms, check="emismatches") if eterms else ([], [])
    terms, tidx = [], []
    known = load_known("C09")
    for res in results:
        if "skipped" in res:
            hist["skipped"] = hist.get("skipped", 0) + 1
            continue
        errs, classes = oracle_c09(res)
        scn = res["scn"]
        for c in (classes & FAIL_CLASSES) or {"valid"}:
            hist[c] = hist.get(c, 0) + 1
        for t in scn["tags"]:
            if ":" in t:
                k = t if t.startswith(("level:", "unusual:")) else t.split(":")[0]
                hist[k] = hist.get(k, 0) + 1
        # harness self-check: the injection must be in the class it claims
        for t in scn["tags"]:
            if len([x for x in scn["tags"] if x in FAIL_CLASSES]) == 1 and t in FAIL_CLASSES and t not in classes and scn["raw_config"] is None and not scn["no_config"] and not (classes & {"UnknownKey", "ConfigUnreadable"}):
                raise RuntimeError("generator/resolver inconsistency: injected %s but resolved classes are %s (%s)" % (t, sorted(classes), json.dumps(describe(res))[:1500]))
        if scn.get("alias"):
            if known_symptom(res, None) and any(k["id"] == "C09-output-path-alias" for k in known):
                if not ctx.known_seen:
                    ctx.known("two spellings of one output file with force-file-write: exit 0, one mock lost (C09-output-path-alias)")
            elif res["run"]["cls"] != "Exit0" or all(res["present"].values()):
                oracle_fail.append(("pipeline", to_replay(res, ["the symptom of known finding C09-output-path-alias changed: exit=%s, present=%s; update known/C09.json and the guard no_alias" % (res["run"]["cls"], res["present"])],
                                                          {"scenarios_key": True})))
            continue
        if expected_valid(res) and res["run"]["cls"] != "Exit0":
            errs.append("a configuration without any invalid input does not succeed (exit class %s)" % res["run"]["cls"])
        if res.get("ref") and res["ref"]["cls"] != "Exit0":
            errs.append("the valid base configuration of this scenario does not succeed: %s" % res["ref"]["tail"][-300:])
        if errs:
            oracle_fail.append(("pipeline", to_replay(res, errs)))
        t, nkeys = build_case(res)
        if nkeys <= 6:
            terms.append(t)
            tidx.append(res)
        if len(samples) < 3:
            samples.append(describe(res))
    bad, errs2 = coq_mismatches(ctx, HMOD, terms, shard=12) if terms else ([], [])
    # ---------------- verdicts ----------------
    seen_cat, picked, fail_cats = set(), [], {}
    for kind, rp in oracle_fail:                      # one replay per distinct symptom
        if kind == "env":
            cat_src = str(rp["what"][0]).split(" on MOCKERY_")[0]
        else:
            cat_src = str(rp["what"][0])
        cat = kind + "|" + re.sub(r"[0-9a-f]{8,}|/tmp/\S+|\d+", "#", cat_src)[:90] + "|" + ",".join(
            sorted(t.split(":")[-1] if t.startswith(("unusual", "level:unread")) else t.split(":")[0] for t in rp.get("readable", {}).get("tags", [])))
        fail_cats[cat] = fail_cats.get(cat, 0) + 1
        if cat not in seen_cat:
            seen_cat.add(cat)
            picked.append((kind, rp))
    for kind, rp in picked[:10]:
        rp = dict(rp)
        if kind == "pipeline":
            rp["scenarios"] = [dict(scenario=rp.pop("scenario"), init=rp.pop("init"), base=rp.pop("base"))]
        path = ctx.write_replay("oracle-%s-%d" % (kind, len(ctx.violations)), rp)
        ctx.violation(path)
    if not gate["ok"] and not oracle_fail:
        ctx.violation(gate["replay"], nofail=True)
    if (bad or errs2 or gbad or gerrs or ebad or eerrs) and not oracle_fail:
        ex = []
        for i in bad[:3]:
            res = tidx[i]
            t, _ = build_case(res)
            rp = to_replay(res, "model and implementation disagree")
            ex.append({"scenarios": [dict(scenario=rp["scenario"], init=rp["init"], base=rp["base"])], "readable": rp["readable"],
                       "model_says_for_first_order": coq_show(ctx, HMOD, "model_out (%s)" % t, name="show%d" % i)[:3000]})
        gex = [{"gomod": [{"text_hex": gm[i][0].hex(), "aux_ok": gm[i][1]}], "text": gm[i][0].decode("latin-1"), "observed": gobs[i],
                "model": coq_show(ctx, HMOD, "module_path (fun _ => %s) %s" % (coq_bool(gm[i][1]), coq_bytes(gm[i][0])), name="gshow%d" % i)[:600]} for i in gbad[:4]]
        rp = ctx.write_replay("correspondence", {
            "what": "the model (Cfg/Pipeline.v, Cfg/GoMod.v) and the implementation disagree; the oracle found no input on which the property itself fails",
            "obligation": "correspondence Harness/C09.v check_case (exit class + final node of every path, for some map order) / gcheck (findPkgPath answer)",
            "mismatching_runs": len(bad), "mismatching_gomod_texts": len(gbad), "coq_errors": (errs2 + gerrs + eerrs)[:3],
            "mismatching_env_values": [{"key": ecases[i][0], "value": ecases[i][1], "observed": eres[i]["cls"]} for i in ebad[:6]],
            "env": [{"key": ecases[i][0], "value": ecases[i][1]} for i in ebad[:6]],
            "scenarios": [s for e in ex for s in e["scenarios"]], "gomod": [g for e in gex for g in e["gomod"]],
            "examples": ex, "gomod_examples": gex})
        ctx.violation(rp, nofail=True)
    distinct = len({json.dumps(describe(r)["config"], sort_keys=True, default=str) + str(r["scn"]["pkgs"]) + str(r["scn"]["gomod"]) for r in results if "run" in r and (classes_of(r["world"]) & FAIL_CLASSES or r["scn"]["tags"])})
    gd = len({t for (t, _, k), o in zip(gm, gobs) if o["k"] == "ok"})
    ctx.write_evidence(gate, len(results) + sum(1 for r in results if r.get("ref")) + len(gm), distinct + gd,
                       "whole runs of the freshly built binary on generated module trees + configurations: every failure class injected alone (at a random level where it can be written) and in pairs into an otherwise valid multi-package configuration, valid-but-unusual inputs, plus the valid base configuration of every scenario in a pristine tree; non-trivial run = in a failure class or unusual, distinct by (config, packages, go.mod). go.mod texts: generated from the directive grammar plus a malformed stream and run through mockery's findPkgPath; non-trivial = a module path was found, distinct by text",
                       samples, extra={"class_histogram": hist, "model_mismatches": len(bad), "gomod_mismatches": len(gbad),
                                       "oracle_failures": len(oracle_fail), "oracle_failure_categories": fail_cats, "runs": len(results),
                                       "written_files_without_reference_content": sum(r.get("unknown_content", 0) for r in results), "gomod_texts": len(gm), "coq_cases": len(terms)},
                       assumptions=["Python resolver (harness/checks/c09.py: resolve) computes the effective per-mock values of the generated configurations; it only has to be right on the configurations the generators produce (a wrong value shows up as a correspondence mismatch)",
                                    "modfile.ParseLax's checks of go/require/retract statements are a parameter of the model (the generator marks texts with a malformed such statement)"])


def replay(ctx, path):
    d = json.loads(open(path).read())
    check(ctx, only={"scenarios": d.get("scenarios", []), "gomod": d.get("gomod", []), "fuzz": d.get("fuzz", []), "env": d.get("env", [])})
