"""C19 - `mockery migrate` carries every supported v2 setting to its v3 place unchanged.

Streams
  main      random v2 trees over the full v2 key set (46 keys x 4 levels, every subset) written with
            PyYAML -> real `mockery migrate` -> parsed output vs model (Coq, leaf sets) + direct
            oracle (Python, on the two parsed YAML trees) + `mockery showconfig` on the result.
  loader    v3 trees (migrate outputs, mutated: foreign keys, wrong shapes, null entries) ->
            `mockery showconfig` vs the loader model (key / shape sets per level).
  malformed undecodable / wrong-typed v2 files: error exit, nothing written, never a Go panic.
"""
import hashlib, json, os, re, shutil, time
import yaml
from common import *

H = "Misc.Migrate Harness.C19"

# ---------------------------------------------------------------------------------------------
# the v2 key set (yaml key, Coq field, type) in the field order of V2Config / Misc/Migrate.v
V2KEYS = [
    ("all", "v_all", "bool"), ("_anchors", "v_anchors", "map"), ("boilerplate-file", "v_boilerplate_file", "str"),
    ("tags", "v_tags", "str"), ("case", "v_case", "str"), ("config", "v_config", "str"),
    ("cpuprofile", "v_cpuprofile", "str"), ("dir", "v_dir", "str"),
    ("disable-config-search", "v_disable_config_search", "bool"),
    ("disable-deprecation-warnings", "v_disable_deprecation_warnings", "bool"),
    ("disabled-deprecation-warnings", "v_disabled_deprecation_warnings", "strlist"),
    ("disable-func-mocks", "v_disable_func_mocks", "bool"),
    ("disable-version-string", "v_disable_version_string", "bool"), ("dry-run", "v_dry_run", "bool"),
    ("exclude", "v_exclude", "strlist"), ("exclude-regex", "v_exclude_regex", "str"),
    ("exported", "v_exported", "bool"), ("fail-on-missing", "v_fail_on_missing", "bool"),
    ("filename", "v_filename", "str"), ("inpackage", "v_inpackage", "bool"),
    ("inpackage-suffix", "v_inpackage_suffix", "bool"),
    ("include-auto-generated", "v_include_auto_generated", "bool"), ("include-regex", "v_include_regex", "str"),
    ("issue-845-fix", "v_issue_845_fix", "bool"), ("keeptree", "v_keeptree", "bool"),
    ("log-level", "v_log_level", "str"), ("mock-build-tags", "v_mock_build_tags", "str"),
    ("mockname", "v_mockname", "str"), ("name", "v_name", "str"), ("note", "v_note", "str"),
    ("outpkg", "v_outpkg", "str"), ("output", "v_output", "str"), ("packageprefix", "v_packageprefix", "str"),
    ("print", "v_print", "bool"), ("profile", "v_profile", "str"), ("quiet", "v_quiet", "bool"),
    ("recursive", "v_recursive", "bool"), ("replace-type", "v_replace_type", "strlist"),
    ("resolve-type-alias", "v_resolve_type_alias", "bool"), ("srcpkg", "v_srcpkg", "str"),
    ("structname", "v_structname", "str"), ("testonly", "v_testonly", "bool"),
    ("unroll-variadic", "v_unroll_variadic", "bool"), ("version", "v_version", "bool"),
    ("with-expecter", "v_with_expecter", "bool"),
]
KTYPE = {k: t for k, _, t in V2KEYS}
# the property text: v2 setting -> v3 name / template-data key (with-expecter is carried the same way)
MAPPED = {
    "all": ["all"], "dir": ["dir"], "mockname": ["structname"], "outpkg": ["pkgname"],
    "include-regex": ["include-interface-regex"], "exclude-regex": ["exclude-interface-regex"],
    "exclude": ["exclude-subpkg-regex"], "recursive": ["recursive"], "log-level": ["log-level"],
    "config": ["config"], "_anchors": ["_anchors"],
    "boilerplate-file": ["template-data", "boilerplate-file"],
    "mock-build-tags": ["template-data", "mock-build-tags"],
    "unroll-variadic": ["template-data", "unroll-variadic"],
    "with-expecter": ["template-data", "with-expecter"],
}
PROPERTY_KEYS = [k for k in MAPPED if k != "with-expecter"]
V3_OF = {tuple(v): k for k, v in MAPPED.items()}

# ---------------------------------------------------------------------------------------------
# value pools
PKG_NAMES = [
    "github.com/vektra/mockery/v2/pkg/fixtures", "github.com/acme/svc/internal/store", "example.com/p",
    "example.com/p/sub", "example.com/p/sub/deeper", "example.com/q", "gopkg.in/x.v1", "k8s.io/api/core/v1",
    "a: b #c \"q\" {x}", "x y/z", " lead", "trail ", "[brackets]", "{curly}", "'single'", "\"double\"",
    "tab\there", "\u00fcn\u00ef/\u00e7\u00f8d\u00e9", "\u65e5\u672c/\u8a9e", "a|b", "a.b.c", "-dash", "? q", "*star", "&amp", "!bang",
    "%pct", "@at", "`tick`", "null", "true", "123", "~", "<", "a,b", "line1\nline2", "", "0x1f", "1:30",
    "yes", "example.com/" + "long" * 40, "p#", "#p", "a:b", "a: b", "- x", "key: value: more", "\\back\\slash",
    "emoji/\U0001F600", "example.com/p/", "./rel", "../up",
]
IFACE_NAMES = ["Requester", "Fooer", "A", "B", "iface", "I1", "I_2", "Reader", "Get\u00e9r", "I: 2 #x", "null", "true",
               "123", "", "<", "x y", "{T}", "[K]", "*P", "\u65e5\u672c", "a.b", "a|b", "'q'", "- I", "~"]
STR_POOL = [
    "{{.InterfaceName}}", "Mock{{.InterfaceName}}", "mock_{{.InterfaceNameSnake}}_test.go", "{{.PackageName}}_test",
    "{{.InterfaceDir}}", "{{ .InterfaceDirRelative }}/mocks", "{{.InterfaceNameCamel}}", "{{.InterfaceNameLowerCamel}}",
    "{{.Mock}}{{.InterfaceName | firstUpper}}", "mocks", "./mocks/{{.PackageName}}", "", " ", "  two  ", "null", "~",
    "true", "false", "yes", "no", "on", "123", "1.5", "1e3", "0x1f", "017", "1_000", "1:30", "2001-12-14", ".inf", "<<",
    "a: b", "a #b", "#c", "'", "\"", "'q' \"d\"", "{x}", "[y]", "*a", "&a", "!t", "|", ">", "%d", "@x", "`b`", "- d", "? q",
    "multi\nline", "trail\n", "\ttab", "caf\u00e9", "\u65e5\u672c\u8a9e", "\U0001F600", "back\\slash", "a,b", "custom3 && (!windows || !darwin)",
    "^.*Foo$", "(", "[a-", "x" * 200, ".*", "info", "debug", "bogus-level", ".mockery.yaml", "/abs/path/file.txt",
    "header.txt", "C:\\dir\\f", "key: [1, 2]", "{{", "}}", "=", "\u00a0nbsp", "\u2028", "\x7f", "a\u0001b",
]
MERGE = "<<"       # as a mapping key: known finding C19-merge-key (witness stream only)
KEY_POOL = [x for x in STR_POOL if x != MERGE]
REPLACE = ["github.com/a/b.T=github.com/c/d.U", "a.b[-T]=c.d", "x=y"]
LEVELS = ["top", "pkg", "iface", "sub"]


def gen_any(rng, depth=0):
    """arbitrary YAML value for `_anchors` content (no floats / timestamps: see NOTES)"""
    r = rng.random()
    if depth >= 3 or r < 0.55:
        k = rng.randrange(5)
        if k == 0: return None
        if k == 1: return rng.random() < 0.5
        if k == 2: return rng.choice([0, 1, -1, 7, 42, -300, 2147483647, -2147483648, 65536])
        return rng.choice(STR_POOL)
    if r < 0.75:
        return [gen_any(rng, depth + 1) for _ in range(rng.randint(0, 3))]
    return {rng.choice(KEY_POOL + ["a", "b", "cfg", "k%d" % rng.randint(0, 9)]): gen_any(rng, depth + 1) for _ in range(rng.randint(0, 3))}


# v2 keys whose values the v3 loader compiles as regular expressions (Go RE2 syntax).  The clause "the
# loader accepts the migrated file" is about v2 files whose regex values compile: the ordinary streams
# draw these values from RE_POOL[0] (the strings of STR_POOL that regexp.Compile accepts, set by check());
# values that do not compile (RE_BAD[0]) are used by the explicit class kind="invalid-regex" only.
REGEX_KEYS = ("include-regex", "exclude-regex", "exclude")
RE_CANDIDATES_BAD = ["(", "[a-", "*a", "a{2,1}", "(?P<n", "\\", "x**", "a(b", "[[:nope:]]", "(?<x>a)\\1", "\\8", "+"]
RE_POOL = [None]
RE_BAD = [None]


def gen_value(rng, key, lvl):
    t = KTYPE[key]
    if t == "bool":
        return rng.random() < 0.5
    pool = RE_POOL[0] if (key in REGEX_KEYS and RE_POOL[0]) else STR_POOL
    if t == "str":
        r = rng.random()
        if r < 0.45:
            return "%s@%s" % (key, lvl)                 # marker: pairwise distinct per (key, level) -> cross-wiring shows
        if r < 0.5:
            return "same"                               # deliberately equal across keys
        return rng.choice(pool)
    if t == "strlist":
        if key == "replace-type":
            return [rng.choice(REPLACE) for _ in range(rng.randint(0, 2))]
        n = rng.choice([0, 1, 1, 2, 3, 5])
        return [rng.choice(pool + ["%s%d@%s" % (key, i, lvl)]) for i in range(n)]
    n = rng.choice([0, 1, 1, 2, 3])
    return {rng.choice(["a", "b", "common", "inpackage_config", "x y", "k: v", "", "null", "1"] + KEY_POOL[:8]): gen_any(rng, 1) for _ in range(n)}


def gen_cfg(rng, p, lvl, lid, hist, only=None):
    d = {}
    for k, _, _ in V2KEYS:
        if (only is not None and k in only) or (only is None and rng.random() < p):
            d[k] = gen_value(rng, k, lid)
            bump(hist["key:%s" % lvl], k)
    if only is None and d and rng.random() < 0.05:
        d[rng.choice(list(d))] = None                       # explicit null = not set
    return d


def bump(d, k):
    d[k] = d.get(k, 0) + 1


def new_hist():
    h = {"key:%s" % l: {} for l in LEVELS}
    h.update({"invalid_regex_class": {}, "history": {}, "kind": {}, "packages": {}, "interfaces_per_pkg": {}, "configs_per_iface": {}, "dump": {}, "cli": {},
              "null_nodes": 0, "aliased_configs": 0, "nested_packages": 0, "iface_with_config_and_configs": 0})
    return h


def gen_tree(rng, hist, kind=None, single=None):
    kind = kind or rng.choice(["sparse", "sparse", "medium", "medium", "dense", "full", "empty", "anchors", "single"])
    bump(hist["kind"], kind)
    p = {"sparse": 0.1, "medium": 0.4, "dense": 0.85, "full": 1.0, "empty": 0.0, "anchors": 0.2, "single": 0.0}[kind]
    if kind == "single" and single is None:
        single = (rng.choice(LEVELS), rng.choice([k for k, _, _ in V2KEYS]))
    lv = [0]

    def cfg(lvl):
        lv[0] += 1
        lid = "%s%d" % (lvl, lv[0])
        if single is not None:
            return gen_cfg(rng, 0, lvl, lid, hist, only=[single[1]] if single[0] == lvl else [])
        return gen_cfg(rng, p, lvl, lid, hist)

    root = cfg("top")
    if kind == "anchors" or (kind in ("medium", "dense") and rng.random() < 0.3):
        # the documented v2 idiom: a configuration kept under `_anchors` and referenced by packages
        shared = gen_cfg(rng, 0.3, "pkg", "shared", new_hist())
        shared.pop("_anchors", None)
        root["_anchors"] = {"common": shared, "n": rng.randint(1, 9)}
        bump(hist["key:top"], "_anchors")
    else:
        shared = None
    npk = rng.choice([0, 1, 1, 2, 2, 3, 4]) if kind != "single" else 1
    bump(hist["packages"], npk)
    names = rng.sample(PKG_NAMES, npk)
    if npk >= 2 and rng.random() < 0.4:                      # nested packages p, p/sub
        names[1] = names[0] + "/sub"
        hist["nested_packages"] += 1
    pkgs = {}
    for n in names:
        r = rng.random()
        if r < 0.08 and kind != "single":
            pkgs[n] = None; hist["null_nodes"] += 1
            continue
        pk = {}
        r = rng.random()
        if shared is not None and r < 0.5:
            pk["config"] = shared; hist["aliased_configs"] += 1       # same object -> YAML alias
        elif r < 0.8 or kind == "single":
            pk["config"] = cfg("pkg")
        elif r < 0.9:
            pk["config"] = None; hist["null_nodes"] += 1
        nif = rng.choice([0, 1, 1, 2, 3]) if kind != "single" else 1
        bump(hist["interfaces_per_pkg"], nif)
        if nif or rng.random() < 0.3:
            ifs = {}
            for iname in rng.sample(IFACE_NAMES, nif):
                r = rng.random()
                if r < 0.15 and kind != "single":
                    ifs[iname] = None; hist["null_nodes"] += 1
                    continue
                ic = {}
                if rng.random() < 0.6 or kind == "single":
                    ic["config"] = cfg("iface")
                elif rng.random() < 0.2:
                    ic["config"] = None; hist["null_nodes"] += 1
                ncf = rng.choice([0, 0, 1, 2, 2, 3]) if kind != "single" else 2
                bump(hist["configs_per_iface"], ncf)
                if ncf or rng.random() < 0.2:
                    ic["configs"] = [cfg("sub") for _ in range(ncf)]
                if ic.get("config") and ic.get("configs"):
                    hist["iface_with_config_and_configs"] += 1
                ifs[iname] = ic
            pk["interfaces"] = ifs if (ifs or rng.random() < 0.5) else None
        pkgs[n] = pk
    if pkgs or rng.random() < 0.5:
        root["packages"] = pkgs if (pkgs or rng.random() < 0.5) else None
    return root


def shuffle_keys(rng, v, memo):
    """same document, mapping keys in random order; object identity (-> YAML aliases) is kept"""
    if not isinstance(v, (dict, list)):
        return v
    if id(v) in memo:
        return memo[id(v)]
    if isinstance(v, dict):
        ks = list(v)
        rng.shuffle(ks)
        new = memo[id(v)] = {}
        for k in ks:
            new[k] = shuffle_keys(rng, v[k], memo)
    else:
        new = memo[id(v)] = []
        new.extend(shuffle_keys(rng, x, memo) for x in v)
    return new


def dump_yaml(rng, tree, hist):
    t = shuffle_keys(rng, tree, {})
    style = rng.choice([False, False, None, True])
    opts = dict(default_flow_style=style, indent=rng.choice([2, 4]), width=rng.choice([20, 80, 4000]),
                allow_unicode=rng.random() < 0.5, explicit_start=rng.random() < 0.2, sort_keys=False)
    bump(hist["dump"], "flow=%s" % style)
    return dump(t, **opts)


# PyYAML (YAML 1.1) and yaml.v3 (1.2 core schema + 1.1 compatibility) must agree on the documents used:
#  * plain `=` : PyYAML resolves the 1.1 "value" tag and cannot construct it; yaml.v3 reads and writes a string
#  * plain `<<` in VALUE position: a string for yaml.v3 (which writes it plain); PyYAML has no constructor
#    (in KEY position both treat it as a merge key - that is known finding C19-merge-key)
#  * `1e3`, `0o17`: float / int for yaml.v3, strings for PyYAML -> the writer quotes them, the reader resolves them
import re as _re
_EXTRA_FLOAT = _re.compile(r"^[-+]?(?:[0-9][0-9_]*)(?:\.[0-9_]*)?[eE][-+]?[0-9]+$")
_EXTRA_INT = _re.compile(r"^[-+]?0o[0-7_]+$")


class Loader(yaml.SafeLoader):
    pass


class Dumper(yaml.SafeDumper):
    pass


for _cls in (Loader, Dumper):
    _cls.yaml_implicit_resolvers = {k: [(t, r) for t, r in v if t != "tag:yaml.org,2002:value"]
                                    for k, v in yaml.SafeLoader.yaml_implicit_resolvers.items()}
    _cls.add_implicit_resolver("tag:yaml.org,2002:float", _EXTRA_FLOAT, list("-+0123456789"))
    _cls.add_implicit_resolver("tag:verif,2026:int0o", _EXTRA_INT, list("-+0"))
Loader.add_constructor("tag:yaml.org,2002:merge", lambda l, n: l.construct_scalar(n))
Loader.add_constructor("tag:verif,2026:int0o", lambda l, n: int(l.construct_scalar(n).replace("_", "").replace("0o", ""), 8))


def dump(tree, **opts):
    return yaml.dump(tree, Dumper=Dumper, **opts)


def load_yaml(text):
    return yaml.load(text, Loader=Loader)


# ---------------------------------------------------------------------------------------------
# running the implementation
def base_env():
    env = {k: v for k, v in os.environ.items() if not k.startswith("MOCKERY_")}
    env.update({"GOPROXY": "off", "GOFLAGS": "-mod=mod"})
    return env


def classify(p):
    txt = (p.stdout + p.stderr).decode(errors="replace")
    if "panic:" in txt or "goroutine " in txt or p.returncode not in (0, 1):
        return "panic"
    return "ok" if p.returncode == 0 else "err"


def sha(path):
    return hashlib.sha256(path.read_bytes()).hexdigest()


def listing(d):
    return sorted((str(p.relative_to(d)), sha(p)) for p in d.rglob("*") if p.is_file())


def run_case(ctx, idx, text, cli="explicit", pre_out=None, stream="main"):
    """One scratch directory per case.  Returns the projected observables.
    pre_out = history of the output path before the observed run:
      None                      nothing there
      bytes / ("bytes", b)      a file with that content (stale v3 YAML, other YAML, garbage, empty)
      ("migrate", textA, how)   `mockery migrate` of ANOTHER v2 file was run to the same output path first
                                (how = "edited": the v2 file itself was then replaced by the current one;
                                 how = "other": A lives at another path, e.g. another project's config)
    Whenever the output path has a history the current v2 file is also migrated to a fresh path."""
    d = ctx.scratch / stream / ("c%05d" % idx)
    shutil.rmtree(d, ignore_errors=True)
    d.mkdir(parents=True)
    (d / "go.mod").write_text("module example.com/scratch\n\ngo 1.23\n\nrequire github.com/stretchr/testify v1.10.0\n")
    shutil.copy(REPO / "go.sum", d / "go.sum")
    (d / "sentinel.txt").write_text("keep me\n")
    inname, outname = {"explicit": ("v2.yml", "out/v3.yml"), "default-out": ("conf/v2.yaml", ".mockery_v3.yml"),
                       "search": (".mockery.yml", "v3.yaml")}[cli]
    (d / "out").mkdir()
    (d / inname).parent.mkdir(exist_ok=True)
    data = text if isinstance(text, bytes) else text.encode()
    if isinstance(pre_out, (bytes, bytearray)):
        pre_out = ("bytes", bytes(pre_out))
    first = None
    if pre_out is not None and pre_out[0] == "bytes":
        (d / outname).write_bytes(pre_out[1])
    elif pre_out is not None:
        _, text_a, how = pre_out
        name_a = inname if how == "edited" else "other/v2a.yml"
        (d / name_a).parent.mkdir(exist_ok=True)
        (d / name_a).write_bytes(text_a.encode())
        cmd_a = [ctx.bins["mockery"], "migrate"] + ([] if (cli == "search" and how == "edited") else ["--config", name_a])
        if cli != "default-out":
            cmd_a += ["--outfile", outname]
        pa = run(cmd_a, cwd=d, env=base_env(), timeout=120)
        first = {"exit": classify(pa), "cmd": " ".join(cmd_a[1:]), "out_text": (d / outname).read_text(errors="replace") if (d / outname).exists() else None}
    (d / inname).write_bytes(data)
    before = listing(d)
    cmd = [ctx.bins["mockery"], "migrate"]
    if cli != "search":
        cmd += ["--config", inname]
    if cli != "default-out":
        cmd += ["--outfile", outname]
    p = run(cmd, cwd=d, env=base_env(), timeout=120)
    after = listing(d)
    obs = {"exit": classify(p), "rc": p.returncode, "cmd": " ".join(cmd[1:]), "in": inname, "out": outname}
    obs["history"] = None if pre_out is None else pre_out[0] + ("" if pre_out[0] == "bytes" else ":" + pre_out[2])
    obs["first_run"] = first
    if pre_out is not None:
        # reference: the same v2 file migrated to a path that does not exist yet
        (d / "fresh").mkdir()
        cmd_f = [ctx.bins["mockery"], "migrate"] + ([] if cli == "search" else ["--config", inname]) + ["--outfile", "fresh/v3.yml"]
        pf = run(cmd_f, cwd=d, env=base_env(), timeout=120)
        obs["fresh_exit"] = classify(pf)
        obs["fresh_bytes"] = (d / "fresh" / "v3.yml").read_bytes() if (d / "fresh" / "v3.yml").exists() else None
        obs["out_bytes"] = (d / outname).read_bytes() if (d / outname).exists() else None
    changed = sorted(set(dict(before)) ^ set(dict(after)) | {f for f, h in after if dict(before).get(f, h) != h})
    obs["changed_files"] = changed
    obs["input_unchanged"] = (d / inname).exists() and sha(d / inname) == hashlib.sha256(data).hexdigest()
    outp = d / outname
    # (a pre-existing output that a failing run left alone is not "written"; a successful run may
    #  rewrite the very bytes that an earlier migration of the same file left there)
    obs["out_exists"] = outp.exists() and (outname in changed or (obs["exit"] == "ok" and pre_out is not None))
    obs["out_text"] = None
    obs["load"] = None
    if obs["exit"] == "panic":
        obs["trace"] = (p.stdout + p.stderr).decode(errors="replace")[-1500:]
    if obs["exit"] == "ok" and outp.exists():
        obs["out_text"] = outp.read_text(errors="replace")
        q = run([ctx.bins["mockery"], "showconfig", "--config", outname], cwd=d, env=base_env(), timeout=300)
        obs["load"] = classify(q)
        if obs["load"] != "ok":
            err = [l for l in q.stderr.decode(errors="replace").split("\n") if " DBG " not in l]
            obs["load_msg"] = "\n".join(err)[:1200]
    shutil.rmtree(d, ignore_errors=True)
    return obs


def run_loader(ctx, idx, text):
    d = ctx.scratch / "loader" / ("l%05d" % idx)
    shutil.rmtree(d, ignore_errors=True)
    d.mkdir(parents=True)
    (d / "go.mod").write_text("module example.com/scratch\n\ngo 1.23\n")
    (d / "v3.yml").write_text(text)
    q = run([ctx.bins["mockery"], "showconfig", "--config", "v3.yml"], cwd=d, env=base_env(), timeout=300)
    shutil.rmtree(d, ignore_errors=True)
    return classify(q)


# ---------------------------------------------------------------------------------------------
# which strings compile: Go's own regexp.Compile, through harness/go/drv_regex
import threading as _threading
_RE_LOCK = _threading.Lock()


def re_ok_many(ctx, strings):
    cache = ctx.__dict__.setdefault("re_cache", {})
    with _RE_LOCK:
        todo = sorted({x for x in strings if x not in cache})
        if todo:
            p = run([ctx.bins["drv_regex"]], inp=json.dumps([x.encode().hex() for x in todo]).encode(), timeout=300)
            if p.returncode != 0:
                raise RuntimeError("drv_regex failed: " + p.stderr.decode(errors="replace")[-2000:])
            for x, ok in zip(todo, json.loads(p.stdout)):
                cache[x] = ok
    return cache


def all_strings(v, acc=None):
    acc = set() if acc is None else acc
    if isinstance(v, str):
        acc.add(v)
    elif isinstance(v, dict):
        for x in v.values():
            all_strings(x, acc)
    elif isinstance(v, list):
        for x in v:
            all_strings(x, acc)
    return acc


def bad_of(ctx, *trees):
    """the string values of the trees that regexp.Compile refuses"""
    ss = set()
    for t in trees:
        all_strings(t, ss)
    ok = re_ok_many(ctx, ss)
    return sorted(x for x in ss if not ok[x])


def v2_regex_values(v2):
    out = []
    for _, c in levels_of(v2 or {}):
        if not isinstance(c, dict):
            continue
        for k in ("include-regex", "exclude-regex"):
            if isinstance(c.get(k), str):
                out.append(c[k])
        out += [x for x in (c.get("exclude") or []) if isinstance(x, str)]
    return out


REGEX_DIAG = re.compile(r"invalid `(include-interface-regex|exclude-interface-regex|exclude-subpkg-regex)`: error parsing regexp")


# ---------------------------------------------------------------------------------------------
# the property, evaluated directly on the two parsed YAML documents (no model involved)
def empty(v):
    return v is None or v == [] or v == {}


def same(a, b):
    if type(a) is not type(b):
        return False
    if isinstance(a, dict):
        return set(a) == set(b) and all(same(a[k], b[k]) for k in a)
    if isinstance(a, list):
        return len(a) == len(b) and all(same(x, y) for x, y in zip(a, b))
    return a == b


def get_path(node, path):
    for k in path:
        if not isinstance(node, dict) or k not in node:
            return None
        node = node[k]
    return node


def oracle_cfg(where, c2, c3, top, errs):
    """c2: the v2 configuration mapping of one level (None = absent), c3: the v3 node at the same level."""
    if c2 is None:
        if c3 is not None:
            errs.append("%s: v3 has a configuration node, v2 has none" % where)
        return
    if not isinstance(c3, dict):
        errs.append("%s: v2 has a configuration node, v3 has %r" % (where, c3))
        return
    for k, place in MAPPED.items():
        v2 = c2.get(k)
        v3 = get_path(c3, place)
        if empty(v2):
            if not empty(v3):
                errs.append("%s: %s is not set in v2 but v3 %s = %r" % (where, k, "/".join(place), v3))
        elif not same(v2, v3):
            errs.append("%s: v2 %s = %r but v3 %s = %r" % (where, k, v2, "/".join(place), v3))
    # nothing invented: every v3 key of this node is the place of a mapped v2 key that is set here
    for k3, v3 in c3.items():
        if top and k3 == "packages":
            continue
        if top and k3 == "template":
            if v3 not in ("testify",):
                errs.append("%s: template = %r" % (where, v3))
            continue
        if k3 == "template-data":
            if not isinstance(v3, dict):
                errs.append("%s: template-data = %r" % (where, v3)); continue
            for kk in v3:
                if ("template-data", kk) not in V3_OF or empty(c2.get(V3_OF[("template-data", kk)])):
                    errs.append("%s: template-data.%s = %r has no v2 origin at this level" % (where, kk, v3[kk]))
            continue
        if (k3,) not in V3_OF or empty(c2.get(V3_OF[(k3,)])):
            errs.append("%s: %s = %r has no v2 origin at this level" % (where, k3, v3))


def text_diff(a, b):
    import difflib
    a = (a or b"").decode(errors="replace").splitlines()
    b = (b or b"").decode(errors="replace").splitlines()
    return "\n".join(list(difflib.unified_diff(a, b, "fresh-path", "existing-outfile", lineterm="", n=1))[:40])


def oracle(v2, v3, obs, bad=()):
    """bad: the strings (of this case) that are not regular expressions"""
    errs = []
    if obs["exit"] != "ok":
        errs.append("migrate exit class %s (rc=%s) on a decodable v2 file" % (obs["exit"], obs["rc"]))
        return errs
    if not obs["input_unchanged"]:
        errs.append("the input file was modified")
    if obs.get("history") is not None:
        # the result depends only on the current v2 file
        if obs.get("fresh_exit") != obs["exit"]:
            errs.append("outfile already existed (%s): exit class %s, but %s when migrating to a fresh path" % (obs["history"], obs["exit"], obs.get("fresh_exit")))
        elif obs.get("fresh_bytes") != obs.get("out_bytes"):
            errs.append("outfile already existed (%s): the written file differs from migrating the same v2 file to a fresh path:\n%s"
                        % (obs["history"], text_diff(obs.get("fresh_bytes"), obs.get("out_bytes"))))
    if obs["changed_files"] != [obs["out"]] and not (obs.get("history") is not None and obs["changed_files"] == []):
        errs.append("files created/changed: %r (expected only %s)" % (obs["changed_files"], obs["out"]))
    if not isinstance(v3, dict):
        errs.append("output is not a YAML mapping: %r" % (v3,))
        return errs
    v2 = v2 or {}
    oracle_cfg("top", {k: v for k, v in v2.items() if k != "packages"}, v3, True, errs)
    p2, p3 = v2.get("packages") or {}, v3.get("packages")
    if not isinstance(p3, dict):
        errs.append("packages node: %r" % (p3,)); p3 = {}
    if set(p2) != set(p3):
        errs.append("package names differ: v2 %r v3 %r" % (sorted(map(repr, p2)), sorted(map(repr, p3))))
    for pn, pk2 in p2.items():
        pk2, pk3 = pk2 or {}, p3.get(pn) or {}
        for k in pk3:
            if k not in ("config", "interfaces"):
                errs.append("package %r: key %r" % (pn, k))
        oracle_cfg("package %r" % pn, pk2.get("config"), pk3.get("config"), False, errs)
        i2, i3 = pk2.get("interfaces") or {}, pk3.get("interfaces") or {}
        if set(i2) != set(i3):
            errs.append("package %r: interface names differ: v2 %r v3 %r" % (pn, sorted(map(repr, i2)), sorted(map(repr, i3))))
        for iname, ic2 in i2.items():
            ic2, ic3 = ic2 or {}, i3.get(iname) or {}
            for k in ic3:
                if k not in ("config", "configs"):
                    errs.append("interface %r.%r: key %r" % (pn, iname, k))
            oracle_cfg("interface %r.%r config" % (pn, iname), ic2.get("config"), ic3.get("config"), False, errs)
            s2, s3 = ic2.get("configs") or [], ic3.get("configs") or []
            if len(s2) != len(s3):
                errs.append("interface %r.%r: %d configs entries in v2, %d in v3" % (pn, iname, len(s2), len(s3)))
            for n, (a, b) in enumerate(zip(s2, s3)):
                oracle_cfg("interface %r.%r configs[%d]" % (pn, iname, n), a or {}, b, False, errs)
    invalid = [x for x in v2_regex_values(v2) if x in set(bad)]
    if invalid:
        # the value is carried over unchanged (checked above like every other value); the loader validates
        # every configured expression and must refuse the file with that diagnostic
        if obs["load"] != "err" or not REGEX_DIAG.search(obs.get("load_msg") or ""):
            errs.append("v2 regex value(s) %r do not compile, but the loader did not reject the migrated file with the regex diagnostic: "
                        "`mockery showconfig` -> %s: %s" % (invalid[:3], obs["load"], (obs.get("load_msg") or "")[:400]))
    elif obs["load"] != "ok":
        errs.append("the strict loader does not accept the migrated file: `mockery showconfig` -> %s: %s"
                    % (obs["load"], (obs.get("load_msg") or "")[:400]))
    return errs


# ---------------------------------------------------------------------------------------------
# Gallina printers
def coq_bytes(b):
    """explicit byte list: coqc elaborates it ~13x faster than the `B "..."` string notation"""
    if isinstance(b, str):
        b = b.encode()
    return "[" + ";".join("x%02x" % c for c in b) + "]"


def yv_term(v):
    if v is None: return "YNull"
    if isinstance(v, bool): return "YBool %s" % coq_bool(v)
    if isinstance(v, int): return "YInt (%d)%%Z" % v
    if isinstance(v, str): return "YStr %s" % coq_bytes(v.encode())
    if isinstance(v, list): return "YList %s" % coq_list("(%s)" % yv_term(x) for x in v)
    if isinstance(v, dict): return "YMap %s" % entries_term(v)
    raise ValueError("not representable as yv: %r" % (v,))


def entries_term(d):
    for k in d:
        if not isinstance(k, str):
            raise ValueError("non-string key %r" % (k,))
    return coq_list("(%s, %s)" % (coq_bytes(k.encode()), yv_term(x)) for k, x in d.items())


def cfg_term(d):
    """decoded V2Config: a null value is a nil pointer"""
    d = d or {}
    for k in d:
        if k not in KTYPE:
            raise ValueError("unknown v2 key %r" % k)
    fs = []
    for k, f, t in V2KEYS:
        v = d.get(k)
        if v is None:
            fs.append("%s := None" % f)
        elif t == "bool":
            assert isinstance(v, bool), (k, v)
            fs.append("%s := Some %s" % (f, coq_bool(v)))
        elif t == "str":
            assert isinstance(v, str), (k, v)
            fs.append("%s := Some %s" % (f, coq_bytes(v.encode())))
        elif t == "strlist":
            assert isinstance(v, list) and all(isinstance(x, str) for x in v), (k, v)
            fs.append("%s := Some %s" % (f, coq_list(coq_bytes(x.encode()) for x in v)))
        else:
            assert isinstance(v, dict), (k, v)
            fs.append("%s := Some %s" % (f, entries_term(v)))
    return "{| %s |}" % "; ".join(fs)


def root_term(v2, pkg_pairs=None):
    v2 = v2 or {}
    top = {k: v for k, v in v2.items() if k != "packages"}
    pairs = pkg_pairs if pkg_pairs is not None else list((v2.get("packages") or {}).items())
    pk_terms = []
    for pn, pk in pairs:
        pk = pk or {}
        ifs = []
        for iname, ic in (pk.get("interfaces") or {}).items():
            ic = ic or {}
            cfgs = [cfg_term(c) for c in (ic.get("configs") or []) if c is not None]   # yaml.v3 drops null entries
            ifs.append("(%s, {| i_config := %s; i_configs := %s |})" % (
                coq_bytes(iname.encode()), coq_opt(ic.get("config"), lambda c: "(%s)" % cfg_term(c)) if ic.get("config") is not None else "None",
                coq_list(cfgs)))
        pc = pk.get("config")
        pk_terms.append("(%s, {| p_config := %s; p_ifaces := %s |})" % (
            coq_bytes(pn.encode()), "None" if pc is None else "(Some %s)" % cfg_term(pc), coq_list(ifs)))
    return "{| r_top := %s; r_pkgs := %s |}" % (cfg_term(top), coq_list(pk_terms))


OBS = {"ok": "OOk", "err": "OErr", "panic": "OPanic"}


def case_term(v2, obs, v3, dup_pairs=None, bad=()):
    out = "None" if v3 is None or not obs["out_exists"] else "(Some (%s))" % yv_term(v3)
    ld = "None" if obs["load"] is None else "(Some %s)" % OBS[obs["load"]]
    return "{| c_in := %s; c_exit := %s; c_out := %s; c_load := %s; c_badre := %s |}" % (
        root_term(v2, dup_pairs), OBS[obs["exit"]], out, ld, coq_list(coq_bytes(x.encode()) for x in bad))


# ---------------------------------------------------------------------------------------------
# shrinking (greedy deletion on the parsed v2 document)
def deletions(v, path=()):
    if isinstance(v, dict):
        for k in list(v):
            yield path + (k,)
        for k in list(v):
            yield from deletions(v[k], path + (k,))
    elif isinstance(v, list):
        for i in range(len(v)):
            yield path + (i,)
        for i in range(len(v)):
            yield from deletions(v[i], path + (i,))


def delete_at(v, path):
    v = json.loads(json.dumps(v))
    node = v
    for k in path[:-1]:
        node = node[k]
    del node[path[-1]]
    return v


def shrink(ctx, v2, fails, budget=400):
    try:
        cur = json.loads(json.dumps(v2))          # drops aliasing, keeps the value
    except (TypeError, ValueError):
        return v2
    if not fails(cur):
        return v2
    n = 0
    progress = True
    while progress and n < budget:
        progress = False
        for path in sorted(deletions(cur), key=len):
            n += 1
            if n >= budget:
                break
            try:
                cand = delete_at(cur, path)
            except (KeyError, IndexError, TypeError):
                continue
            if fails(cand):
                cur = cand
                progress = True
                break
    return cur


def category(errs):
    """coarse class of an oracle failure: which clause of the property fails"""
    e = errs[0]
    for key in ("strict loader", "regex diagnostic", "exit class", "input file was modified", "fresh path", "files created", "no v2 origin", "is not set in v2",
                "names differ", "configs entries", "not parseable", "configuration node", "harness"):
        if any(key in x for x in errs):
            return key
    return "value" if " but v3 " in e else e[:40]


def evaluate(ctx, v2, idx=99990, cli="explicit", pre=None):
    text = dump(v2, sort_keys=False, allow_unicode=True, default_flow_style=False)
    obs = run_case(ctx, idx, text, cli, pre, stream="shrink")
    v3 = None
    if obs["out_text"] is not None:
        try:
            v3 = load_yaml(obs["out_text"])
        except yaml.YAMLError as e:
            return text, obs, None, ["output is not parseable YAML: %s" % e]
    v2p = load_yaml(text)
    return text, obs, v3, oracle(v2p, v3, obs, bad_of(ctx, v2p, v3))


# ---------------------------------------------------------------------------------------------
# loader stream: mutations of v3 trees
V3_CFG_KEYS = ["all", "_anchors", "build-tags", "config", "dir", "exclude-subpkg-regex", "exclude-interface-regex", "filename",
               "force-file-write", "formatter", "include-interface-regex", "log-level", "structname", "pkgname", "recursive",
               "replace-type", "require-template-schema-exists", "template", "template-data", "template-schema"]
V3_SAMPLE = {"all": True, "_anchors": {"a": 1}, "build-tags": "t", "config": "c", "dir": "d", "exclude-subpkg-regex": ["e"],
             "exclude-interface-regex": "x", "filename": "f.go", "force-file-write": False, "formatter": "gofmt",
             "include-interface-regex": "i", "log-level": "info", "structname": "S", "pkgname": "p", "recursive": False,
             "replace-type": {"a/b": {"T": {"pkg-path": "c/d", "type-name": "U"}}}, "require-template-schema-exists": False,
             "template": "testify", "template-data": {"k": [1, {"z": None}]}, "template-schema": "s"}
FOREIGN = ["mockname", "outpkg", "include-regex", "exclude-regex", "exclude", "boilerplate-file", "mock-build-tags",
           "unroll-variadic", "with-expecter", "inpackage", "tags", "packages", "interfaces", "configs", "Config", "ALL", "all ", ""]
WRONG = [5, "str", True, ["l"], {"m": 1}, [1], None, [None], {}]


def cfg_nodes(t, path=()):
    """(path, node) of every configuration node of a v3 tree"""
    yield path, t
    for pn, pk in (t.get("packages") or {}).items():
        if not isinstance(pk, dict):
            continue
        if isinstance(pk.get("config"), dict):
            yield path + ("packages", pn, "config"), pk["config"]
        for iname, ic in (pk.get("interfaces") or {}).items():
            if not isinstance(ic, dict):
                continue
            if isinstance(ic.get("config"), dict):
                yield path + ("packages", pn, "interfaces", iname, "config"), ic["config"]
            for n, c in enumerate(ic.get("configs") or []):
                if isinstance(c, dict):
                    yield path + ("packages", pn, "interfaces", iname, "configs", n), c


def mutate_v3(rng, t, hist):
    t = json.loads(json.dumps(t))
    t.setdefault("packages", {})
    if not t["packages"] or rng.random() < 0.3:
        t["packages"]["example.com/added"] = {"config": {}, "interfaces": {"I": {"config": {}, "configs": [{}, {}]}}}
    # keep the stream outside other properties' loader defects (see NOTES/C19.md)
    for _, n in cfg_nodes(t):
        n.pop("recursive", None)
    kind = rng.choice(["none", "valid-key", "foreign-key", "wrong-shape", "struct-key", "null-node", "null-sub", "struct-shape",
                       "case-variant", "case-duplicate", "bad-regex"])
    bump(hist, kind)
    nodes = list(cfg_nodes(t))
    path, node = rng.choice(nodes)
    if kind == "bad-regex":
        # the loader compiles every configured expression at every level
        badv = rng.choice(RE_BAD[0] or ["("])
        k = rng.choice(["include-interface-regex", "exclude-interface-regex", "exclude-subpkg-regex"])
        if path != () and rng.random() < 0.3:
            k = k.title()
        node[k] = [rng.choice(["ok", ".*"]), badv] if k.lower() == "exclude-subpkg-regex" else badv
    elif kind == "valid-key":
        k = rng.choice([k for k in V3_CFG_KEYS if k != "recursive"])
        node[k] = V3_SAMPLE[k]
    elif kind == "foreign-key":
        k = rng.choice(FOREIGN)
        if path == () and k == "packages":
            k = "interfaces"
        node[k] = rng.choice([True, "x", {"a": 1}])
    elif kind == "wrong-shape":
        k = rng.choice([k for k in V3_CFG_KEYS if k != "recursive"])
        node[k] = rng.choice(WRONG)
    elif kind in ("case-variant", "case-duplicate"):
        # mapstructure folds letter case; a second spelling of the same field (or, at the top level, of a
        # key the defaults already have) is an unused key
        cands = [(path, node)] + [((), t)]
        for pn, pk in t["packages"].items():
            if isinstance(pk, dict):
                cands.append((("packages", pn), pk))
                for iname, ic in (pk.get("interfaces") or {}).items():
                    if isinstance(ic, dict):
                        cands.append((("packages", pn, "interfaces", iname), ic))
        cpath, cnode = rng.choice(cands)
        if not cnode:
            cnode["dir" if cpath == () or cpath[-1] in ("config",) or isinstance(cpath[-1], int) else "config"] = "d" if cpath == () or cpath[-1] == "config" or isinstance(cpath[-1], int) else {}
        k = rng.choice(list(cnode))
        variant = rng.choice([k.upper(), k.title(), k[:1].upper() + k[1:]])
        if variant != k:
            if kind == "case-variant":
                cnode[variant] = cnode.pop(k)
            else:
                cnode[variant] = json.loads(json.dumps(cnode[k]))
    elif kind in ("struct-key", "struct-shape", "null-node", "null-sub"):
        pn = rng.choice(list(t["packages"]))
        pk = t["packages"][pn]
        if not isinstance(pk, dict):
            pk = t["packages"][pn] = {}
        ifs = pk.setdefault("interfaces", None) or {}
        pk["interfaces"] = ifs
        if not ifs:
            ifs["I"] = {"configs": [{}]}
        iname = rng.choice(list(ifs))
        if not isinstance(ifs[iname], dict):
            ifs[iname] = {}
        if kind == "struct-key":
            rng.choice([pk, ifs[iname]])[rng.choice(["cfg", "config ", "iface", "all", "template", "packages"])] = {}
        elif kind == "struct-shape":
            w = rng.randrange(5)
            if w == 0: pk["config"] = rng.choice(["x", [1], 3])
            elif w == 1: pk["interfaces"] = rng.choice(["x", ["I"], 3])
            elif w == 2: ifs[iname]["configs"] = rng.choice([{"a": {}}, "x", [3], ["x"]])
            elif w == 3: ifs[iname]["config"] = rng.choice(["x", [1]])
            else: t["packages"] = rng.choice([["a"], "x"])
        elif kind == "null-node":
            w = rng.randrange(5)
            if w == 0: t["packages"][pn] = None
            elif w == 1: pk["config"] = None
            elif w == 2: pk["interfaces"] = None
            elif w == 3: ifs[iname] = None
            else: ifs[iname]["configs"] = None
        else:
            ifs[iname]["configs"] = [{}, None] if rng.random() < 0.5 else [None]
    return t


# ---------------------------------------------------------------------------------------------
# malformed stream
def malformed_cases(rng, hist, n):
    out = []
    base = lambda: gen_tree(rng, new_hist(), rng.choice(["sparse", "medium"]))
    def anynode(t):
        nodes = [("top", t)]
        for pn, pk in (t.get("packages") or {}).items():
            if isinstance(pk, dict):
                nodes.append(("pkg-struct", pk))
                if isinstance(pk.get("config"), dict): nodes.append(("pkg", pk["config"]))
                for iname, ic in (pk.get("interfaces") or {}).items():
                    if isinstance(ic, dict):
                        nodes.append(("iface-struct", ic))
                        if isinstance(ic.get("config"), dict): nodes.append(("iface", ic["config"]))
                        for c in ic.get("configs") or []:
                            if isinstance(c, dict): nodes.append(("sub", c))
        return rng.choice(nodes)
    kinds = ["unknown-key", "container-for-scalar", "scalar-for-container", "scalar-coercion", "duplicate-key", "duplicate-package",
             "empty-file", "garbage", "non-mapping", "missing-input", "unwritable-output", "v3-file", "undefined-alias"]
    for i in range(n):
        kind = kinds[i % len(kinds)]
        bump(hist, kind)
        t = json.loads(json.dumps(base()))
        expect = "err"
        cli = "explicit"
        text = None
        if kind == "unknown-key":
            where, node = anynode(t)
            node[rng.choice(["template", "structname ", "pkgname", "include-interface-regex", "bogus", "All", "template-data", "filenam"])] = rng.choice([True, "x", {"a": 1}])
        elif kind == "container-for-scalar":
            where, node = anynode(t)
            while where.endswith("struct"):
                where, node = anynode(t)
            k = rng.choice([k for k, _, ty in V2KEYS if ty in ("bool", "str")])
            node[k] = rng.choice([["a"], {"a": 1}])
        elif kind == "scalar-for-container":
            w = rng.randrange(5)
            if w == 0: t[rng.choice(["exclude", "replace-type", "_anchors"])] = rng.choice(["x", 3, True])
            elif w == 1: t["packages"] = rng.choice(["x", ["a"], 3])
            elif w == 2: t["packages"] = {"p": {"config": rng.choice(["x", ["a"]])}}
            elif w == 3: t["packages"] = {"p": {"interfaces": rng.choice(["x", ["I"]])}}
            else: t["packages"] = {"p": {"interfaces": {"I": {"configs": rng.choice([{"a": 1}, "x", ["x"]])}}}}
        elif kind == "scalar-coercion":
            # yaml.v3 decodes any scalar into a string field and 1.1 booleans into bool fields:
            # accepted or rejected, but never a crash, and what is written must load
            k = rng.choice([k for k, _, ty in V2KEYS if ty in ("bool", "str")])
            t[k] = rng.choice([3, 1.5, True, "yes", "on", "true", 0]) if KTYPE[k] == "str" else rng.choice(["yes", "on", 1, 0, "true", "x", 2.5])
            expect = "any"
        elif kind == "duplicate-key":
            text = dump(t, sort_keys=False) + "\nall: true\nall: false\n"
            if "all" in t:
                text = dump(t, sort_keys=False) + "\nall: false\n"
        elif kind == "duplicate-package":
            t["packages"] = {"DUPA": {"config": {"all": True}}, "DUPB": {"config": {"all": False}}}
            text = dump(t, sort_keys=False).replace("DUPB", "DUPA")
        elif kind == "empty-file":
            text = rng.choice(["", "\n", "# only a comment\n", "---\n"])
            expect = "any"          # `---` alone is a null document: decodes to the zero value
        elif kind == "garbage":
            text = rng.choice(["\tall: true\n", "all: [true\n", "{{{{", "all: true\n  dir: x\n", "\x00\x01\x02", "a: b: c\n", "key: 'unterminated\n"])
        elif kind == "non-mapping":
            text = rng.choice(["- a\n- b\n", "just a string\n", "42\n", "[all, dir]\n"])
        elif kind == "missing-input":
            cli = "missing"
        elif kind == "unwritable-output":
            cli = "nodir"
        elif kind == "v3-file":
            t = {"template": "testify", "structname": "X", "packages": {"p": {"config": {"pkgname": "y"}}}}
        elif kind == "undefined-alias":
            text = "dir: *nope\n"
        if text is None:
            text = dump(t, sort_keys=False, allow_unicode=True)
        out.append({"kind": kind, "text": text, "expect": expect, "cli": cli})
    return out


def run_malformed(ctx, idx, m):
    d = ctx.scratch / "malformed" / ("m%05d" % idx)
    shutil.rmtree(d, ignore_errors=True)
    d.mkdir(parents=True)
    (d / "sentinel.txt").write_text("keep me\n")
    data = m["text"].encode("utf-8", errors="surrogateescape")
    if m["cli"] != "missing":
        (d / "v2.yml").write_bytes(data)
    outname = "no/such/dir/v3.yml" if m["cli"] == "nodir" else "v3.yml"
    before = listing(d)
    p = run([ctx.bins["mockery"], "migrate", "--config", "v2.yml", "--outfile", outname], cwd=d, env=base_env(), timeout=120)
    after = listing(d)
    obs = {"exit": classify(p), "rc": p.returncode, "changed": sorted(set(before) ^ set(after)), "load": None}
    if obs["exit"] == "panic":
        obs["trace"] = (p.stdout + p.stderr).decode(errors="replace")[-1500:]
    if obs["exit"] == "ok" and (d / outname).exists():
        q = run([ctx.bins["mockery"], "showconfig", "--config", outname], cwd=d, env=base_env(), timeout=300)
        obs["load"] = classify(q)
    shutil.rmtree(d, ignore_errors=True)
    errs = []
    if obs["exit"] == "panic":
        errs.append("Go panic on a malformed v2 file")
    if m["expect"] == "err" and obs["exit"] != "err":
        errs.append("expected an error exit, got %s" % obs["exit"])
    if obs["exit"] == "err" and obs["changed"]:
        errs.append("failing run changed files: %r" % obs["changed"])
    if obs["exit"] == "ok":
        if any(f != outname for f, _ in obs["changed"]):
            errs.append("files other than the output changed: %r" % obs["changed"])
        if obs["load"] != "ok":
            errs.append("accepted file was migrated to something the loader refuses: %s" % obs["load"])
    return obs, errs


# ---------------------------------------------------------------------------------------------
# known finding C19-merge-key: witness stream
def has_merge(v2):
    """Python mirror of the Coq guard [v2_merge_free] (the Coq evaluation is authoritative)"""
    def anyv(v):
        if isinstance(v, dict):
            return any(k == MERGE or anyv(x) for k, x in v.items())
        if isinstance(v, list):
            return any(anyv(x) for x in v)
        return False
    for _, c in levels_of(v2 or {}):
        if isinstance(c, dict) and anyv(c.get("_anchors")):
            return True
    for pn, pk in ((v2 or {}).get("packages") or {}).items():
        if pn == MERGE or any(i == MERGE for i in ((pk or {}).get("interfaces") or {})):
            return True
    return False


def witness_inputs(rng):
    w = [
        {"packages": {"p": {"interfaces": {MERGE: {}}}}},                       # C19_names_preserved_refuted
        {"packages": {"p": {"interfaces": {MERGE: {"configs": [{}]}}}}},
        {"packages": {"p": {"interfaces": {MERGE: {"config": {"all": True}}, "I": None}}}},
        {"packages": {MERGE: {"config": {"all": True}}}},
        {"packages": {MERGE: None, "q": None}},
        # (below the top level: independent of the loader's handling of a top-level `_anchors`)
        {"packages": {"q": {"config": {"_anchors": {MERGE: 65536}}}}},
        {"packages": {"q": {"config": {"_anchors": {MERGE: {"a": 1}, "b": 2}}}}},
        {"packages": {"q": {"interfaces": {"I": {"config": {"_anchors": {"x": {MERGE: [{"a": 1}, {"a": 2, "c": 3}]}}}}}}}},
        {"packages": {"p": {"config": {"_anchors": {MERGE: "s"}}}}},
        {"packages": {"p": {"interfaces": {"I": {"configs": [{"_anchors": {MERGE: {"k": None}}}]}}}}},
    ]
    for _ in range(4):
        t = json.loads(json.dumps(gen_tree(rng, new_hist(), "sparse")))
        t.pop("_anchors", None)
        pk = t.setdefault("packages", None) or {}
        t["packages"] = pk
        pk["example.com/w"] = {"interfaces": {MERGE: {"configs": [{"mockname": "W"}]}, "Keep": {}}}
        w.append(t)
    return w


# ---------------------------------------------------------------------------------------------
# what the output path holds before the observed run
LEGACY = {"config": {"recursive": True, "include-regex": "^Old.*", "mock-build-tags": "legacy", "_anchors": {"old": 1}},
          "interfaces": {"OldThing": {"config": {"mockname": "OldThingMock", "with-expecter": False},
                                      "configs": [{"unroll-variadic": True, "mockname": "OldA"}, {"outpkg": "oldpkg"}]}}}
STALE_V3 = {"template": "matryer", "template-data": {"stale": True, "unroll-variadic": False, "boilerplate-file": "old.txt"},
            "structname": "Stale{{.InterfaceName}}", "formatter": "gofmt", "dir": "stale/dir", "_anchors": {"stale": [1, 2]},
            "packages": {"example.com/stale": {"config": {"all": True, "template-data": {"k": 1}},
                                               "interfaces": {"Old": {"config": {"pkgname": "old"}, "configs": [{"structname": "X"}]}}}}}


def gen_history(rng, hist, tree):
    r = rng.random()
    if r < 0.45:
        bump(hist["history"], "fresh"); return None
    how = rng.choice(["edited", "other"])
    if r < 0.63:
        a = gen_tree(rng, new_hist(), rng.choice(["medium", "dense", "anchors", "full"]))
        bump(hist["history"], "migrated-other-v2:" + how)
        return ("migrate", dump_yaml(rng, a, new_hist()), how)
    if r < 0.75:
        # the current file is what is left of A after packages / keys were removed from it
        a = json.loads(json.dumps(tree))
        pk = a.get("packages") or {}
        a["packages"] = pk
        pk["example.com/x/legacy"] = json.loads(json.dumps(LEGACY))
        pk[rng.choice(PKG_NAMES[:8]) + "/gone"] = {"config": gen_cfg(rng, 0.4, "pkg", "gone", new_hist())}
        for k in ("boilerplate-file", "dir", "mock-build-tags", "exclude", "_anchors", "with-expecter"):
            if k not in a and rng.random() < 0.6:
                a[k] = gen_value(rng, k, "removed")
        bump(hist["history"], "migrated-superset-v2:" + how)
        return ("migrate", dump(a, sort_keys=False, allow_unicode=True), how)
    if r < 0.81:
        bump(hist["history"], "migrated-same-v2:" + how)
        return ("migrate", dump(json.loads(json.dumps(tree)), sort_keys=False, allow_unicode=True), how)
    if r < 0.89:
        t = json.loads(json.dumps(STALE_V3))
        t["template"] = rng.choice(["matryer", "testify", "file://x.templ", ""])
        bump(hist["history"], "bytes:v3-yaml")
        return ("bytes", dump(t, sort_keys=False).encode())
    k = rng.choice(["other-yaml", "garbage", "empty", "long-stale"])
    bump(hist["history"], "bytes:" + k)
    return ("bytes", {"other-yaml": b"- a\n- {b: 1}\nnot: a mapping at top\n" if rng.random() < 0.5 else b"foo: bar\npackages: 7\n",
                      "garbage": rng.choice([b"\x00\x01\xff\xfe{{{", b"\tpackages: [\n", b"packages:\n  p: {config: {all: tru"]),
                      "empty": b"", "long-stale": b"stale: content\n" * 200}[k])


def inject_invalid_regex(rng, tree, hist):
    """the explicit small class: one regex-valued v2 key, at a random level, gets a value that
    Go's regexp package does not compile (migrate must carry it over; the loader must refuse the result)"""
    nodes = [("top", tree)]
    for pn, pk in (tree.get("packages") or {}).items():
        if isinstance(pk, dict):
            if not isinstance(pk.get("config"), dict):
                pk["config"] = {}
            nodes.append(("pkg", pk["config"]))
            for iname, ic in (pk.get("interfaces") or {}).items():
                if isinstance(ic, dict):
                    if isinstance(ic.get("config"), dict):
                        nodes.append(("iface", ic["config"]))
                    for c in ic.get("configs") or []:
                        if isinstance(c, dict):
                            nodes.append(("sub", c))
    lvl, node = rng.choice(nodes)
    key = rng.choice(REGEX_KEYS)
    badv = rng.choice(RE_BAD[0])
    if key == "exclude":
        lst = [x for x in (node.get("exclude") or [])]
        lst.insert(rng.randint(0, len(lst)), badv)
        node["exclude"] = lst
    else:
        node[key] = badv
    bump(hist["invalid_regex_class"], "%s/%s" % (lvl, key))


def pre_to_json(pre):
    if pre is None:
        return None
    if pre[0] == "bytes":
        return {"kind": "bytes", "hex": pre[1].hex(), "text": pre[1].decode(errors="replace")[:2000]}
    return {"kind": "migrate", "v2_yaml_first": pre[1], "how": pre[2]}


def pre_from_json(j):
    if not j:
        return None
    if j["kind"] == "bytes":
        return ("bytes", bytes.fromhex(j["hex"]))
    return ("migrate", j["v2_yaml_first"], j["how"])


def corpus():
    d = VERIF / "corpus" / "C19"
    return [(f.name, f.read_text()) for f in sorted(d.glob("*.yml"))] if d.exists() else []


def summarize(v2):
    v2 = v2 or {}
    pk = v2.get("packages") or {}
    return {"top_keys": sorted(k for k in v2 if k != "packages"), "packages": {str(p): (sorted((v or {}).get("interfaces") or {}) if isinstance(v, dict) else None) for p, v in pk.items()}}


def check(ctx, only=None):
    phase, t_ph = {}, [time.time()]
    def mark(name):
        phase[name] = round(time.time() - t_ph[0], 1)
        t_ph[0] = time.time()
    gate = proof_gate(ctx)
    mark("proof_gate")
    if not ctx.build_tree(drivers=["drv_regex"]):
        ctx.write_evidence(gate, 0, 0, "build failed", [])
        return
    mark("build")
    okm = re_ok_many(ctx, STR_POOL + RE_CANDIDATES_BAD)
    RE_POOL[0] = [x for x in STR_POOL if okm[x]]
    RE_BAD[0] = [x for x in STR_POOL + RE_CANDIDATES_BAD if not okm[x]]
    rng = ctx.rng
    hist = new_hist()
    scale = 10 if ctx.thorough() else 1
    # ---------------- main stream
    inputs = []                                   # (label, yaml text, cli variant, pre-existing output)
    if only is not None:
        inputs = [(o.get("label", "replay"), o["v2_yaml"], o.get("cli", "explicit"), pre_from_json(o.get("outfile_history"))) for o in only]
    else:
        for name, text in corpus():
            inputs.append(("corpus:" + name, text, "explicit", None))
        n_main = 420 * scale
        # exactly one key at exactly one level: the 46 x 4 pairs round-robin, starting at a seeded offset
        # (60 per quick run, all 184 three times over in a thorough run)
        allpairs = [(l, k) for l in LEVELS for k, _, _ in V2KEYS]
        off = rng.randrange(len(allpairs))
        for i in range(n_main):
            kind, single = None, None
            if i % 7 == 0:
                kind, single = "single", allpairs[(off + i // 7) % len(allpairs)]
            tree = gen_tree(rng, hist, kind, single)
            if i % 16 == 5:
                inject_invalid_regex(rng, tree, hist)
            text = dump_yaml(rng, tree, hist)
            cli = rng.choice(["explicit"] * 6 + ["default-out", "search"])
            pre = gen_history(rng, hist, tree)
            bump(hist["cli"], cli + ("+existing-out" if pre is not None else ""))
            inputs.append(("gen%d" % i, text, cli, pre))
    parsed = [load_yaml(t) for _, t, _, _ in inputs]
    obs = pmap(lambda a: run_case(ctx, a[0], a[1][1], a[1][2], a[1][3]), list(enumerate(inputs)))
    mark("main_run")
    outs, oracle_fail, terms, term_idx = [], {}, [], []
    bads, re_outcomes = [], {}
    re_ok_many(ctx, set().union(*[all_strings(v) for v in parsed]) if parsed else set())      # one driver call
    for i, ((label, text, cli, pre), v2, o) in enumerate(zip(inputs, parsed, obs)):
        v3 = None
        e = []
        if o["out_text"] is not None:
            try:
                v3 = load_yaml(o["out_text"])
            except yaml.YAMLError as ex:
                e.append("output is not parseable YAML: %s" % ex)
        outs.append(v3)
        bad = bad_of(ctx, v2, v3)
        bads.append(bad)
        if set(v2_regex_values(v2)) & set(bad):
            bump(re_outcomes, "invalid regex value -> migrate %s, showconfig %s" % (o["exit"], o["load"]))
        else:
            bump(re_outcomes, "all regex values compile -> migrate %s, showconfig %s" % (o["exit"], o["load"]))
        e += oracle(v2, v3, o, bad)
        if e:
            oracle_fail[i] = e
        if has_merge(v2) and not e:
            oracle_fail[i] = e = ["harness: main-stream input inside known-finding class C19-merge-key"]
        try:
            terms.append(case_term(v2, o, v3, bad=bad))
            term_idx.append(i)
        except (ValueError, AssertionError) as ex:
            if not e:
                oracle_fail[i] = ["harness: case not representable in the model: %s" % ex]
    bad, errs = coq_mismatches(ctx, H, terms, shard=40)
    bad = [term_idx[b] for b in bad]
    mark("main_oracle_and_coq")

    # ---------------- loader stream
    lhist = {}
    l_inputs = []
    if only is None:
        pool = [v for v in outs if isinstance(v, dict)] or [{"template": "testify", "packages": {}}]
        for i in range(90 * scale):
            l_inputs.append(mutate_v3(rng, rng.choice(pool), lhist))
    l_texts = [dump(t, sort_keys=False, allow_unicode=True) for t in l_inputs]
    l_obs = pmap(lambda a: run_loader(ctx, a[0], a[1]), list(enumerate(l_texts)))
    l_terms, l_idx = [], []
    for i, (t, o) in enumerate(zip(l_inputs, l_obs)):
        try:
            l_terms.append("{| l_tree := %s; l_obs := %s; l_badre := %s |}" % (
                yv_term(t), OBS[o], coq_list(coq_bytes(x.encode()) for x in bad_of(ctx, t))))
            l_idx.append(i)
        except ValueError:
            pass
    l_bad, l_errs = coq_mismatches(ctx, H, l_terms, shard=40, check="lmismatches") if l_terms else ([], [])
    l_bad = [l_idx[b] for b in l_bad]
    l_outcomes = {}
    for o in l_obs:
        bump(l_outcomes, o)

    mark("loader_stream")
    # ---------------- malformed stream
    mhist, m_outcomes, m_fail = {}, {}, []
    mal = malformed_cases(rng, mhist, 52 * scale) if only is None else []
    m_res = pmap(lambda a: run_malformed(ctx, a[0], a[1]), list(enumerate(mal)))
    dup_terms = []
    for m, (o, e) in zip(mal, m_res):
        bump(m_outcomes, "%s -> %s" % (m["kind"], o["exit"] + ("" if o["load"] is None else "/load-" + o["load"])))
        if e:
            m_fail.append((m, o, e))
        elif m["kind"] == "duplicate-package":
            t = load_yaml(m["text"].replace("DUPA", "DUPX", 1))          # the two packages, as written
            pairs = [("DUPA", v) for _, v in t["packages"].items()]
            dup_terms.append(case_term(t, {"exit": o["exit"], "out_exists": False, "load": None}, None, pairs))
    if dup_terms:
        d_bad, d_errs = coq_mismatches(ctx, H, dup_terms, shard=40)
        bad += [-1 - b for b in d_bad]
        errs += d_errs

    mark("malformed_stream")
    # ---------------- witness stream of the known findings
    w_problems = []
    known = load_known("C19") if only is None else []
    for kf in known:
        if kf["id"] != "C19-merge-key":
            continue
        wins = witness_inputs(rng)
        wtexts = [dump(t, sort_keys=False, default_flow_style=False) for t in wins]
        wobs = pmap(lambda a: run_case(ctx, a[0], a[1], stream="witness"), list(enumerate(wtexts)))
        wterms, shown = [], 0
        for t, text, o in zip(wins, wtexts, wobs):
            v3, e = None, []
            if o["out_text"] is not None:
                try:
                    v3 = load_yaml(o["out_text"])
                except yaml.YAMLError as ex:
                    e.append("output is not parseable YAML: %s" % str(ex)[:200])
            wbad = bad_of(ctx, t, v3)
            e += oracle(load_yaml(text), v3, o, wbad)
            if not has_merge(t):
                w_problems.append({"v2_yaml": text, "problem": "harness: witness input outside the class"})
            elif not e:
                w_problems.append({"v2_yaml": text, "problem": "the listed symptom no longer appears (fixed? then move the finding to `fixed`)"})
            elif not re.fullmatch(kf["symptom"], category(e)):
                w_problems.append({"v2_yaml": text, "problem": "another symptom than listed: %s" % e[:2]})
            else:
                shown += 1
            wterms.append(case_term(t, o, v3, bad=wbad))
        wb, we = coq_mismatches(ctx, H, wterms, shard=40, check="wmismatches")
        for b in wb:
            w_problems.append({"v2_yaml": wtexts[b], "v3_yaml": wobs[b]["out_text"], "showconfig": wobs[b]["load"],
                               "problem": "Coq: input not in the guard class, or the file read back / the loader verdict differs from the encoder-reader model [reread]"})
        if we:
            w_problems.append({"problem": "coqc failed on the witness cases", "errors": we})
        if shown:
            ctx.known("%s: a mapping key `<<` (package name, interface name, `_anchors` key) is written unquoted and read back as a merge key "
                      "- names / values are not preserved or the file does not load (%d/%d witness inputs show the listed symptom)" % (kf["id"], shown, len(wins)))
    if w_problems:
        rp = ctx.write_replay("known-finding-witness", {"what": "witness stream of a listed known finding does not behave as listed", "problems": w_problems[:6],
                                                         "v2_yaml": w_problems[0].get("v2_yaml")})
        ctx.violation(rp)

    mark("witness_stream")
    # ---------------- classification
    reported = set()
    for i in sorted(oracle_fail):
        cat = category(oracle_fail[i])
        if cat in reported or len(reported) >= 3:
            continue
        reported.add(cat)
        label, text, cli, pre = inputs[i]
        def fails(cand):
            e = evaluate(ctx, cand, cli=cli, pre=pre)[3]
            return bool(e) and category(e) == cat
        small = shrink(ctx, parsed[i], fails) if isinstance(parsed[i], dict) else parsed[i]
        if isinstance(small, dict) and pre is not None and pre[0] == "migrate":
            # then shrink the v2 file of the earlier run, keeping the current one fixed
            try:
                first = load_yaml(pre[1])
            except yaml.YAMLError:
                first = None
            if isinstance(first, dict):
                def fails_first(cand):
                    e = evaluate(ctx, small, cli=cli, pre=("migrate", dump(cand, sort_keys=False, allow_unicode=True), pre[2]))[3]
                    return bool(e) and category(e) == cat
                sfirst = shrink(ctx, first, fails_first)
                if sfirst is not first:
                    pre = ("migrate", dump(sfirst, sort_keys=False, allow_unicode=True, default_flow_style=False), pre[2])
        stext, sobs, sv3, serrs = evaluate(ctx, small, cli=cli, pre=pre) if isinstance(small, dict) else (text, obs[i], outs[i], oracle_fail[i])
        if not serrs:
            pre = inputs[i][3]
            stext, sobs, sv3, serrs = text, obs[i], outs[i], oracle_fail[i]
        steps = []
        if sobs.get("first_run"):
            steps.append("mockery %s   [earlier run, v2 file = outfile_history.v2_yaml_first]" % sobs["first_run"]["cmd"])
        elif pre is not None:
            steps.append("(the output path already holds outfile_history.text)")
        steps.append("mockery %s   [observed run, v2 file = v2_yaml]" % sobs["cmd"])
        rp = ctx.write_replay("oracle-%d" % i, {
            "what": serrs, "v2_yaml": stext, "cli": cli, "label": label, "failing_cases_in_this_run": sum(1 for j in oracle_fail if category(oracle_fail[j]) == cat),
            "outfile_history": pre_to_json(pre), "steps": steps,
            "command": "mockery %s   (then: mockery showconfig --config %s)" % (sobs["cmd"], sobs["out"]),
            "observed": {k: sobs.get(k) for k in ("exit", "rc", "changed_files", "input_unchanged", "load", "load_msg", "trace", "history", "fresh_exit")},
            "v3_yaml": sobs.get("out_text"),
            "v3_yaml_when_migrated_to_a_fresh_path": sobs["fresh_bytes"].decode(errors="replace") if sobs.get("fresh_bytes") else None,
            "original_v2_yaml": text if stext != text else None})
        ctx.violation(rp)
    for m, o, e in m_fail[:3]:
        rp = ctx.write_replay("malformed-%s" % m["kind"], {"what": e, "v2_yaml": m["text"], "kind": m["kind"], "observed": o, "malformed": True})
        ctx.violation(rp)
    any_fail = bool(oracle_fail or m_fail)
    if not gate["ok"] and not any_fail:
        ctx.violation(gate["replay"], nofail=True)
    if (bad or errs) and not any_fail:
        detail = []
        for i in [b for b in bad if b >= 0][:3]:
            label, text, cli, pre = inputs[i]
            exp = coq_show(ctx, H, "explain (%s)" % case_term(parsed[i], obs[i], outs[i], bad=bads[i]), name="explain_%d" % i)
            detail.append({"label": label, "v2_yaml": text, "cli": cli, "outfile_history": pre_to_json(pre), "v3_yaml": obs[i]["out_text"], "observed": {k: obs[i].get(k) for k in ("exit", "load")},
                           "model_vs_output (code, only in model, only in output, model's loader verdict)": exp[:6000]})
        rp = ctx.write_replay("correspondence", {
            "what": "model Misc/Migrate.v and `mockery migrate` disagree; the direct oracle found no failing input among %d" % len(inputs),
            "obligation": "correspondence Harness/C19.v check_case (exit class, leaf set of the written tree, loader verdict) - theorems C19_key_preserved / C19_nothing_invented / C19_loader_accepts speak about this model",
            "mismatching_cases": len(bad), "coq_errors": errs, "examples": detail, "v2_yaml": detail[0]["v2_yaml"] if detail else None})
        ctx.violation(rp, nofail=True)
    if (l_bad or l_errs) and not any_fail:
        ex = [{"v3_yaml": l_texts[i], "showconfig": l_obs[i],
               "strings_that_do_not_compile": bad_of(ctx, l_inputs[i]),
               "model": coq_show(ctx, H, "load (re_of %s) (%s)" % (coq_list(coq_bytes(x.encode()) for x in bad_of(ctx, l_inputs[i])), yv_term(l_inputs[i])), name="lshow_%d" % i)} for i in l_bad[:3]]
        rp = ctx.write_replay("loader-correspondence", {
            "what": "the loader model (accepted key / shape set per level) and `mockery showconfig` disagree",
            "obligation": "correspondence Harness/C19.v check_lcase - C19_loader_accepts is a theorem about this key set",
            "mismatching_cases": len(l_bad), "coq_errors": l_errs, "examples": ex})
        ctx.violation(rp, nofail=True)

    # ---------------- evidence
    def nontrivial(v2):
        """at least one mapped key set below the top level, or at two levels"""
        n = 0
        for where, c in levels_of(v2):
            if any(not empty(c.get(k)) for k in MAPPED):
                n += 1
        return n >= 2
    distinct = len({t for (_, t, _, _), v2 in zip(inputs, parsed) if isinstance(v2, dict) and nontrivial(v2)})
    pairs = {}
    for v2 in parsed:
        for where, c in levels_of(v2 or {}):
            for k in MAPPED:
                if not empty(c.get(k)):
                    pairs[(where, k)] = pairs.get((where, k), 0) + 1
    samples = [{"v2_yaml": inputs[i][1][:1500], "cli": inputs[i][2], "v3_yaml": (obs[i]["out_text"] or "")[:1500],
                "migrate": obs[i]["exit"], "showconfig": obs[i]["load"]} for i in range(min(2, len(inputs)))]
    if mal:
        samples.append({"malformed_kind": mal[0]["kind"], "v2_yaml": mal[0]["text"][:600], "migrate": m_res[0][0]["exit"]})
    ctx.write_evidence(
        gate, len(inputs) + len(l_inputs) + len(mal), distinct,
        "seeded v2 trees: every one of the 46 v2 keys set independently with probability 0 / 0.1 / 0.4 / 0.85 / 1 (plus trees with exactly one key at "
        "one level) at top, package config, interface config and configs entries; 0-4 packages (names with YAML-significant characters, nested paths), "
        "0-3 interfaces, 0-3 configs entries, null nodes, aliased configs; written by PyYAML in block/flow style with shuffled keys. "
        "the output path is fresh (45%) or has a history: an earlier `mockery migrate` of another / a superset / the same v2 file to the same path (two-step history), "
        "or a pre-seeded v3 file / other YAML / garbage / empty file - then the file must be byte-identical to migrating the same v2 file to a fresh path. "
        "regex-valued keys (include-regex, exclude-regex, exclude) take values that Go's regexp compiles, except in the explicit class (1 case in 16) "
        "where one of them, at a random level, gets a value that does not compile: there the value must still be carried over and showconfig must fail with the regex diagnostic. "
        "non-trivial = a mapped key is set at two or more levels; distinct by v2 file text. evaluations = main + loader-stream + malformed cases.",
        samples,
        extra={"phase_seconds": phase, "regex_classes": re_outcomes, "input_histogram": hist, "mapped_key_level_pairs_covered": len(pairs), "mapped_key_level_pairs_possible": len(MAPPED) * 4,
               "mapped_key_by_level": {"%s/%s" % k: v for k, v in sorted(pairs.items())},
               "main_cases": len(inputs), "model_cases_evaluated": len(terms), "model_mismatches": len(bad), "oracle_failures": len(oracle_fail),
               "migrate_exit_classes": count(o["exit"] for o in obs), "showconfig_exit_classes": count(str(o["load"]) for o in obs),
               "loader_stream": {"cases": len(l_inputs), "mutations": lhist, "showconfig_outcomes": l_outcomes, "model_mismatches": len(l_bad)},
               "malformed_stream": {"cases": len(mal), "kinds": mhist, "outcomes": m_outcomes, "failures": len(m_fail)}},
        assumptions=["PyYAML (writer of the v2 files, reader of both files) and yaml.v3 agree on the documents used: strings that either would read as another type are quoted by both",
                     "package names never resolve to real Go packages (with `recursive: true` the loader runs `go list <pkg>/...`; nothing is found, so loading stays fast and independent of the machine's module cache)",
                     "which strings are regular expressions is decided by Go's own regexp.Compile (harness/go/drv_regex, standard library only)",
                     "`_anchors` content is drawn from null/bool/int/string/list/map with string keys (no floats, timestamps, non-string keys)"])


def levels_of(v2):
    v2 = v2 or {}
    yield "top", {k: v for k, v in v2.items() if k != "packages"}
    for pn, pk in (v2.get("packages") or {}).items():
        pk = pk or {}
        if pk.get("config") is not None:
            yield "pkg", pk["config"]
        for iname, ic in (pk.get("interfaces") or {}).items():
            ic = ic or {}
            if ic.get("config") is not None:
                yield "iface", ic["config"]
            for c in ic.get("configs") or []:
                if c is not None:
                    yield "sub", c


def count(it):
    d = {}
    for x in it:
        bump(d, x)
    return d


def replay(ctx, path):
    d = json.loads(open(path).read())
    if d.get("malformed"):
        gate = proof_gate(ctx)
        if not ctx.build_tree():
            return
        o, e = run_malformed(ctx, 0, {"kind": d.get("kind", "replay"), "text": d["v2_yaml"], "expect": "err", "cli": "explicit"})
        print("observed: %s" % json.dumps(o)[:2000])
        if e:
            rp = ctx.write_replay("malformed-replay", {"what": e, "v2_yaml": d["v2_yaml"], "observed": o, "malformed": True})
            ctx.violation(rp)
        ctx.write_evidence(gate, 1, 0, "replay of one malformed case", [{"v2_yaml": d["v2_yaml"][:600]}])
        return
    cases = []
    if d.get("v2_yaml"):
        cases.append({"v2_yaml": d["v2_yaml"], "cli": d.get("cli", "explicit"), "label": d.get("label", "replay"),
                      "outfile_history": d.get("outfile_history")})
    for e in d.get("examples", []):
        if e.get("v2_yaml") and e["v2_yaml"] != d.get("v2_yaml"):
            cases.append({"v2_yaml": e["v2_yaml"], "cli": e.get("cli", "explicit"), "label": e.get("label", "replay"),
                          "outfile_history": e.get("outfile_history")})
    check(ctx, only=cases)
