"""C18 - `mockery init` bootstraps safely and its output round-trips.

Runs the real binary in scratch directories: initial states of the target x --config values x
package-path strings full of YAML-significant characters.  Observed: exit status, a snapshot of
the whole directory before/after (types, hashes, link targets), the written file as a raw YAML
tree (PyYAML compose, no merge processing), `mockery showconfig --config <target>` on it, and
for ordinary package paths a plain `mockery` run in a scratch module.  The model (Misc/Init.v)
is evaluated on the same cases inside Coq; the oracle checks the property directly."""
import base64, hashlib, json, os, re, shutil, stat
import yaml
from common import *

H = "Misc.Init Harness.C18"
STATES = ["Absent", "IsFile", "IsDir", "IsDangling", "IsDanglingIntoDir", "IsLinkToFile", "NoParent", "ParentIsFile"]
EXISTING = {"IsFile", "IsDir", "IsDangling", "IsDanglingIntoDir", "IsLinkToFile"}
LINK_KINDS = ["inside-rel", "inside-abs", "outside-rel", "outside-abs"]   # dangling link into an EXISTING directory
DOC_KEYS = ["all", "dir", "filename", "force-file-write", "formatter", "log-level", "structname", "pkgname", "recursive",
            "require-template-schema-exists", "template", "template-schema"]

# ---------------------------------------------------------------- package-path strings
ENVISH = ["$repo", "${x}", "$x", "${repo}", "$1", "$$", "$HOME", "${HOME}", "${}", "$", "${", "$}", "$nosuch", "${NOSUCH_C18}", "%VAR%", "%repo%", "$(id)", "`id`",
          "$PATH", "${x:-d}", "${#x}", "$*", "$@", "$?", "$_", "$repo_suffix", "\\$repo", "$$repo", "~", "~root", "~/x"]
FRAGS = ENVISH + ["a", "b", "/", "example.com/", "/api", "github.com/org/repo", "x/y", ": ", ":", " #", "#", "'", '"', "{", "}", "[", "]", ",", "- ", "-", "? ", "?", "*", "&", "!",
         "%", "@", "`", " ", "  ", "~", "null", "true", "false", "1e3", "0x10", "123", "1.5", "\t", "\n", "\r", "|", ">", "\\", "=", "<<", "<",
         "é", "✓", "日本", "😀", "\u00a0", "\u2028", "\u0085", "\ufeff", "\x7f", "\x01", "yes", "no", "on", "off", ".", "..", "/", "//", "---", "...",
         "!!str", "!!binary ", "&a ", "*a", "%YAML", ".inf", ".nan", "0o17", "1_000", "2001-01-01", "1:30", "+1", "-1", "0"]
WHOLE = ["example.com/$repo/api", "example.com/${x}/api", "a/$1/b", "a/$$/b", "$HOME/x", "a/${}/b", "a/$", "a/%VAR%/b", "~/pkg", "~", "a/`id`/b", "a/$(id)/b",
         "example.com/$nosuch/api", "example.com/${NOSUCH_C18}/api", "$repo", "${x}", "$", "$$", "${", "a/${x", "a/$x}/b", "$repo$x", "${repo}${x}", "x/$repo_suffix/y",
         "", " ", "null", "Null", "NULL", "true", "True", "TRUE", "false", "yes", "no", "on", "off", "y", "n", "Y", "N", "1e3", "0x10", "123", "1.5",
         "0o17", "0b1", "1_000", "1:30", ".5", ".inf", "-.inf", ".nan", "+1", "-1", "0", "00", "2001-01-01", "2001-01-01T00:00:00Z", "=", "<<x", "x<<", "< <",
         "-", "--", "- x", "-x", "? x", "?x", "*x", "&x", "!x", "!!str", "!!binary", "%x", "@x", "`x`", "a: b", "a:", ":a", ": ", "a #b", "a# b", "#x",
         "'q'", '"dq"', "a'b", "''", "'", '"', "{a}", "[a]", "{", "}", "[", "]", ",", "a,b", "|", ">", "|-", ">-", "a|b", "a|", "---", "...", "--- x", "%YAML 1.2",
         "x ", " x", "  ", "a\tb", "\t", "\ttab", "a\nb", "a\rb", "a\r\nb", "\n", "x\n", "\\", "a\\b", "\\n", "héllo/✓", "日本語/パッケージ", "😀/pkg", "\u00a0x",
         "\u2028x", "\u0085", "\ufeffx", "\x7f", "\x01", "\x1b[31m", "github.com/org/repo", "github.com/vektra/mockery/v3/internal/fixtures", "io", "net/http",
         "a b " * 60, "x" * 300, "github.com/" + "long/" * 40 + "pkg", "w " * 90 + "w", "k: v, " * 30, "config", "packages", "all", "interfaces"]
BYTES = [b"\xff", b"a\xffb", b"\xc3", b"\xe2\x82", b"ok/\xf0\x9f", b"\xfe\xfe\xff\xff", b"\x80abc", b"abc\x80"]


def gen_pkg(rng):
    r = rng.random()
    if r < 0.45:
        return rng.choice(WHOLE).encode()
    if r < 0.5:
        return rng.choice(BYTES)
    n = rng.randint(1, 5)
    return "".join(rng.choice(FRAGS) for _ in range(n)).encode()


def is_merge_key(pkg):
    return pkg == b"<<"


def key_unsafe(pkg):
    """mirror of Coq's negb (key_safe pkg): multi-line key that starts with LF, TAB or a non-ASCII byte"""
    return b"\n" in pkg and len(pkg) > 0 and (pkg[0] in (10, 9) or pkg[0] >= 128)


def guarded(pkg):
    return is_merge_key(pkg) or key_unsafe(pkg)


# ---------------------------------------------------------------- scratch directory states
def snapshot(root):
    out = {}
    for d, dirs, files in os.walk(root, followlinks=False):
        for n in dirs + files:
            p = os.path.join(d, n)
            rel = os.path.relpath(p, root)
            st = os.lstat(p)
            if stat.S_ISLNK(st.st_mode):
                out[rel] = ("link", os.readlink(p))
            elif stat.S_ISDIR(st.st_mode):
                out[rel] = ("dir", "")
            else:
                out[rel] = ("file", hashlib.sha256(open(p, "rb").read()).hexdigest())
    return out


OLD_CONTENTS = [b"", b"old", b"all: true\npackages:\n  x:\n", b"\x00\xff binary \n", b"not: [yaml", b"# only a comment\n"]


def prepare(w, state, target_rel, rng, linkkind=None):
    """w = working directory (<sandbox>/wd), target_rel: the target relative to w.
    Returns the content put at the target (if a file)."""
    w.mkdir(parents=True)
    (w.parent / "outside").mkdir()
    (w.parent / "outside" / "keep3.txt").write_bytes(b"outside bystander")
    (w / "shared").mkdir()
    (w / "shared" / "keep4.txt").write_bytes(b"shared bystander")
    (w / "keep.txt").write_bytes(b"bystander")
    (w / "other").mkdir()
    (w / "other" / "keep2.yml").write_bytes(b"all: true\n")
    t = w / target_rel
    if state in ("NoParent",):
        return None
    if state == "ParentIsFile":
        t.parent.parent.mkdir(parents=True, exist_ok=True)
        t.parent.write_bytes(b"i am a file")
        return None
    t.parent.mkdir(parents=True, exist_ok=True)
    if state == "IsFile":
        c = rng.choice(OLD_CONTENTS)
        t.write_bytes(c)
        return c
    if state == "IsDir":
        t.mkdir()
    elif state == "IsDangling":
        os.symlink("/nonexistent/c18/x", t)
    elif state == "IsDanglingIntoDir":
        # the link's destination does not exist, but its directory does: a non-exclusive create would go through the link
        dest = (w / "shared" if linkkind.startswith("inside") else w.parent / "outside") / "made-by-link.yml"
        os.symlink(str(dest) if linkkind.endswith("abs") else os.path.relpath(dest, start=t.parent), t)
    elif state == "IsLinkToFile":
        (w / "other.file").write_bytes(b"linked content")
        os.symlink(str(w / "other.file"), t)
    return None


TARGETS = [  # (kind, --config value as a function of the scratch dir, path of the target relative to it)
    ("default", lambda w: None, ".mockery.yml"),
    ("relative", lambda w: "cfg.yml", "cfg.yml"),
    ("relative-dot", lambda w: "./my config.yaml", "my config.yaml"),
    ("nested", lambda w: "sub/dir/c.yml", "sub/dir/c.yml"),
    ("absolute", lambda w: str(w / "abs.yml"), "abs.yml"),
    ("absolute-nested", lambda w: str(w / "deep" / "er" / ".mockery.yml"), "deep/er/.mockery.yml"),
    ("odd-name", lambda w: "- weird: name #.yml", "- weird: name #.yml"),
    # file names whose extension suggests another format: the file init writes there is YAML and must load back
    ("ext-json", lambda w: "mockery.json", "mockery.json"),
    ("ext-JSON", lambda w: "cfg.JSON", "cfg.JSON"),
    ("ext-toml", lambda w: "x.toml", "x.toml"),
    ("ext-yaml.json", lambda w: "./x.yaml.json", "x.yaml.json"),
    ("ext-txt", lambda w: str(w / "x.txt"), "x.txt"),
    ("no-extension", lambda w: "mockeryconfig", "mockeryconfig"),
    ("nested-json", lambda w: "sub/dir/conf.json", "sub/dir/conf.json"),
]
MODULE_CONFIGS = ["conf/mockery.yml", "conf/mockery.json", "conf/cfg.JSON", "conf/x.toml", "conf/x.yaml.json", "conf/x.txt", "conf/mockeryconfig", "mockery.json"]


LOAD_VARS = {"repo": "surprise", "x": "1", "VAR": "expanded"}      # set while the written file is loaded back
NEVER_SET = ["nosuch", "NOSUCH_C18"]                                # referenced by some package paths, never set


def clean_env(load_vars=None):
    env = {k: v for k, v in os.environ.items() if not k.startswith("MOCKERY_") and k not in LOAD_VARS and k not in NEVER_SET}
    if load_vars:
        env.update(load_vars)
    return env


# ---------------------------------------------------------------- MOCKERY_* environment of the invoking shell
ENV_POOL = [("MOCKERY_DIR", "mocks"), ("MOCKERY_DIR", "{{.InterfaceDir}}/m"), ("MOCKERY_TEMPLATE", "matryer"), ("MOCKERY_FORCE_FILE_WRITE", "TRUE"),
            ("MOCKERY_FORCE_FILE_WRITE", "true"), ("MOCKERY_FILENAME", "env_mocks.go"), ("MOCKERY_ALL", "false"), ("MOCKERY_ALL", "true"),
            ("MOCKERY_PKGNAME", "envpkg"), ("MOCKERY_TEMPLATE_DATA.x", "1"), ("MOCKERY_TEMPLATE_DATA.unroll-variadic", "false"),
            ("MOCKERY_LOG_LEVEL", "debug"), ("MOCKERY_FORMATTER", "gofmt"), ("MOCKERY_RECURSIVE", "true"), ("MOCKERY_STRUCTNAME", "Env{{.InterfaceName}}"),
            ("MOCKERY_BUILD_TAGS", "envtag"), ("MOCKERY_INCLUDE_INTERFACE_REGEX", "^Nothing$"), ("MOCKERY_REQUIRE_TEMPLATE_SCHEMA_EXISTS", "false"),
            ("MOCKERY_TEMPLATE_SCHEMA", "env.schema.json")]
ENV_CONFIG = ["/nonexistent/ci.yml", "elsewhere.yml", "other/keep2.yml", "<target>"]     # values of MOCKERY_CONFIG


def draw_env(rng, with_config=True):
    """a MOCKERY_* environment such as a CI shell has (the keys are those NewRootConfig honours for a normal run)"""
    e = dict(rng.sample(ENV_POOL, rng.randint(1, 5)))
    if with_config and rng.random() < 0.5:
        e["MOCKERY_CONFIG"] = rng.choice(ENV_CONFIG)
    return e


# ---------------------------------------------------------------- YAML -> raw tree
def raw_tree(node):
    """PyYAML node graph -> nested (key bytes, value) lists; no merge processing"""
    if isinstance(node, yaml.MappingNode):
        return ("map", [(scalar_bytes(k), raw_tree(v)) for k, v in node.value])
    if isinstance(node, yaml.ScalarNode):
        if node.tag == "tag:yaml.org,2002:bool":
            return ("bool", node.value.lower() in ("true", "yes", "on", "y"))
        if node.tag in ("tag:yaml.org,2002:str", "tag:yaml.org,2002:binary"):
            return ("str", scalar_bytes(node))
        return ("str", b"<" + node.tag.encode() + b">" + node.value.encode())
    return ("str", b"<sequence>")


def scalar_bytes(node):
    if not isinstance(node, yaml.ScalarNode):
        return b"<non-scalar key>"
    if node.tag == "tag:yaml.org,2002:binary":
        return base64.b64decode(node.value)
    # plain keys that only YAML 1.1 (PyYAML) gives a special tag: "<<" (merge) and "=" (value)
    if node.tag in ("tag:yaml.org,2002:str", "tag:yaml.org,2002:merge", "tag:yaml.org,2002:value"):
        return node.value.encode("utf-8", errors="surrogatepass")
    return b"<" + node.tag.encode() + b">" + node.value.encode()


def val_term(v):
    k, x = v
    if k == "bool": return "VBool %s" % coq_bool(x)
    if k == "str": return "VStr %s" % coq_bytes(x)
    return "VMap %s" % coq_list("(%s, %s)" % (coq_bytes(a), val_term(b)) for a, b in x)


def tree_term(t):
    return coq_list("(%s, %s)" % (coq_bytes(a), val_term(b)) for a, b in t[1])


def keyb(k):
    return k if isinstance(k, bytes) else str(k).encode("utf-8", errors="surrogatepass")


def py_val(x):
    if isinstance(x, bool): return ("bool", x)
    if isinstance(x, dict): return ("map", [(keyb(a), py_val(b)) for a, b in x.items()])
    if isinstance(x, bytes): return ("str", x)
    return ("str", str(x).encode() if x is not None else b"")


def showconfig(ctx, w, flagval, load_vars=None):
    """load the file back with the real loader; load_vars = extra environment of this loading step"""
    cmd = [ctx.bins["mockery"], "showconfig"] + (["--config", flagval] if flagval is not None else [])
    p = run(cmd, cwd=w, env=clean_env(load_vars), timeout=60)
    if p.returncode != 0:
        msg = (p.stdout + p.stderr).decode(errors="replace")
        m = re.search(r"Error: (.*?)(?:\nUsage:|$)", msg, re.S)
        return None, (m.group(1) if m else msg[-400:])
    try:
        y = yaml.safe_load(p.stdout)
        pk = [(keyb(k), bool(((v or {}).get("config") or {}).get("all"))) for k, v in (y.get("packages") or {}).items()]
        root = [(k.encode(), py_val((y.get("Config") or {}).get(k))) for k in DOC_KEYS]
        return {"packages": pk, "root": root}, ""
    except Exception as e:
        return None, "showconfig output not parsable by PyYAML: %s" % e


def loader_defaults(ctx):
    """what the loader itself uses for the documented keys when the file does not state them"""
    d = ctx.scratch / "defaults"
    d.mkdir()
    (d / "m.yml").write_text("packages:\n  example.com/x:\n")
    s, err = showconfig(ctx, d, "m.yml")
    if s is None:
        raise RuntimeError("showconfig on a minimal config failed: " + err)
    return s["root"]


def run_case(ctx, c):
    sandbox = ctx.scratch / "w" / c["id"]
    w = sandbox / "wd"                                  # working directory; <sandbox>/outside is a sibling
    rng = __import__("random").Random(c["seed"])
    kind, flagf, rel = TARGETS[c["target"]]
    c.setdefault("linkkind", rng.choice(LINK_KINDS))
    c["old"] = prepare(w, c["state"], rel, rng, c["linkkind"])
    flagval = flagf(w)
    snap = lambda: {(k[3:] if k.startswith("wd/") else "../" + k): v for k, v in snapshot(sandbox).items() if k != "wd"}
    before = snap()
    cmd = [ctx.bins["mockery"], "init"] + (["--config", flagval] if flagval is not None else []) + ["--", os.fsdecode(c["pkg"])]
    extra = dict(c.get("env") or {})
    if extra.get("MOCKERY_CONFIG") == "<target>":
        extra["MOCKERY_CONFIG"] = flagval if flagval is not None else ".mockery.yml"
    p = run(cmd, cwd=w, env=clean_env(extra), timeout=60)      # only the init step sees them; the file is loaded back without
    after = snap()
    o = {"exit": 0 if p.returncode == 0 else 1, "rc": p.returncode, "flag": flagval or "", "log": (p.stdout + p.stderr).decode(errors="replace")[-600:]}
    o["target_changed"] = before.get(rel) != after.get(rel)
    o["others_changed"] = sorted(k for k in set(before) | set(after) if k != rel and before.get(k) != after.get(k))
    o["target_after"] = after.get(rel)
    o["written"], o["written_err"], o["show"], o["show_err"], o["pyyaml_ok"] = None, "", None, "", None
    if o["target_changed"] and after.get(rel, ("", ""))[0] == "file":
        data = (w / rel).read_bytes()
        o["bytes"] = data
        try:
            o["written"] = raw_tree(yaml.compose(data.decode("utf-8")))
        except Exception as e:
            o["written_err"] = "PyYAML cannot compose the written file: %s" % str(e)[:200]
        try:
            y = yaml.safe_load(data.decode("utf-8"))
            o["pyyaml_ok"] = True
            o["pyyaml_keys"] = [keyb(k) for k in (y.get("packages") or {})]
        except Exception as e:
            o["pyyaml_ok"] = False
        # loaded with repo=surprise x=1 VAR=expanded in the environment (HOME etc. as inherited) ...
        o["show"], o["show_err"] = showconfig(ctx, w, flagval, LOAD_VARS)
        # ... and, for paths an environment/shell-style expander could touch, once more with those variables unset
        o["show_unset"] = showconfig(ctx, w, flagval, None) if any(ch in c["pkg"] for ch in b"$%~`") else None
    return o


def oracle(c, o, defaults):
    errs = []
    if o["others_changed"]:
        errs.append("frame: other paths changed: %s" % o["others_changed"][:4])
    if c["state"] in EXISTING:
        if o["exit"] == 0:
            errs.append("exclusive: something exists at the target (%s) but the command reports success" % c["state"])
        if o["target_changed"]:
            errs.append("exclusive: the existing target (%s) was modified" % c["state"])
        return errs
    if o["exit"] != 0:
        if o["target_changed"]:
            errs.append("failure-but-written: exit status %d but the target was created" % o["rc"])
        if c["state"] == "Absent":
            errs.append("bootstrap-failed: nothing exists at the target, its directory exists, but init failed: %s" % o["log"][-200:])
        return errs
    # success
    if c["state"] != "Absent":
        errs.append("success-without-parent: init reports success although the target's directory does not exist")
    if not o["target_changed"] or (o["target_after"] or ("",))[0] != "file":
        errs.append("success-but-no-file: exit 0 but no regular file at the target")
        return errs
    if o["show"] is None:
        errs.append("loads-back: mockery does not accept the file it wrote: %s" % " ".join(o["show_err"].split())[:300])
        return errs
    keys = [k for k, _ in o["show"]["packages"]]
    if keys != [c["pkg"]]:
        errs.append("loads-back: package key %r loaded back as %r (environment of the loading step: %s)" % (
            c["pkg"], keys, " ".join("%s=%s" % kv for kv in LOAD_VARS.items())))
    elif not o["show"]["packages"][0][1]:
        errs.append("selects-all: the loaded package does not have all: true")
    if o.get("show_unset") is not None:
        s2, e2 = o["show_unset"]
        k2 = None if s2 is None else [k for k, _ in s2["packages"]]
        if k2 != [c["pkg"]] and keys == [c["pkg"]]:
            errs.append("loads-back: with %s unset in the environment of the loading step the package key %r loaded back as %r %s" % (
                "/".join(LOAD_VARS), c["pkg"], k2, " ".join((e2 or "").split())[:200]))
    if o["pyyaml_ok"] and o.get("pyyaml_keys") != [c["pkg"]] and keys == [c["pkg"]]:
        errs.append("loads-back: an independent YAML parser reads the package key %r as %r" % (c["pkg"], o.get("pyyaml_keys")))
    if o["written"] is not None:
        top = dict(o["written"][1])
        for k, v in defaults:
            if k in top and top[k] != v:
                errs.append("defaults: the file states %s: %r but the loader's default is %r" % (k.decode(), top[k], v))
        missing = [k.decode() for k, _ in defaults if k not in top]
        if missing:
            errs.append("defaults: documented default keys missing from the file: %s" % missing)
        extra = [k.decode() for k in top if k not in dict(defaults) and k != b"packages"]
        if extra:
            errs.append("defaults: keys that are not documented defaults: %s" % extra)
    return errs


def case_term(c, o):
    show = "None"
    if o["show"] is not None:
        show = "(Some {| s_packages := %s; s_root := %s |})" % (
            coq_list("(%s, %s)" % (coq_bytes(k), coq_bool(a)) for k, a in o["show"]["packages"]),
            coq_list("(%s, %s)" % (coq_bytes(k), val_term(v)) for k, v in o["show"]["root"]))
    return "{| c_state := %s; c_flag := %s; c_pkg := %s; c_exit := %d; c_target_changed := %s; c_written := %s; c_show := %s; c_guarded := %s |}" % (
        c["state"], coq_bytes(o["flag"]), coq_bytes(c["pkg"]), o["exit"], coq_bool(o["target_changed"]),
        "None" if o["written"] is None else "(Some %s)" % tree_term(o["written"]), show, coq_bool(guarded(c["pkg"])))


# ---------------------------------------------------------------- plain `mockery` after init
IFACE_NAMES = ["Reader", "Writer", "Store", "Client", "handler", "repo", "Service", "Cache", "Notifier", "visitor", "Clock", "Queue"]


def module_case(ctx, k, rng):
    """scratch module, `mockery init <pkg>`, then `mockery`; returns (description, errors)"""
    d = ctx.scratch / ("mod%d" % k)
    mod = "example.com/c18m%d" % k
    sub = rng.choice(["pa", "internal/svc", "pkg/deep/er"])
    pkgpath = mod + "/" + sub
    (d / sub).mkdir(parents=True)
    (d / "go.mod").write_text("module %s\n\ngo 1.23\n\nrequire github.com/stretchr/testify v1.10.0\n" % mod)
    shutil.copy(REPO / "go.sum", d / "go.sum")
    names = rng.sample(IFACE_NAMES, rng.randint(1, 5))
    files = {"a.go": [], "b.go": []}
    for n in names:
        meths = ["\tM%d(a int, b string) (bool, error)" % j if j % 2 else "\tN%d()" % j for j in range(rng.randint(1, 3))]
        if rng.random() < 0.3:
            meths.append("\tio.Closer")
        files[rng.choice(["a.go", "b.go"])].append("type %s interface {\n%s\n}\n" % (n, "\n".join(meths)))
    pkgname = sub.split("/")[-1]
    for fn, decls in files.items():
        body = "\n".join(decls)
        imp = 'import "io"\n\n' if "io.Closer" in body else ""
        (d / sub / fn).write_text("package %s\n\n%s%s\ntype notAnInterface%s struct{}\n" % (pkgname, imp, body, fn[0]))
    custom = rng.random() < 0.6
    cfgname = rng.choice(MODULE_CONFIGS)
    flag = ["--config", cfgname] if custom else []
    if custom:
        (d / "conf").mkdir()
    env = go_env({"GOFLAGS": "-mod=mod"})
    env = {k_: v for k_, v in env.items() if not k_.startswith("MOCKERY_")}
    desc = {"module": mod, "package": pkgpath, "interfaces": sorted(names), "config": cfgname if custom else ".mockery.yml (default)"}
    ienv = dict(env)
    if k % 2 == 1:       # every other module: init is run from a shell with MOCKERY_* set, the later plain run from a clean one
        shell = draw_env(rng, with_config=False)
        if rng.random() < 0.5: shell["MOCKERY_CONFIG"] = "/nonexistent/ci.yml"
        ienv.update(shell)
        desc["environment_of_init"] = shell
    p1 = run([ctx.bins["mockery"], "init"] + flag + [pkgpath], cwd=d, env=ienv, timeout=120)
    if p1.returncode != 0:
        return desc, ["bootstrap-failed: mockery init exited %d: %s" % (p1.returncode, p1.stderr.decode(errors="replace")[-300:])]
    p2 = run([ctx.bins["mockery"]] + flag, cwd=d, env=env, timeout=600)
    if p2.returncode != 0:
        return desc, ["generate-all: plain mockery run with the written file exited %d: %s" % (p2.returncode, (p2.stdout + p2.stderr).decode(errors="replace")[-400:])]
    out = d / sub / "mocks_test.go"
    if not out.exists():
        return desc, ["generate-all: %s/mocks_test.go was not written" % sub]
    src = out.read_text()
    got = sorted(re.findall(r"^type (\w+) struct \{\n\tmock\.Mock", src, re.M))
    want = sorted(("Mock" if n[0].isupper() else "mock") + n for n in names)
    desc["mock_types"] = got
    if got != want:
        return desc, ["generate-all: mock types %s, expected one per interface of the package: %s" % (got, want)]
    return desc, []


# ---------------------------------------------------------------- concurrent init runs on one fresh target
def probe_round(ctx, r, n, refs):
    """n concurrent `mockery init` runs (different package arguments) on one fresh target.
    -> None if exactly one wins and the file is that run's complete document, else a description"""
    import threading
    d = ctx.scratch / "conc" / ("r%d" % r)
    d.mkdir(parents=True)
    flag = [] if r % 2 == 0 else ["--config", "conf.yml"]
    target = d / (".mockery.yml" if r % 2 == 0 else "conf.yml")
    pkgs = ["example.com/conc/p%d" % k for k in range(n)]
    rcs, bar = [None] * n, threading.Barrier(n)

    def one(k):
        bar.wait()
        rcs[k] = run([ctx.bins["mockery"], "init"] + flag + [pkgs[k]], cwd=d, env=clean_env(), timeout=60).returncode
    ths = [threading.Thread(target=one, args=(k,)) for k in range(n)]
    for t in ths: t.start()
    for t in ths: t.join()
    winners = [k for k in range(n) if rcs[k] == 0]
    data = target.read_bytes() if target.is_file() else None
    others = sorted(x.name for x in d.iterdir() if x != target)
    if len(winners) == 1 and data == refs[pkgs[winners[0]]] and not others:
        return None
    whose = [p for p in pkgs if data is not None and refs[p] == data]
    return {"round": r, "exit_codes": rcs, "winners": len(winners), "target": target.name,
            "file": "missing" if data is None else ("complete document of %s" % whose[0] if whose else "not a complete document of any run: %r" % data[-200:]),
            "other_files": others}


def concurrency_probe(ctx, rounds, n=8, base=0):
    refd = ctx.scratch / "conc" / ("ref%d" % base)
    refs = {}
    for k in range(n):
        dd = refd / str(k)
        dd.mkdir(parents=True)
        p = "example.com/conc/p%d" % k
        run([ctx.bins["mockery"], "init", p], cwd=dd, env=clean_env(), timeout=60)
        refs[p] = (dd / ".mockery.yml").read_bytes() if (dd / ".mockery.yml").exists() else b"<no reference>"
    return [x for x in (probe_round(ctx, base + r, n, refs) for r in range(rounds)) if x]


# ---------------------------------------------------------------- streams
CORPUS = [  # (state, target index, package path)
    ("Absent", 0, b"github.com/org/repo"), ("IsFile", 0, b"github.com/org/repo"), ("Absent", 1, b'a: b #c "q" {x}'),
    ("Absent", 3, b"- leading dash"), ("IsDangling", 1, b"x"), ("IsDir", 4, b"x"), ("IsLinkToFile", 2, b"x"),
    ("NoParent", 3, b"x"), ("NoParent", 5, b"x"), ("ParentIsFile", 3, b"x"), ("Absent", 5, b"null"), ("Absent", 6, b"true"),
    ("IsDanglingIntoDir", 0, b"x"), ("IsDanglingIntoDir", 3, b"x"), ("IsDanglingIntoDir", 4, b"x"), ("IsDanglingIntoDir", 1, b"x"),
    ("Absent", 0, b"example.com/$repo/api"), ("Absent", 1, b"example.com/${x}/api"), ("Absent", 3, b"a/$1/b"), ("Absent", 4, b"a/$$/b"),
    ("Absent", 0, b"$HOME/x"), ("Absent", 2, b"a/${}/b"), ("Absent", 5, b"a/$"), ("Absent", 1, b"a/%VAR%/b"), ("Absent", 0, b"~"), ("Absent", 6, b"a/`id`/b"),
    ("Absent", 1, b"example.com/$nosuch/api"), ("Absent", 0, b"${NOSUCH_C18}"), ("Absent", 3, b"$repo$x"),
    ("Absent", 7, b"github.com/org/repo"), ("Absent", 8, b"github.com/org/repo"), ("Absent", 9, b"github.com/org/repo"), ("Absent", 10, b"a: b"),
    ("Absent", 11, b"github.com/org/repo"), ("Absent", 12, b"github.com/org/repo"), ("Absent", 13, b"x/y"), ("IsFile", 7, b"x"), ("IsDanglingIntoDir", 13, b"x"),
    ("Absent", 1, b""), ("Absent", 1, b"<<x"), ("Absent", 1, b"\xff\xfe"), ("Absent", 1, b"a\nb"), ("Absent", 2, "日本語/✓ ".encode()),
]


def gen_cases(rng, n):
    cases = []
    for i in range(n):
        st = rng.choice(["Absent"] * 6 + STATES + ["IsDanglingIntoDir"])
        pkg = gen_pkg(rng)
        while guarded(pkg):
            pkg = gen_pkg(rng)
        cases.append({"state": st, "target": rng.randrange(len(TARGETS)), "pkg": pkg, "stream": "main"})
    return cases


def describe(c, o=None):
    d = {"state": c["state"] + ("(%s)" % c.get("linkkind") if c["state"] == "IsDanglingIntoDir" else ""), "target": TARGETS[c["target"]][0], "package_path": c["pkg"].decode(errors="backslashreplace"),
         "package_path_hex": hx(c["pkg"]), "stream": c.get("stream", "")}
    if c.get("env"):
        d["environment_of_init"] = c["env"]
    if o is not None:
        d.update({"config_flag": o["flag"], "exit": o["rc"], "target_changed": o["target_changed"], "others_changed": o["others_changed"],
                  "written": (o.get("bytes") or b"").decode(errors="backslashreplace")[-400:], "showconfig_error": " ".join(o["show_err"].split())[:300],
                  "loaded_package_keys": None if o["show"] is None else [k.decode(errors="backslashreplace") for k, _ in o["show"]["packages"]],
                  "loaded_package_keys_with_variables_unset": None if not o.get("show_unset") or o["show_unset"][0] is None else [k.decode(errors="backslashreplace") for k, _ in o["show_unset"][0]["packages"]]})
    return d


def to_json(c):
    return {"state": c["state"], "target": c["target"], "pkg": hx(c["pkg"]), "stream": c.get("stream", "main"), "linkkind": c.get("linkkind"), "env": c.get("env")}


def check(ctx, only=None, probe_only=False):
    gate = proof_gate(ctx)
    if not ctx.build_tree():
        ctx.write_evidence(gate, 0, 0, "build failed", [])
        return
    known = {k["id"]: k for k in load_known("C18")}
    rng = ctx.rng
    defaults = loader_defaults(ctx)
    if only is not None:
        cases = only
    else:
        cases = [{"state": s, "target": t, "pkg": p, "stream": "corpus"} for s, t, p in CORPUS]
        for k, c in enumerate(c for c in cases if c["state"] == "IsDanglingIntoDir"):
            c["linkkind"] = LINK_KINDS[k % 4]
        for lk in LINK_KINDS:                          # every link kind on the default target and on an absolute one
            cases += [{"state": "IsDanglingIntoDir", "target": t, "pkg": b"github.com/org/repo", "stream": "matrix", "linkkind": lk} for t in (0, 5)]
        # every state x every target once, then the random stream
        for s in STATES:
            for t in range(len(TARGETS)):
                cases.append({"state": s, "target": t, "pkg": gen_pkg(rng) if rng.random() < 0.7 else b"github.com/org/repo", "stream": "matrix"})
        for c in cases:
            if guarded(c["pkg"]):
                c["pkg"] = b"<<x" + c["pkg"]
        cases += gen_cases(rng, 6000 if ctx.thorough() else 500)
        for t in (0, 3, 4):
            cases.append({"state": "Absent", "target": t, "pkg": b"<<", "stream": "witness", "finding": "C18-merge-key-package-path"})
        for t, pkg in ((0, b"\n"), (1, b"\na"), (4, b"\t\n"), (3, b"\n\n\n")):
            cases.append({"state": "Absent", "target": t, "pkg": pkg, "stream": "witness", "finding": "C18-multiline-package-path"})
    twins = []           # (index of the clean-environment run, index of the same run under a MOCKERY_* environment)
    if only is None:
        base = [i for i, c in enumerate(cases) if c.get("stream") in ("corpus", "matrix")] + \
               [i for i, c in enumerate(cases) if c.get("stream") == "main" and rng.random() < 0.12]
        for i in base:
            cases.append(dict(cases[i], stream="env", env=draw_env(rng), twin=i))
    for i, c in enumerate(cases):
        c["id"], c["seed"] = "c%d" % i, rng.randrange(1 << 30)
        if c["state"] in ("NoParent", "ParentIsFile") and "/" not in TARGETS[c["target"]][2]:
            c["target"] = 3 if c["target"] % 2 else 5      # these states need a target inside a sub-directory
    for i, c in enumerate(cases):
        if "twin" in c and c["twin"] is not None and c["twin"] < len(cases):
            t = cases[c["twin"]]
            c["seed"], c["target"] = t["seed"], t["target"]      # same initial state, same old content, same link kind
            if "linkkind" in t: c["linkkind"] = t["linkkind"]
            twins.append((c["twin"], i))
    obs = pmap(lambda c: run_case(ctx, c), cases)
    oracle_fail, known_hits = {}, {}
    for i, (c, o) in enumerate(zip(cases, obs)):
        e = oracle(c, o, defaults)
        if c.get("finding"):
            k = known.get(c["finding"])
            if k and e and all(re.search(k["symptom"], x) for x in e):
                known_hits.setdefault(c["finding"], []).append(i)
                continue
            oracle_fail[i] = e or ["the symptom of known finding %s no longer appears on its witness (fixed? then move it to 'fixed' and drop the guard)" % c["finding"]]
        elif e:
            oracle_fail[i] = e
    # the written file must not absorb the invoking shell's environment: same exit status, same bytes, same changes
    for a, b in twins:
        oa, ob = obs[a], obs[b]
        diff = []
        if oa["exit"] != ob["exit"]: diff.append("exit status %d vs %d" % (oa["rc"], ob["rc"]))
        if oa.get("bytes") != ob.get("bytes"): diff.append("the written bytes differ")
        if (oa["target_changed"], oa["others_changed"]) != (ob["target_changed"], ob["others_changed"]): diff.append("different paths changed")
        if diff and not cases[b].get("finding"):
            oracle_fail.setdefault(b, []).insert(0, "environment-absorbed: `mockery init` under %s differs from the same run in a clean environment: %s" % (
                " ".join("%s=%s" % kv for kv in sorted(cases[b]["env"].items())), "; ".join(diff)))
    for kid, ids in sorted(known_hits.items()):
        ctx.known("%s: %s [%d witness runs]" % (kid, known[kid]["what"], len(ids)))
    # plain `mockery` runs with the written file
    mod_results = []
    if only is None:
        nmod = 60 if ctx.thorough() else 10
        seeds = [rng.randrange(1 << 30) for _ in range(nmod)]
        mod_results = pmap(lambda ks: module_case(ctx, ks[0], __import__("random").Random(ks[1])), list(enumerate(seeds)), workers=4)
    mod_fail = [(d, e) for d, e in mod_results if e]
    # concurrent inits: exactly one may win (two-stage: a bad round counts only if a second batch shows one too)
    probe = {"rounds": 0, "suspicious_first_batch": [], "confirmed": []}
    if only is None or probe_only:
        nr = 100 if ctx.thorough() else 20
        first = concurrency_probe(ctx, nr)
        probe["rounds"] = nr
        if first:
            second = concurrency_probe(ctx, 2 * nr, base=1000)
            probe["rounds"] += 2 * nr
            probe["suspicious_first_batch"] = first[:3]
            if second or any(x["winners"] == 0 for x in first):
                probe["confirmed"] = (first + second)[:4]
    # model
    bad, errs = coq_mismatches(ctx, H, [case_term(c, o) for c, o in zip(cases, obs)], shard=80)
    # verdicts
    for i in sorted(oracle_fail)[:3]:
        rp = ctx.write_replay("oracle-%d" % i, {"what": oracle_fail[i], "case": to_json(cases[i]), "readable": describe(cases[i], obs[i])})
        ctx.violation(rp)
    for j, (d, e) in enumerate(mod_fail[:2]):
        rp = ctx.write_replay("module-%d" % j, {"what": e, "module_case": d, "note": "re-run: the module is rebuilt from this description by a full run with the same seed"})
        ctx.violation(rp)
    if probe["confirmed"]:
        rp = ctx.write_replay("concurrent-init", {
            "what": ["exclusive: %d `mockery init` runs were started at the same time on one fresh target; exactly one may succeed and the file must be its complete document (reproduced in a second batch)" % 8]
                    + ["round %(round)s: %(winners)s runs exited 0 (exit codes %(exit_codes)s), file: %(file)s, other files: %(other_files)s" % x for x in probe["confirmed"]],
            "probe": {"n": 8, "rounds": probe["rounds"]}})
        ctx.violation(rp)
    failing = bool(oracle_fail or mod_fail or probe["confirmed"])
    if not gate["ok"] and not failing:
        ctx.violation(gate["replay"], nofail=True)
    if (bad or errs) and not failing:
        detail = []
        for i in bad[:3]:
            exp = coq_show(ctx, H, "explain (%s)" % case_term(cases[i], obs[i]), name="explain_%d" % i)
            detail.append({"case": to_json(cases[i]), "readable": describe(cases[i], obs[i]),
                           "model_explain(failing check ids 1=exit 2=target created 3=written tree 4=loaded back; outcome; expected tree; expected loaded view)": exp[:5000]})
        rp = ctx.write_replay("correspondence", {
            "what": "model Misc/Init.v and the implementation disagree; the oracle found no failing input among %d runs" % len(cases),
            "obligation": "correspondence Harness/C18.v check_case (exit status, target created, written key/value tree, showconfig view)",
            "mismatching_cases": len(bad), "coq_errors": errs, "examples": detail})
        ctx.violation(rp, nofail=True)
    # evidence
    hist = {"state": {}, "target": {}, "package_path_class": {}, "stream": {}, "init_environment": {}}

    def cls(p):
        try:
            s = p.decode()
        except UnicodeDecodeError:
            return "invalid-utf8"
        if s == "": return "empty"
        if "$" in s or "%" in s or "`" in s or s.startswith("~"): return "env/shell-expandable"
        if len(s) > 128: return "long"
        if any(ord(ch) < 32 or ord(ch) == 127 for ch in s): return "control-chars"
        if any(ord(ch) > 127 for ch in s): return "non-ascii"
        if re.fullmatch(r"[A-Za-z0-9_./-]+", s) and not re.fullmatch(r"[-+.0-9eExobn_:]+|null|true|false|yes|no|on|off|y|n|~", s, re.I): return "plain"
        if re.fullmatch(r"[-+.0-9eExobn_:TZ]+|null|true|false|yes|no|on|off|y|n|~|\.inf|\.nan|-\.inf", s, re.I): return "looks-like-scalar"
        return "yaml-significant"
    for c in cases:
        for k in (c.get("env") or {"(clean)": 1}):
            hist["init_environment"][k] = hist["init_environment"].get(k, 0) + 1
        for k, v in (("state", c["state"]), ("target", TARGETS[c["target"]][0]), ("package_path_class", cls(c["pkg"])), ("stream", c.get("stream", "main"))):
            hist[k][v] = hist[k].get(v, 0) + 1
    distinct = len({(c["state"], c["target"], c["pkg"]) for c in cases if cls(c["pkg"]) != "plain" or c["state"] != "Absent"})
    ctx.write_evidence(gate, len(cases) + len(mod_results) + probe["rounds"], distinct,
                       "one evaluation = one `mockery init` run (with showconfig on the result), one init + plain `mockery` run in a scratch module, or one round of 8 concurrent init runs on one target; non-trivial = the target exists / has no directory, or the package path is not a plain identifier path; distinct by (state, target kind, package path bytes)",
                       [describe(c, o) for c, o in list(zip(cases, obs))[:60:9]],
                       extra={"distribution": hist, "init_runs": len(cases), "clean_vs_environment_pairs": len(twins), "concurrency_probe": {"concurrent_runs_per_round": 8, "rounds": probe["rounds"],
                                                                                     "unconfirmed_suspicious_rounds": len(probe["suspicious_first_batch"]) if not probe["confirmed"] else 0,
                                                                                     "confirmed_bad_rounds": len(probe["confirmed"])}, "module_runs": len(mod_results), "module_failures": len(mod_fail),
                              "model_mismatches": len(bad), "oracle_failures": len(oracle_fail),
                              "module_samples": [d for d, _ in mod_results[:3]]},
                       assumptions=["the model's init has no environment parameter (C18_environment_independent): initRun reads the --config flag and NewDefaultKoanf only; MOCKERY_CONFIG is honoured by the loader of a normal run but not by init (behaviour of the unchanged tree; the docs do not mention it for init), so a run under any MOCKERY_* environment must equal the clean-environment run byte for byte",
                                    "the written file is loaded back with repo=surprise x=1 VAR=expanded in the environment, and paths containing $ % ~ ` a second time with them unset; the loader model (Misc/Init.v load) is a function of the file's bytes only - no environment",
                                    "yaml.v3 (encoder) and koanf's YAML parser are parameters of the model with a round-trip hypothesis; the correspondence compares at the level of key/value trees (PyYAML compose without merge processing) and through the real loader (`mockery showconfig`)",
                                    "write errors after the exclusive create (disk full) are not modelled",
                                    "config discovery of a plain `mockery` run (FindConfig prefers .mockery.yaml and walks up the directory tree) is outside the model: the scratch modules contain no other config file"])


def replay(ctx, path):
    d = json.loads(open(path).read())
    if d.get("probe"):
        check(ctx, only=[], probe_only=True)
        return
    cs = [d["case"]] if "case" in d else [e["case"] for e in d.get("examples", [])]
    def fi(c):
        pkg = bytes.fromhex(c["pkg"])
        if c.get("stream") == "witness":
            return {"finding": "C18-merge-key-package-path" if is_merge_key(pkg) else "C18-multiline-package-path"}
        return {}
    check(ctx, only=[{"state": c["state"], "target": c["target"], "pkg": bytes.fromhex(c["pkg"]), "stream": c.get("stream", "main"),
                      **({"linkkind": c["linkkind"]} if c.get("linkkind") else {}), **({"env": c["env"]} if c.get("env") else {}), **fi(c)} for c in cs])
