"""C13 - replace-type substitutes exactly the configured types.

A case is a generated source package (1-3 interfaces, methods whose parameters and results are
drawn from a type grammar over replaceable named/alias types of two packages that share the
package name `ty`, used at top level and inside pointers, slices, arrays, maps, channels, func
types and variadics) plus a replace-type setting: keys (named types and an alias), targets (named
types and an alias in two packages that share the name `rt`, and a type of the original
package), written at one or more of the four configuration levels, possibly overridden below.
Runs per case: probe template with the setting, probe template without it (differential),
testify template with the setting followed by `go build ./...` (type check).
Model: Gen/Replace.v (+ C08's merge for the levels, + C15's registry for qualifiers) inside Coq.
Oracle: differential on qualifier-normalised type strings + import set = packages referenced +
the build."""
import copy, json, os, re, shutil
import yaml
from common import *
import common

MOD = "example.com/m"
HARNESS = "Cfg.Json Cfg.Config Gen.Alloc Gen.Replace Harness.C13"
PKGS = {   # relative path -> (package name, alias used in the generated source, go source)
    "ty": ("ty", "ty", "package ty\n\ntype K struct{ X int }\ntype K2 struct{ Y int }\ntype KA = K2\ntype KI interface{ F() }\n"),
    "v2/ty": ("ty", "ty2", "package ty\n\ntype K struct{ Z string }\n"),
    "rt": ("rt", "rt", "package rt\n\ntype R struct{ X int }\ntype R2 struct{ Y int }\ntype RA = R2\ntype G[T any] struct{ V T }\n"),
    "alt/rt": ("rt", "rt2", "package rt\n\ntype S struct{ X int }\n"),
}
KEYS = [("ty", "K"), ("ty", "K2"), ("ty", "KA"), ("v2/ty", "K"), ("ty", "KI")]
TARGETS = [("rt", "R"), ("rt", "R2"), ("rt", "RA"), ("alt/rt", "S"), ("ty", "K2"), ("v2/ty", "K")]
BASICS = ["int", "string", "bool", "float64", "byte"]

PROBE = r'''// PROBE
package {{.PkgName}}
{{- range $i, $m := .Interfaces}}
// IFACE {{$m.Name}} STRUCT {{$m.StructName}}
{{- range $m.Methods}}
// SIG {{.Name}} @P {{range $j, $p := .Params}}{{if $j}}|{{end}}{{$p.TypeString}}{{end}} @R {{range $j, $p := .Returns}}{{if $j}}|{{end}}{{$p.TypeString}}{{end}}
{{- end}}
{{- end}}
{{- range .Imports}}
// IMPORT {{.Path}} {{.Qualifier}}
{{- end}}
'''


# ------------------------------------------------------------------ types
def named(p, n):
    return ("named", p, n)


def gen_type(rng, depth=0, key_bias=0.4, comparable=False):
    r = rng.random()
    if r < key_bias:
        p, n = rng.choice(KEYS[:4] if comparable else KEYS)
        return named(p, n)
    if r < key_bias + 0.1:
        return named(*rng.choice([("rt", "R"), ("alt/rt", "S")]))
    if r < key_bias + 0.25 or depth >= 2:
        if not comparable and rng.random() < 0.25:
            return named("", rng.choice(["error", "any"]))
        return ("basic", rng.choice(BASICS))
    if comparable:
        return ("ptr", gen_type(rng, depth + 1, 0.7)) if rng.random() < 0.5 else ("array", rng.randint(1, 3), gen_type(rng, depth + 1, 0.7, True))
    k = rng.choice(["ptr", "ptr", "slice", "slice", "array", "map", "chan", "func"])
    if k == "ptr":
        return ("ptr", gen_type(rng, depth + 1, 0.7))
    if k == "slice":
        return ("slice", gen_type(rng, depth + 1, 0.7))
    if k == "array":
        return ("array", rng.randint(0, 4), gen_type(rng, depth + 1, 0.7))
    if k == "map":
        return ("map", gen_type(rng, depth + 1, 0.6, True), gen_type(rng, depth + 1, 0.6))
    if k == "chan":
        e = gen_type(rng, depth + 1, 0.7)
        while e[0] == "chan":
            e = gen_type(rng, depth + 1, 0.7)
        return ("chan", rng.choice(["both", "send", "recv"]), e)
    ps = [gen_type(rng, depth + 1, 0.6) for _ in range(rng.randint(0, 2))]
    rs = [gen_type(rng, depth + 1, 0.6) for _ in range(rng.randint(0, 2))]
    va = bool(ps) and rng.random() < 0.3
    if va:
        ps[-1] = ("slice", ps[-1])
    return ("func", ps, rs, va)


def go_src(t, variadic=False):
    k = t[0]
    if k == "basic":
        return t[1]
    if k == "tparam":
        return t[1]
    if k == "named":
        return t[2] if t[1] in ("", "src") else "%s.%s" % (PKGS[t[1]][1], t[2])
    if k == "ptr":
        return "*" + go_src(t[1])
    if k == "slice":
        return ("..." if variadic else "[]") + go_src(t[1])
    if k == "array":
        return "[%d]%s" % (t[1], go_src(t[2]))
    if k == "map":
        return "map[%s]%s" % (go_src(t[1]), go_src(t[2]))
    if k == "chan":
        return {"both": "chan ", "send": "chan<- ", "recv": "<-chan "}[t[1]] + go_src(t[2])
    ps = [go_src(x, t[3] and i == len(t[1]) - 1) for i, x in enumerate(t[1])]
    rs = [go_src(x) for x in t[2]]
    return "func(%s)%s" % (", ".join(ps), "" if not rs else (" " + rs[0] if len(rs) == 1 else " (%s)" % ", ".join(rs)))


def coq_ty(t):
    k = t[0]
    if k == "basic":
        return "(TBasic %s)" % coq_bytes(t[1])
    if k == "tparam":
        return "(TParam %s)" % coq_bytes(t[1])
    if k == "named":
        return "(TNamed %s %s)" % (coq_bytes(MOD + "/" + t[1] if t[1] else ""), coq_bytes(t[2]))
    if k == "ptr":
        return "(TPtr %s)" % coq_ty(t[1])
    if k == "slice":
        return "(TSlice %s)" % coq_ty(t[1])
    if k == "array":
        return "(TArray %d %s)" % (t[1], coq_ty(t[2]))
    if k == "map":
        return "(TMap %s %s)" % (coq_ty(t[1]), coq_ty(t[2]))
    if k == "chan":
        return "(TChan %s %s)" % ({"both": "CBoth", "send": "CSend", "recv": "CRecv"}[t[1]], coq_ty(t[2]))
    return "(TFunc %s %s %s)" % (coq_list(coq_ty(x) for x in t[1]), coq_list(coq_ty(x) for x in t[2]), coq_bool(t[3]))


def mentions(t):
    """package paths (relative) a type refers to"""
    k = t[0]
    if k == "named":
        return {t[1]} if t[1] else set()
    if k in ("basic", "tparam"):
        return set()
    if k == "func":
        out = set()
        for x in t[1] + t[2]:
            out |= mentions(x)
        return out
    out = set()
    for x in t[1:]:
        if isinstance(x, tuple):
            out |= mentions(x)
    return out


# ------------------------------------------------------------------ cases
# package-level types of the source package itself; generic interfaces declare type parameters of
# the same names (shadowing them) and of the names of replacement targets
SRC_TYPES = ("type Key string\n\ntype Val struct{ N int }\n\ntype R struct{ Z int }\n\n"
             # unexported: usable only by in-package mocks - as replacement targets and as replaced originals
             "type fakeA struct{ N int }\n\ntype fakeB = ty.K2\n\ntype origU struct{ U int }\n\ntype origV = ty.K\n\n"
             "type fakeG[T any] struct{ V T }\n\n")
# generic replacement targets (known finding C13-generic-target): (package, name) -> printed type-parameter list
GENERIC_TARGETS = {("src", "fakeG"): "[T any]", ("rt", "G"): "[T any]"}
INPKG_KEYS = [("src", "origU"), ("src", "origV"), ("src", "Key"), ("src", "Val"), ("ty", "K"), ("ty", "KA")]
INPKG_TARGETS = [("src", "fakeA"), ("src", "fakeB"), ("src", "fakeA"), ("src", "R"), ("rt", "R"), ("alt/rt", "S")]
SRC_KEYS = [("src", "Key"), ("src", "Val"), ("src", "R")]
TPARAM_SETS = [[("Key", "comparable"), ("V", "any")], [("T", "any"), ("R", "any")], [("Val", "any"), ("Key", "comparable")],
               [("K", "comparable"), ("S", "any")]]
QUAL_NAMES = ["rt", "ty", "rt0", "ty0"]     # package names / qualifiers of the original and replacement packages


def pnames(rng, n):
    """parameter names; some are spelled like an import qualifier of the file"""
    out = []
    for k in range(n):
        free = [q for q in QUAL_NAMES if q not in out]
        out.append(rng.choice(free) if free and rng.random() < 0.22 else "a%d" % k)
    return out


def gen_iface(rng, name, nmeth, must_use=None):
    methods = []
    for j in range(nmeth):
        n = rng.randint(0, 4)
        ps = [(nm, gen_type(rng)) for nm in pnames(rng, n)]
        va = bool(ps) and rng.random() < 0.3
        if va:
            ps[-1] = (ps[-1][0], ("slice", gen_type(rng, 1, 0.8)))
        rs = [("", gen_type(rng)) for _ in range(rng.randint(0, 3))]
        methods.append({"name": "M%d" % j, "params": ps, "variadic": va, "results": rs})
    if must_use is not None:
        m = methods[0]
        m["params"].insert(0, ("k%d" % len(m["params"]), named(*must_use)))
        m["results"].append(("", named(*must_use)))
    return {"name": name, "methods": methods}


def gen_case(rng):
    ifaces = []
    for i in range(rng.choice([1, 2, 2, 3])):
        methods = []
        for j in range(rng.choice([1, 2, 2, 3])):
            ps = [(nm, gen_type(rng)) for nm in pnames(rng, rng.randint(0, 4))]
            va = bool(ps) and rng.random() < 0.3
            if va:
                ps[-1] = (ps[-1][0], ("slice", gen_type(rng, 1, 0.8)))
            rs = [("", gen_type(rng)) for _ in range(rng.randint(0, 3))]
            methods.append({"name": "M%d" % j, "params": ps, "variadic": va, "results": rs})
        ifaces.append({"name": "I%d" % i, "methods": methods})
    # configuration skeleton: which interfaces are listed, how many configs entries
    cfg = {"file": None, "pkg": None, "ifaces": {}}
    for it in ifaces:
        if rng.random() < 0.7:
            cfg["ifaces"][it["name"]] = {"config": None, "configs": [None] * rng.choice([0, 0, 1, 2])}
    # replace-type entries at levels
    slots = [("file",), ("pkg",)]
    for n, ic in cfg["ifaces"].items():
        slots.append(("iface", n))
        for i in range(len(ic["configs"])):
            slots.append(("configs", n, i))
    keys = rng.sample(KEYS, rng.randint(1, 3))
    if rng.random() < 0.06:
        keys.append(("", "error"))
    if rng.random() < 0.05:
        keys.append(("", ""))          # an entry no type can be "exactly": must replace nothing
    placed = 0
    for key in keys:
        for slot in rng.sample(slots, min(len(slots), rng.choice([1, 1, 1, 2, 3]))):
            tgt = rng.choice([t for t in TARGETS if t != key])
            put(cfg, slot, key, tgt)
            placed += 1
    if rng.random() < 0.35:
        # a generic interface whose type parameters shadow package-level types of src that are keys,
        # next to a plain use of those types (which IS replaced)
        tps = rng.choice(TPARAM_SETS)
        names = [n for n, _ in tps]
        comp = [n for n, c in tps if c == "comparable"]

        def tp_type():
            r = rng.random()
            n = rng.choice(names)
            if r < 0.5:
                return ("tparam", n)
            if r < 0.65:
                return ("slice", ("tparam", n))
            if r < 0.75:
                return ("ptr", ("tparam", n))
            if r < 0.85 and comp:
                return ("map", ("tparam", rng.choice(comp)), ("tparam", n))
            if r < 0.93:
                return ("func", [("tparam", n)], [("tparam", rng.choice(names))], False)
            return gen_type(rng)
        gm = []
        for j in range(rng.choice([1, 2])):
            gm.append({"name": "M%d" % j, "params": [("a%d" % k, tp_type()) for k in range(rng.randint(1, 3))], "variadic": False,
                       "results": [("", tp_type()) for _ in range(rng.randint(0, 2))] + ([("", ("basic", "bool"))] if rng.random() < 0.5 else [])})
        gname = "G%d" % len(ifaces)
        ifaces.append({"name": gname, "tparams": tps, "methods": gm})
        plain = rng.choice(ifaces[:-1])
        plain["methods"][0]["params"].append(("q%d" % len(plain["methods"][0]["params"]), named(*rng.choice(SRC_KEYS))))
        plain["methods"][0]["variadic"] = False
        if rng.random() < 0.6:
            cfg["ifaces"].setdefault(gname, {"config": None, "configs": [None] * rng.choice([0, 1])})
        slots2 = [("file",), ("pkg",)] + [("iface", n) for n in cfg["ifaces"]]
        for key in rng.sample(SRC_KEYS, rng.randint(1, 3)):
            put(cfg, rng.choice(slots2), key, rng.choice([t for t in TARGETS if t[0] != "ty" or True]))
    case = {"ifaces": ifaces, "cfg": cfg, "others": {}, "recursive": False, "inpkg": False}
    if rng.random() < 0.28:
        # in-package mocks (mock package = source package): unexported types of the source package as
        # replacement targets and as replaced originals; no import of the package itself may appear
        case["inpkg"] = True
        it = rng.choice(ifaces if not ifaces[-1].get("tparams") else ifaces[:-1])
        m = it["methods"][0]
        ks = rng.sample(INPKG_KEYS, rng.randint(1, 3))
        for k in ks:
            t = named(*k)
            m["params"].insert(0, ("u%d" % len(m["params"]), t))
            if rng.random() < 0.6:
                m["results"].append(("", t))
            if rng.random() < 0.4:
                m["params"].insert(0, ("w%d" % len(m["params"]), rng.choice([("ptr", t), ("slice", t), ("map", ("basic", "string"), t)])))
        slots3 = [("file",), ("pkg",)] + [("iface", n) for n in cfg["ifaces"]]
        for k in ks:
            put(cfg, rng.choice(slots3), k, rng.choice([t for t in INPKG_TARGETS if t != k]))
        return case
    if rng.random() < 0.3:
        # a sub-package listed explicitly and an unrelated sibling; the same source package `ty` at
        # the top level and on (the possibly recursive) package src with different type names
        k1, k2 = rng.sample([("ty", "K"), ("ty", "K2"), ("ty", "KA"), ("ty", "KI")], 2)
        for lvl, k in (("file", k1), ("pkg", k2)):
            if not (cfg[lvl] or {}).get(k):
                put(cfg, (lvl,), k, rng.choice([t for t in TARGETS if t != k and t[0] != "ty"]))
        (cfg["file"] or {}).pop(k2, None)
        case["recursive"] = rng.random() < 0.7
        case["others"] = {"src/sub": [gen_iface(rng, "S0", rng.choice([1, 2]), k2 if rng.random() < 0.7 else None)],
                          "oth": [gen_iface(rng, "O0", rng.choice([1, 2]), k2)]}
    return case


def put(cfg, slot, key, tgt):
    if slot[0] in ("file", "pkg"):
        cfg[slot[0]] = cfg[slot[0]] or {}
        cfg[slot[0]][key] = tgt
    elif slot[0] == "iface":
        ic = cfg["ifaces"][slot[1]]
        ic["config"] = ic["config"] or {}
        ic["config"][key] = tgt
    else:
        ic = cfg["ifaces"][slot[1]]
        ic["configs"][slot[2]] = ic["configs"][slot[2]] or {}
        ic["configs"][slot[2]][key] = tgt


def rt_yaml(rt):
    out = {}
    for (kp, kt), (vp, vt) in rt.items():
        out.setdefault(MOD + "/" + kp if kp else "", {})[kt] = {"pkg-path": MOD + "/" + vp, "type-name": vt}
    return out


def config_yaml(case, base, template, with_rt, outdir):
    cfg = case["cfg"]
    d = {"template": template, "dir": outdir + "/{{.SrcPackageName}}", "filename": "mocks.go", "pkgname": "mocks", "all": True, "force-file-write": True}
    if case.get("inpkg"):
        d.update({"dir": "{{.InterfaceDir}}", "pkgname": "{{.SrcPackageName}}", "filename": "zz_%s.go" % outdir})
    if template.startswith("file://"):
        d["require-template-schema-exists"] = False
    if with_rt and cfg["file"]:
        d["replace-type"] = rt_yaml(cfg["file"])
    pk = {"config": {}}
    if case.get("recursive"):
        pk["config"]["recursive"] = True
    if with_rt and cfg["pkg"]:
        pk["config"]["replace-type"] = rt_yaml(cfg["pkg"])
    if cfg["ifaces"]:
        pk["interfaces"] = {}
        for n, ic in cfg["ifaces"].items():
            e = {}
            if ic["config"] is not None or True:
                e["config"] = {}
                if with_rt and ic["config"]:
                    e["config"]["replace-type"] = rt_yaml(ic["config"])
            if ic["configs"]:
                e["configs"] = []
                for i, c in enumerate(ic["configs"]):
                    x = {"structname": "Mock%s_%d" % (n, i)}
                    if with_rt and c:
                        x["replace-type"] = rt_yaml(c)
                    e["configs"].append(x)
            pk["interfaces"][n] = e
    d["packages"] = {MOD + "/src": pk}
    for rel in case.get("others", {}):
        d["packages"][MOD + "/" + rel] = {"config": {}}
    return yaml.safe_dump(d, sort_keys=False)


def mocks_of(case):
    """(interface, chain of replace-type maps most specific first) in Append order"""
    cfg = case["cfg"]
    out = []
    for it in case["ifaces"]:
        ic = cfg["ifaces"].get(it["name"])
        base_chain = [cfg["pkg"], cfg["file"]]
        if ic is None:
            out.append((it, base_chain))
        elif not ic["configs"]:
            out.append((it, [ic["config"]] + base_chain))
        else:
            for c in ic["configs"]:
                out.append((it, [c, ic["config"]] + base_chain))
    return out


def effective(chain):
    rt = {}
    for c in reversed(chain):
        if c:
            rt.update(c)
    return rt


def source_file(case, rel="src"):
    case = {"ifaces": case["ifaces"] if rel == "src" else case["others"][rel]}
    used = set()
    for it in case["ifaces"]:
        for m in it["methods"]:
            for _, t in m["params"] + m["results"]:
                used |= mentions(t)
    used.discard("src")
    if rel == "src":
        used.add("ty")              # the alias declarations of SRC_TYPES refer to it
    imports = "".join('\t%s "%s/%s"\n' % (PKGS[p][1], MOD, p) for p in sorted(used))
    body = ""
    for it in case["ifaces"]:
        tps = it.get("tparams") or []
        body += "type %s%s interface {\n" % (it["name"], "[%s]" % ", ".join("%s %s" % tp for tp in tps) if tps else "")
        for m in it["methods"]:
            ps = ", ".join("%s %s" % (n, go_src(t, m["variadic"] and i == len(m["params"]) - 1)) for i, (n, t) in enumerate(m["params"]))
            rs = [go_src(t) for _, t in m["results"]]
            body += "\t%s(%s)%s\n" % (m["name"], ps, "" if not rs else (" " + rs[0] if len(rs) == 1 and not rs[0].startswith("func") else " (%s)" % ", ".join(rs)))
        body += "}\n\n"
    local = SRC_TYPES if rel == "src" else ""
    return "package %s\n\n" % rel.split("/")[-1] + ("import (\n%s)\n\n" % imports if imports else "") + local + body


def make_fixture(ctx):
    base = ctx.scratch / "fix13"
    m = base / "m"
    m.mkdir(parents=True)
    (m / "go.mod").write_text("module %s\n\ngo 1.23\n\nrequire github.com/stretchr/testify v1.10.0\n" % MOD)
    shutil.copy(REPO / "go.sum", m / "go.sum")
    for rel, (name, alias, src) in PKGS.items():
        (m / rel).mkdir(parents=True)
        (m / rel / "x.go").write_text(src)
    (base / "probe.templ").write_text(PROBE)
    return base


def parse_probe(text):
    out = {"ifaces": [], "imports": []}
    for line in text.split("\n"):
        if line.startswith("// IFACE "):
            p = line.split()
            out["ifaces"].append({"name": p[2], "struct": p[4] if len(p) > 4 else "", "methods": []})
        elif line.startswith("// SIG "):
            m = re.match(r"// SIG (\S+) @P(.*?)@R(.*)$", line)
            ps = m.group(2).strip().split("|") if m.group(2).strip() else []
            rs = m.group(3).strip().split("|") if m.group(3).strip() else []
            out["ifaces"][-1]["methods"].append((m.group(1), ps, rs))
        elif line.startswith("// IMPORT "):
            p = line.split()
            out["imports"].append((p[2], p[3] if len(p) > 3 else ""))
    return out


def run_case(ctx, base, case, idx, mockery=None):
    d = ctx.scratch / "c13" / str(idx)
    shutil.rmtree(d, ignore_errors=True)
    shutil.copytree(base / "m", d)
    (d / "src").mkdir()
    (d / "src" / "src.go").write_text(source_file(case))
    for rel in case.get("others", {}):
        (d / rel).mkdir(parents=True, exist_ok=True)
        (d / rel / "x.go").write_text(source_file(case, rel))
    exe = mockery or ctx.bins["mockery"]
    env = go_env({"GOFLAGS": "-mod=mod"})
    for k in list(env):
        if k.startswith("MOCKERY_"):
            del env[k]
    obs = {}
    for tag, template, with_rt, outdir in (("with", "file://%s/probe.templ" % base, True, "outp"),
                                          ("without", "file://%s/probe.templ" % base, False, "outq"),
                                          ("testify", "testify", True, "out")):
        cfgp = d / (".mockery_%s.yml" % tag)
        cfgp.write_text(config_yaml(case, base, template, with_rt, outdir))
        p = run([exe, "--config", str(cfgp), "--log-level=error"], cwd=d, env=env, timeout=600)
        err = p.stderr.decode(errors="replace")
        obs[tag] = {"rc": p.returncode, "stderr": err[-500:], "panic": "panic:" in err or "goroutine " in err}
        f = d / "src" / ("zz_%s.go" % outdir) if case.get("inpkg") else d / outdir / "src" / "mocks.go"
        if p.returncode == 0 and f.exists():
            obs[tag]["text"] = f.read_text(errors="replace")
            if case.get("inpkg") and tag != "testify":
                f.unlink()          # the probe output is not part of the package for the next run
        obs[tag]["others"] = {}
        for rel in case.get("others", {}):
            g = d / outdir / rel.split("/")[-1] / "mocks.go"
            if p.returncode == 0 and g.exists():
                obs[tag]["others"][rel] = g.read_text(errors="replace")
    shutil.rmtree(d / "outp", ignore_errors=True)
    shutil.rmtree(d / "outq", ignore_errors=True)
    if obs["testify"]["rc"] == 0:
        p = run(["go", "build", "./..."], cwd=d, env=env, timeout=600)
        obs["build"] = {"rc": p.returncode, "stderr": p.stderr.decode(errors="replace")[-1500:]}
    shutil.rmtree(d, ignore_errors=True)
    return obs


def normalise(s, imports):
    """replace every qualifier by its import path"""
    q2p = {q: p for p, q in imports}

    def rep(m):
        return "{%s}.%s" % (q2p[m.group(1)], m.group(2)) if m.group(1) in q2p else m.group(0)
    return re.sub(r"\b([A-Za-z_]\w*)\.([A-Za-z_]\w*)", rep, s)


def judge_file(label, mocks, A, Bq, self_pkg=None):
    """One output file.  mocks = [(interface, [acceptable effective replace-type maps])]."""
    errs = []
    if [i["name"] for i in A["ifaces"]] != [it["name"] for it, _ in mocks] or len(Bq["ifaces"]) != len(mocks):
        return [("shape", "%s: interfaces rendered %r, expected %r" % (label, [i["name"] for i in A["ifaces"]], [it["name"] for it, _ in mocks]))]
    referenced = set()
    for (it, cands), ia, ib in zip(mocks, A["ifaces"], Bq["ifaces"]):
        ms = sorted(it["methods"], key=lambda m: m["name"])
        if [m[0] for m in ia["methods"]] != [m["name"] for m in ms]:
            errs.append(("shape", "%s %s: methods %r" % (label, it["name"], [m[0] for m in ia["methods"]])))
            continue
        for m, (_, pa, ra), (_, pb, rb) in zip(ms, ia["methods"], ib["methods"]):
            for kind, src, got, basev in (("parameter", m["params"], pa, pb), ("result", m["results"], ra, rb)):
                if len(got) != len(src) or len(basev) != len(src):
                    errs.append(("shape", "%s %s.%s: %d %ss rendered, %d declared" % (label, it["name"], m["name"], len(got), kind, len(src))))
                    continue
                for pos, ((_, t), g, b0) in enumerate(zip(src, got, basev)):
                    gn, bn = normalise(g, A["imports"]), normalise(b0, Bq["imports"])
                    referenced |= set(re.findall(r"\{([^}]*)\}\.", gn))
                    key = (t[1], t[2]) if t[0] == "named" else None
                    wants = []
                    for rt in cands:
                        w = bn
                        if key in rt:
                            # a target in the mock's own package is referred to without qualifier or import
                            w = rt[key][1] if rt[key][0] == self_pkg else "{%s/%s}.%s" % ((MOD,) + rt[key])
                        if w not in wants:
                            wants.append(w)
                    if gn in wants:
                        continue
                    if all(key in rt for rt in cands):
                        errs.append(("not-replaced", "%s: %s (%s) %s.%s %s %d of type %s: rendered %s, expected %s" % (
                            label, it["name"], ia["struct"], it["name"], m["name"], kind, pos, go_src(t), g, " or ".join(wants))))
                    else:
                        errs.append(("changed", "%s: %s.%s %s %d of type %s has no entry in the chain of this mock but is rendered %s with the setting and %s without" % (
                            label, it["name"], m["name"], kind, pos, go_src(t), g, b0)))
    imp = {p for p, q in A["imports"]}
    if self_pkg is not None and MOD + "/" + self_pkg in imp:
        errs.append(("imports", "%s: the in-package mock imports its own package %s/%s" % (label, MOD, self_pkg)))
    if imp != referenced:
        errs.append(("imports", "%s: imports %r, packages referenced by the rendered signatures %r" % (label, sorted(imp), sorted(referenced))))
    if len({q for p, q in A["imports"]}) != len(A["imports"]):
        errs.append(("imports", "%s: duplicate qualifier in %r" % (label, A["imports"])))
    return errs


def other_mocks(case, rel):
    """Interfaces of the packages that carry no setting of their own.  The sibling sees the top
    level only.  The explicitly configured sub-package of a recursive src also receives src's
    package-level entries; the property does not rank that level (C08), so both ranks are accepted."""
    cfg = case["cfg"]
    top = cfg["file"] or {}
    cands = [dict(top)]
    if rel == "src/sub" and case.get("recursive") and cfg["pkg"]:
        below = dict(cfg["pkg"]); below.update(top)
        above = dict(top); above.update(cfg["pkg"])
        cands = [below, above]
    return [(it, cands) for it in case["others"][rel]]


def oracle(case, obs):
    errs = []
    for tag in ("with", "without", "testify"):
        if obs[tag]["panic"]:
            return [("crash", "%s run crashed: %s" % (tag, obs[tag]["stderr"][-200:]))]
        if obs[tag]["rc"] != 0 or "text" not in obs[tag] and tag != "testify":
            return [("run", "%s run failed (rc=%d): %s" % (tag, obs[tag]["rc"], obs[tag]["stderr"][-300:]))]
    errs += judge_file("src", [(it, [effective(chain)]) for it, chain in mocks_of(case)],
                       parse_probe(obs["with"]["text"]), parse_probe(obs["without"]["text"]),
                       self_pkg="src" if case.get("inpkg") else None)
    for rel in case.get("others", {}):
        if rel not in obs["with"]["others"] or rel not in obs["without"]["others"]:
            errs.append(("shape", "no output for package %s" % rel))
            continue
        errs += judge_file(rel, other_mocks(case, rel), parse_probe(obs["with"]["others"][rel]), parse_probe(obs["without"]["others"][rel]))
    if obs.get("build", {}).get("rc", 1) != 0 and not case.get("skip_build"):
        errs.append(("build", "testify output with the setting does not build: %s" % obs.get("build", obs["testify"]).get("stderr", "")[-600:]))
    return errs


def coq_rt(rt):
    return coq_list("((%s, %s), (%s, %s))" % (coq_bytes(MOD + "/" + kp if kp else ""), coq_bytes(kt), coq_bytes(MOD + "/" + vp), coq_bytes(vt))
                    for (kp, kt), (vp, vt) in (rt or {}).items())


def case_term(case, obs):
    A = parse_probe(obs["with"].get("text", ""))
    ifs = []
    for it, chain in mocks_of(case):
        ms = sorted(it["methods"], key=lambda m: m["name"])
        meths = coq_list("(%s, {| s_params := %s; s_variadic := %s; s_results := %s |})" % (
            coq_bytes(m["name"]), coq_list("(%s, %s)" % (coq_bytes(n), coq_ty(t)) for n, t in m["params"]), coq_bool(m["variadic"]),
            coq_list("(%s, %s)" % (coq_bytes(n), coq_ty(t)) for n, t in m["results"])) for m in ms)
        ifs.append("{| ci_name := %s; ci_chain := %s; ci_methods := %s |}" % (
            coq_bytes(it["name"]), coq_list(coq_rt(c) for c in chain if c is not None), meths))
    ob = coq_list("(%s, %s)" % (coq_bytes(i["name"]), coq_list("(%s, %s, %s)" % (
        coq_bytes(n), coq_list(coq_bytes(x) for x in ps), coq_list(coq_bytes(x) for x in rs)) for n, ps, rs in i["methods"])) for i in A["ifaces"])
    decl = coq_list("((%s, %s), %s)" % (coq_bytes(MOD + "/" + p), coq_bytes(n), coq_bytes(d)) for (p, n), d in GENERIC_TARGETS.items())
    return "{| k_names := %s; k_dst := %s; k_inpkg := %s; k_ifaces := %s; k_decl := %s; k_obs := %s; k_imports := %s |}" % (
        coq_list(["(%s, %s)" % (coq_bytes(MOD + "/" + p), coq_bytes(v[0])) for p, v in PKGS.items()] + ["(%s, %s)" % (coq_bytes(MOD + "/src"), coq_bytes("src"))]),
        coq_bytes(MOD + "/src" if case.get("inpkg") else MOD + "/outp/src"), coq_bool(bool(case.get("inpkg"))), coq_list(ifs), decl, ob,
        coq_list("(%s, %s)" % (coq_bytes(p), coq_bytes(q)) for p, q in A["imports"]))


def describe(case, obs=None):
    d = {"source": source_file(case), "other_sources": {rel: source_file(case, rel) for rel in case.get("others", {})}, "config": yaml.safe_load(config_yaml(case, "@BASE@", "file://@BASE@/probe.templ", True, "outp")),
         "packages": {MOD + "/" + p: v[2] for p, v in PKGS.items()}}
    if obs is not None:
        d["observed"] = {k: {kk: vv for kk, vv in v.items() if kk != "panic"} for k, v in obs.items()}
    return d


def dump_case(case):
    def rt(c):
        return None if c is None else [[list(k), list(v)] for k, v in c.items()]
    cfg = case["cfg"]
    return {"ifaces": case["ifaces"], "skip_build": case.get("skip_build", False),
            "others": case.get("others", {}), "recursive": case.get("recursive", False), "inpkg": case.get("inpkg", False),
            "witness": case.get("witness"),
            "cfg": {"file": rt(cfg["file"]), "pkg": rt(cfg["pkg"]),
                    "ifaces": {n: {"config": rt(ic["config"]), "configs": [rt(c) for c in ic["configs"]]} for n, ic in cfg["ifaces"].items()}}}


def load_case(d):
    def tt(t):
        return tuple(tt(x) if isinstance(x, list) and x and isinstance(x[0], str) and x[0] in ("basic", "named", "tparam", "ptr", "slice", "array", "map", "chan", "func")
                     else ([tt(y) for y in x] if isinstance(x, list) else x) for x in t)

    def rt(c):
        return None if c is None else {tuple(k): tuple(v) for k, v in c}
    def load_ifaces(l):
        out = []
        for it in l:
            ms = []
            for m in it["methods"]:
                ms.append({"name": m["name"], "variadic": m["variadic"], "params": [(n, tt(t)) for n, t in m["params"]],
                           "results": [(n, tt(t)) for n, t in m["results"]]})
            e = {"name": it["name"], "methods": ms}
            if it.get("tparams"):
                e["tparams"] = [tuple(x) for x in it["tparams"]]
            out.append(e)
        return out
    ifaces = load_ifaces(d["ifaces"])
    cfg = d["cfg"]
    return {"ifaces": ifaces, "skip_build": d.get("skip_build", False),
            "others": {rel: load_ifaces(l) for rel, l in d.get("others", {}).items()}, "recursive": d.get("recursive", False),
            "inpkg": d.get("inpkg", False), "witness": d.get("witness"),
            "cfg": {"file": rt(cfg["file"]), "pkg": rt(cfg["pkg"]),
                    "ifaces": {n: {"config": rt(ic["config"]), "configs": [rt(c) for c in ic["configs"]]} for n, ic in cfg["ifaces"].items()}}}


def shrink(ctx, base, case, fails):
    cur = copy.deepcopy(case)

    def candidates(c):
        for i in range(len(c["ifaces"])):
            if len(c["ifaces"]) > 1:
                yield ("iface", i)
        for i, it in enumerate(c["ifaces"]):
            for j in range(len(it["methods"])):
                if len(it["methods"]) > 1:
                    yield ("method", i, j)
            for j, m in enumerate(it["methods"]):
                for k in range(len(m["params"])):
                    yield ("param", i, j, k)
                for k in range(len(m["results"])):
                    yield ("result", i, j, k)
        for rel in list(c.get("others", {})):
            yield ("other", rel)
        if c.get("recursive"):
            yield ("norec",)
        cfg = c["cfg"]
        for lvl in ("file", "pkg"):
            for key in list(cfg[lvl] or {}):
                yield ("rt", lvl, key)
        for n, ic in cfg["ifaces"].items():
            for key in list(ic["config"] or {}):
                yield ("rti", n, key)
            for x, cc in enumerate(ic["configs"]):
                for key in list(cc or {}):
                    yield ("rtc", n, x, key)

    def apply(c, cand):
        c = copy.deepcopy(c)
        k = cand[0]
        if k == "iface":
            name = c["ifaces"][cand[1]]["name"]
            del c["ifaces"][cand[1]]
            c["cfg"]["ifaces"].pop(name, None)
        elif k == "method":
            del c["ifaces"][cand[1]]["methods"][cand[2]]
        elif k == "param":
            m = c["ifaces"][cand[1]]["methods"][cand[2]]
            if m["variadic"] and cand[3] == len(m["params"]) - 1:
                m["variadic"] = False
            del m["params"][cand[3]]
        elif k == "result":
            del c["ifaces"][cand[1]]["methods"][cand[2]]["results"][cand[3]]
        elif k == "other":
            del c["others"][cand[1]]
        elif k == "norec":
            c["recursive"] = False
        elif k == "rt":
            del c["cfg"][cand[1]][cand[2]]
        elif k == "rti":
            del c["cfg"]["ifaces"][cand[1]]["config"][cand[2]]
        elif k == "rtc":
            del c["cfg"]["ifaces"][cand[1]]["configs"][cand[2]][cand[3]]
        return c
    budget, pos = 80, 0
    while budget > 0:
        cands = list(candidates(cur))
        if pos >= len(cands):
            break
        nxt = apply(cur, cands[pos])
        budget -= 1
        try:
            ok = fails(nxt, run_case(ctx, base, nxt, "shrink"))
        except Exception:      # noqa
            ok = False
        if ok:
            cur = nxt
        else:
            pos += 1
    return cur


def hand_cases():
    """Boundary cases run first: every level alone, override, key beside other uses, alias key and
    alias target, target inside the original package, same-named packages."""
    K, K2, KA, V2K = named("ty", "K"), named("ty", "K2"), named("ty", "KA"), named("v2/ty", "K")
    out = []

    def one(params, results, variadic=False):
        return [{"name": "I0", "methods": [{"name": "M0", "params": params, "variadic": variadic, "results": results}]}]
    for slot_kind in ("file", "pkg", "iface", "configs"):
        cfg = {"file": None, "pkg": None, "ifaces": {"I0": {"config": None, "configs": [None] if slot_kind == "configs" else []}}}
        slot = {"file": ("file",), "pkg": ("pkg",), "iface": ("iface", "I0"), "configs": ("configs", "I0", 0)}[slot_kind]
        put(cfg, slot, ("ty", "K"), ("rt", "R"))
        out.append({"ifaces": one([("a0", K), ("a1", ("ptr", K)), ("a2", ("slice", K))], [("", K), ("", named("", "error"))]), "cfg": cfg})
    # unlisted interface, setting on the package and at the top
    for lvl in ("file", "pkg"):
        cfg = {"file": None, "pkg": None, "ifaces": {}}
        put(cfg, (lvl,), ("ty", "KA"), ("rt", "RA"))
        out.append({"ifaces": one([("a0", KA), ("a1", K2), ("a2", ("map", K2, KA))], [("", KA)], False), "cfg": cfg})
    # override: top says R, the configs entry says alt/rt.S; key alone (original package disappears)
    cfg = {"file": None, "pkg": None, "ifaces": {"I0": {"config": None, "configs": [None, None]}}}
    put(cfg, ("file",), ("ty", "K"), ("rt", "R"))
    put(cfg, ("configs", "I0", 1), ("ty", "K"), ("alt/rt", "S"))
    out.append({"ifaces": one([("a0", K)], [("", K)]), "cfg": cfg})
    # same-named packages: ty.K -> v2/ty.K beside a remaining use of ty
    cfg = {"file": None, "pkg": None, "ifaces": {}}
    put(cfg, ("pkg",), ("ty", "K"), ("v2/ty", "K"))
    out.append({"ifaces": one([("a0", K), ("a1", K2), ("a2", V2K)], [("", ("func", [K], [K], False))]), "cfg": cfg})
    # an entry with empty package path and type name names no type: nothing may change
    cfg = {"file": None, "pkg": None, "ifaces": {}}
    put(cfg, ("pkg",), ("", ""), ("rt", "R"))
    out.append({"ifaces": one([("a0", ("basic", "int")), ("a1", ("ptr", K)), ("a2", ("slice", K2))], [("", K)], True), "cfg": cfg})
    # replace-type leak shape: ty.K at the top, ty.K2 on the recursive package src, its sub-package listed
    # explicitly, an unrelated sibling whose interface uses ty.K2 (must render as without the setting)
    cfg = {"file": None, "pkg": None, "ifaces": {}}
    put(cfg, ("file",), ("ty", "K"), ("rt", "R"))
    put(cfg, ("pkg",), ("ty", "K2"), ("alt/rt", "S"))
    user = {"name": "O0", "methods": [{"name": "M0", "params": [("a0", K), ("a1", K2)], "variadic": False, "results": [("", K2)]}]}
    out.append({"ifaces": one([("a0", K), ("a1", K2)], [("", K2)]), "cfg": cfg, "recursive": True,
                "others": {"src/sub": [dict(user, name="S0")], "oth": [user]}})
    # in-package mocks: unexported named type and unexported alias of the source package as targets, an
    # unexported original, a second (exported, foreign) mapping in the same run
    cfg = {"file": None, "pkg": None, "ifaces": {}}
    put(cfg, ("pkg",), ("src", "Key"), ("src", "fakeA"))
    put(cfg, ("pkg",), ("src", "origU"), ("src", "fakeB"))
    put(cfg, ("file",), ("ty", "K"), ("rt", "R"))
    out.append({"cfg": cfg, "inpkg": True, "ifaces": [{"name": "I0", "methods": [
        {"name": "One", "params": [("a", named("src", "Key"))], "variadic": False, "results": [("", named("src", "Key"))]},
        {"name": "Two", "params": [("u", named("src", "origU")), ("p", ("ptr", named("src", "origU"))), ("k", K)], "variadic": False,
         "results": [("", named("src", "origU")), ("", named("", "error"))]}]}]})
    # type parameters that shadow package-level types which are keys: `Get(k Key) (V, bool)` keeps its
    # type parameter, `Put(k Key)` of the plain interface is replaced
    cfg = {"file": None, "pkg": None, "ifaces": {}}
    put(cfg, ("pkg",), ("src", "Key"), ("rt", "R"))
    put(cfg, ("file",), ("src", "R"), ("alt/rt", "S"))
    out.append({"cfg": cfg, "ifaces": [
        {"name": "I0", "methods": [{"name": "Put", "params": [("k", named("src", "Key")), ("r", named("src", "R"))], "variadic": False, "results": []}]},
        {"name": "Cache", "tparams": [("Key", "comparable"), ("V", "any")],
         "methods": [{"name": "Get", "params": [("k", ("tparam", "Key"))], "variadic": False, "results": [("", ("tparam", "V")), ("", ("basic", "bool"))]}]},
        {"name": "Conv", "tparams": [("T", "any"), ("R", "any")],
         "methods": [{"name": "Do", "params": [("in", ("tparam", "T")), ("f", ("func", [("tparam", "T")], [("tparam", "R")], False))], "variadic": False,
                      "results": [("", ("slice", ("tparam", "R")))]}]}]})
    # a parameter spelled like the replacement package's qualifier, in the first method that brings the
    # replacement package in, and in a later one; also like the original package's
    cfg = {"file": None, "pkg": None, "ifaces": {}}
    put(cfg, ("pkg",), ("ty", "K"), ("rt", "R"))
    out.append({"ifaces": [{"name": "I0", "methods": [
        {"name": "M0", "params": [("rt", ("basic", "string")), ("in", K)], "variadic": False, "results": [("", K), ("", named("", "error"))]},
        {"name": "M1", "params": [("ty", K2), ("rt", K)], "variadic": False, "results": []}]}], "cfg": cfg})
    # target inside the original package; variadic of the key type
    cfg = {"file": None, "pkg": None, "ifaces": {}}
    put(cfg, ("file",), ("ty", "K"), ("ty", "K2"))
    out.append({"ifaces": one([("a0", K), ("a1", ("slice", K))], [("", K)], True), "cfg": cfg})
    for c in out:
        c.setdefault("others", {})
        c.setdefault("recursive", False)
        c.setdefault("inpkg", False)
    return out


def witness_cases():
    """Inputs of the known-finding class C13-generic-target: the replacement target is a generic type."""
    K = named("ty", "K")
    out = []
    for inpkg, key, tgt, sig in ((True, ("src", "Key"), ("src", "fakeG"), [("a", named("src", "Key"))]),
                                 (False, ("ty", "K"), ("rt", "G"), [("a", K)]),
                                 (True, ("ty", "K"), ("rt", "G"), [("a", K), ("b", ("ptr", K))])):
        cfg = {"file": None, "pkg": None, "ifaces": {}}
        put(cfg, ("pkg",), key, tgt)
        out.append({"cfg": cfg, "inpkg": inpkg, "others": {}, "recursive": False, "witness": "C13-generic-target",
                    "ifaces": [{"name": "I0", "methods": [{"name": "One", "params": sig, "variadic": False, "results": [("", sig[0][1])]}]}]})
    return out


def is_generic_target_case(case):
    cfg = case["cfg"]
    maps = [cfg["file"], cfg["pkg"]] + [x for ic in cfg["ifaces"].values() for x in [ic["config"]] + ic["configs"]]
    return any(t in GENERIC_TARGETS for m in maps if m for t in m.values())


def check_witness(ctx, case, obs):
    """The listed symptom: the declaration `Name[T any]` is rendered where a type is needed, so the
    testify output cannot be formatted (or, unformatted, does not build)."""
    text = obs["with"].get("text", "")
    rendered = any(re.search(r"\b(fakeG|G)\[T any\]", x) for i in parse_probe(text)["ifaces"] for _, ps, rs in i["methods"] for x in ps + rs) if text else False
    broken = obs["testify"]["rc"] != 0 and "formatting mock file" in obs["testify"]["stderr"] or obs.get("build", {}).get("rc", 0) != 0
    if rendered and broken:
        return True
    return False


def check(ctx, only=None):
    gate = proof_gate(ctx)
    if not ctx.build_tree():
        ctx.write_evidence(gate, 0, 0, "build failed", [])
        return
    base = make_fixture(ctx)
    (ctx.scratch / "c13").mkdir()
    if only is not None:
        cases = [load_case(c) for c in only]
    else:
        cases = hand_cases() + witness_cases() + [gen_case(ctx.rng) for _ in range(700 if ctx.thorough() else 55)]
    for c in cases:
        if any(("", "error") in (lv or {}) for lv in [c["cfg"]["file"], c["cfg"]["pkg"]] +
               [x for ic in c["cfg"]["ifaces"].values() for x in [ic["config"]] + ic["configs"]]):
            c["skip_build"] = True      # the testify template treats a result named `error` specially
    t1 = time.time()
    obs = pmap(lambda ic: run_case(ctx, base, ic[1], ic[0]), list(enumerate(cases)))
    t2 = time.time()
    fails = {}
    known = load_known("C13")
    for i, (c, o) in enumerate(zip(cases, obs)):
        if is_generic_target_case(c):
            # known-finding class: the symptom must be the listed one; anything else is reported
            if known and check_witness(ctx, c, o):
                ctx.cov["witness"] = ctx.cov.get("witness", 0) + 1
                continue
            fails[i] = [("generic-target", "replacement target is a generic type: expected the known symptom (declaration rendered, testify output "
                         "not formattable); observed probe=%r testify rc=%d build=%r" % (o["with"].get("text", "")[-200:], o["testify"]["rc"], o.get("build")))]
            continue
        e = oracle(c, o)
        if e:
            fails[i] = e
    if ctx.cov.get("witness"):
        ctx.known("C13-generic-target: a replace-type target that is a generic type is rendered as its declaration (e.g. fakeG[T any]); "
                  "generation fails at formatting (%d witness inputs)" % ctx.cov["witness"])
    usable = [i for i, o in enumerate(obs) if "text" in o["with"]]
    bad, cerrs = coq_mismatches(ctx, HARNESS, [case_term(cases[i], obs[i]) for i in usable], shard=8)
    bad = [usable[i] for i in bad]
    t3 = time.time()
    print("C13: cases=%d oracle_failures=%d model_mismatches=%d coq_errors=%d (runs %.0fs, coq %.0fs)" % (
        len(cases), len(fails), len(bad), len(cerrs), t2 - t1, t3 - t2), flush=True)
    by_class = {}
    for i in sorted(fails):
        for cls, msg in fails[i]:
            by_class.setdefault(cls, i)
    for cls in sorted(by_class)[:6]:
        i = by_class[cls]

        def fails_cls(cc, oo, cls=cls):
            return any(c == cls for c, _ in oracle(cc, oo))
        small = shrink(ctx, base, cases[i], fails_cls)
        so = run_case(ctx, base, small, "final")
        what = [m for c, m in oracle(small, so) if c == cls] or [m for c, m in fails[i] if c == cls]
        rp = ctx.write_replay("oracle-%s" % cls, {"what": what[:4], "failure_class": cls,
                                                  "cases_failing_in_this_class": sum(1 for j in fails if any(c == cls for c, _ in fails[j])),
                                                  "case": dump_case(small), "readable": describe(small, so)})
        ctx.violation(rp)
    if not gate["ok"] and not fails:
        ctx.violation(gate["replay"], nofail=True)
    if (bad or cerrs) and not fails:
        detail = []
        for i in bad[:3]:
            def fails_model(cc, oo):
                if "text" not in oo["with"]:
                    return False
                b2, e2 = coq_mismatches(ctx, HARNESS, [case_term(cc, oo)])
                return bool(b2 or e2)
            small = shrink(ctx, base, cases[i], fails_model)
            so = run_case(ctx, base, small, "final")
            t = case_term(small, so)
            detail.append({"case": dump_case(small), "readable": describe(small, so),
                           "model_expected": coq_show(ctx, HARNESS, "(model_obs (%s), model_imports (%s))" % (t, t))[:4000]})
        rp = ctx.write_replay("correspondence", {
            "what": "model Gen/Replace.v and the implementation disagree; the differential oracle and the build found no failing input among %d" % len(cases),
            "obligation": "correspondence Harness/C13.v check_case (type string of every parameter and result, import list with qualifiers)",
            "mismatching_cases": len(bad), "coq_errors": cerrs[:3], "examples": detail})
        ctx.violation(rp, nofail=True)
    # evidence
    hist = {"levels": {}, "key_positions": {"top-level parameter": 0, "top-level result": 0, "nested or variadic": 0, "absent": 0},
            "targets": {}, "overrides": 0}
    nontrivial = set()
    for c, o in zip(cases, obs):
        cfg = c["cfg"]
        lv = [("file", cfg["file"]), ("pkg", cfg["pkg"])] + [("iface", ic["config"]) for ic in cfg["ifaces"].values()] + \
             [("configs", x) for ic in cfg["ifaces"].values() for x in ic["configs"]]
        keys_seen = {}
        for name, m in lv:
            for k, v in (m or {}).items():
                hist["levels"][name] = hist["levels"].get(name, 0) + 1
                hist["targets"]["%s.%s" % v] = hist["targets"].get("%s.%s" % v, 0) + 1
                keys_seen[k] = keys_seen.get(k, 0) + 1
        hist["overrides"] += sum(1 for n in keys_seen.values() if n > 1)
        replaced = False
        for it, chain in mocks_of(c):
            rt = effective(chain)
            for m in it["methods"]:
                for kind, l in (("parameter", m["params"]), ("result", m["results"])):
                    for _, t in l:
                        if t[0] == "named" and (t[1], t[2]) in rt:
                            hist["key_positions"]["top-level " + kind] += 1
                            replaced = True
                        elif any((MOD, k) for k in rt if k[0] in mentions(t)):
                            hist["key_positions"]["nested or variadic"] += 1
        if replaced:
            nontrivial.add(json.dumps(dump_case(c), sort_keys=True))
    ctx.write_evidence(gate, 4 * len(cases), len(nontrivial),
                       "seeded source packages + replace-type settings; one evaluation = one mockery run (probe with / without the setting, testify with the setting) or one go build; non-trivial = at least one parameter or result is actually replaced; distinct by source + setting",
                       [describe(c) for c in cases[:2]],
                       extra={"input_histogram": hist, "model_mismatches": len(bad), "oracle_failures": len(fails)},
                       assumptions=["go/types (TypeString layout, method order), go/packages and the testify template are exercised, not modelled",
                                    "type parameters and instantiated generic types are outside the generator"])


def replay(ctx, path):
    d = json.loads(open(path).read())
    cs = [d["case"]] if "case" in d else [e["case"] for e in d.get("examples", [])]
    check(ctx, only=cs)


import time  # noqa: E402
