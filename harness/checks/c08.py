"""C08 - configuration resolves hierarchically; the most specific setting wins.

A case is an abstract configuration tree (top-level sources env / file / flags, packages,
interfaces, `configs` entries) over a fixed scratch module; every (parameter, level) that is set
carries its own marker value.  Observed per case:
  * `mockery showconfig`  - the whole tree after one Initialize (every level, every parameter),
  * a generation run with probe templates - per output file: path, package clause, which probe
    ran, formatter effect, file-level template-data; per mock in the file: interface, struct
    name, interface-level template-data, replace-type effect on the signature; exit class,
    pre-existing files kept/overwritten.
Model: Cfg/Config.v evaluated inside Coq (Harness/C08.v).  Oracle: an independent Python
"most specific level wins" resolution on the abstract tree plus a no-leak check on marker
provenance.
Streams: main, conflict (mocks of one file disagreeing on pkgname/template -> error), schema
(planted rejecting / missing schema files), force (pre-existing outputs), leak (recursive
package + configured sub-package + sibling), builtin (matryer: with-resets, mock-build-tags)."""
import copy, json, os, re, shutil, time
import yaml
from common import *

MOD = "example.com/m"
HARNESS = "Cfg.Json Cfg.Config Harness.C08"
ZIMPORT = "From Coq Require Import ZArith."
NPROBE = 16
NSCHEMA = 8
NRT = 40

SIG = "M(a ty.K, b ty.K2, c ty.KA, d *ty.K, e []ty.K2) (ty.K, error)"
SRC = {            # package (relative) -> interfaces in declaration order
    "p": ["A", "B", "C"],
    "p/sub": ["A", "B"],
    "q": ["A", "B", "D"],
    "r": ["A"],
}
SUBS = {"p": ["p/sub"]}      # discovery: go list p/... minus p itself
SIGKEYS = [("ty", "K"), ("ty", "K2"), ("ty", "KA")]

PTR_KEYS = {      # yaml key -> (Coq constructor, kind)
    "all": ("PAll", "bool"), "build-tags": ("PBuildTags", "str"), "config": ("PConfigFile", "str"),
    "dir": ("PDir", "str"), "exclude-interface-regex": ("PExcludeInterfaceRegex", "str"),
    "filename": ("PFileName", "str"), "force-file-write": ("PForceFileWrite", "bool"),
    "formatter": ("PFormatter", "str"), "include-interface-regex": ("PIncludeInterfaceRegex", "str"),
    "log-level": ("PLogLevel", "str"), "structname": ("PStructName", "str"), "pkgname": ("PPkgName", "str"),
    "recursive": ("PRecursive", "bool"), "require-template-schema-exists": ("PRequireTemplateSchemaExists", "bool"),
    "template": ("PTemplate", "str"), "template-schema": ("PTemplateSchema", "str"),
}
DEFAULTS = {
    "all": False, "build-tags": "", "config": "", "dir": "{{.InterfaceDir}}", "exclude-interface-regex": "",
    "filename": "mocks_test.go", "force-file-write": False, "formatter": "goimports", "include-interface-regex": "",
    "log-level": "info", "structname": "{{.Mock}}{{.InterfaceName}}", "pkgname": "{{.SrcPackageName}}",
    "recursive": False, "require-template-schema-exists": True, "template": "testify",
    "template-schema": "{{.Template}}.schema.json",
}
REGEXES = ["^A$", "^(A|B)$", "^[BCD]$", ".*", "^Z$", "B"]

# values whose rendering differs per interface (ParseTemplates must render them for every mock on
# that mock's own copy of the config)
TEMPLATED = {
    "dir": ["out/d@L_@N/{{.InterfaceName}}", "{{.InterfaceDir}}/x@L_@N{{.InterfaceName | lower}}", "out/d@L_@N_{{.Mock}}{{.InterfaceName}}",
            "out/{{.SrcPackageName}}@L_@N/{{.InterfaceName}}"],
    "filename": ["f@L_@N_{{.InterfaceName}}.go", "f@L_@N_{{.InterfaceFile | base}}", "{{.InterfaceName | lower}}@L_@N.go"],
    "pkgname": ["pk@L_@N{{.InterfaceName | lower}}", "{{.SrcPackageName}}@L_@N"],
    "structname": ["S@L_@N{{.InterfaceName}}", "{{.Mock}}@L_@N{{.InterfaceName}}"],
    "template-schema": ["file://@BASE/probes/schema_{{.InterfaceName}}.json"],
}

PROBE = r'''// PROBE @ID@
package {{.PkgName}}

import    "os"
{{- define "v" -}}
{{- $t := printf "%T" . -}}
{{- if or (eq $t "map[string]interface {}") (eq $t "template.TemplateData") -}}
{ {{- $first := true -}}{{- range $k, $v := . -}}{{- if not $first}},{{end}}{{- $first = false -}}{{printf "%q" $k}}:{{template "v" $v}}{{- end -}} }
{{- else if eq $t "[]interface {}" -}}
[ {{- range $i, $v := . -}}{{- if $i}},{{end}}{{template "v" $v}}{{- end -}} ]
{{- else if eq $t "string" -}}{{printf "%q" .}}
{{- else if eq $t "<nil>" -}}null
{{- else -}}{{printf "%v" .}}
{{- end -}}
{{- end }}
// SRCPKG {{.Registry.SrcPkg.PkgPath}}
// FILETD {{template "v" .TemplateData}}
{{- range $i, $m := .Interfaces}}
// IFACE {{$m.Name}} STRUCT {{$m.StructName}} TD {{template "v" $m.TemplateData}}
{{- range $m.Methods}}
// SIG {{$m.Name}} {{.Name}} P {{range $j, $p := .Params}}{{if $j}}|{{end}}{{$p.TypeString}}{{end}} R {{range $j, $p := .Returns}}{{if $j}}|{{end}}{{$p.TypeString}}{{end}}
{{- end}}
{{- end}}
var    Probe   =   1
'''


# ------------------------------------------------------------------ scratch module
def make_fixture(ctx):
    base = ctx.scratch / "fix"
    m = base / "m"
    (m / "ty").mkdir(parents=True)
    (m / "rt").mkdir()
    (m / "go.mod").write_text("module %s\n\ngo 1.23\n\nrequire github.com/stretchr/testify v1.10.0\n" % MOD)
    shutil.copy(REPO / "go.sum", m / "go.sum")
    (m / "ty" / "ty.go").write_text("package ty\n\ntype K struct{ X int }\ntype K2 struct{ Y int }\ntype KA = K2\n")
    (m / "rt" / "rt.go").write_text("package rt\n\n" + "".join("type R%d struct{ X%d int }\n" % (i, i) for i in range(NRT)))
    for rel, ifaces in SRC.items():
        d = m / rel
        d.mkdir(parents=True, exist_ok=True)
        name = rel.split("/")[-1]
        (d / (name + ".go")).write_text("package %s\n\nimport \"%s/ty\"\n\n" % (name, MOD) +
                                        "".join("type %s interface {\n\t%s\n}\n\n" % (i, SIG) for i in ifaces))
    pr = base / "probes"
    pr.mkdir()
    for i in range(NPROBE):
        (pr / ("probe_%d.templ" % i)).write_text(PROBE.replace("@ID@", str(i)))
        (pr / ("probe_%d.templ.schema.json" % i)).write_text('{"type": "object"}\n')
    for n in sorted({x for l in SRC.values() for x in l}):
        (pr / ("schema_%s.json" % n)).write_text(json.dumps({"type": "object", "properties": {"rej_%s" % n: {"type": "string"}}}))
    for j in range(NSCHEMA):
        # schema_j rejects a template-data map whose key rej_j is present and not a string
        (pr / ("schema_%d.json" % j)).write_text(json.dumps({"type": "object", "properties": {"rej_%d" % j: {"type": "string"}}}))
    return base


def probe_url(base, i):
    return "file://%s/probes/probe_%d.templ" % (base, i)


def schema_url(base, j):
    return "file://%s/probes/schema_%d.json" % (base, j)


def missing_schema_url(base, j):
    return "file://%s/probes/missing_%d.json" % (base, j)


# ------------------------------------------------------------------ abstract configs
def new_cfg():
    return {"ptr": {}, "td": None, "rt": None, "esr": None}


class Gen:
    """Generates one abstract case.  Every value written carries the id of its level instance."""

    def __init__(self, rng, base, stream):
        self.rng, self.base, self.stream = rng, base, stream
        self.n = 0
        self.ptempl = 0.6 if stream == "templated" else 0.12
        self.levels = {}         # level id -> small int used inside markers

    def lid(self, level):
        if level not in self.levels:
            self.levels[level] = len(self.levels) + 1
        return self.levels[level]

    def fresh(self):
        self.n += 1
        return self.n

    def marker(self, key, level, ownfile):
        r, n, L = self.rng, self.fresh(), self.lid(level)
        if key in TEMPLATED and r.random() < self.ptempl:
            return r.choice(TEMPLATED[key]).replace("@L", str(L)).replace("@N", str(n)).replace("@BASE", str(self.base))
        if key == "dir":
            return "out/d%d_%d" % (L, n)
        if key == "filename":
            return "f%d_%d.go" % (L, n)
        if key == "pkgname":
            return "pk%d_%d" % (L, n)
        if key == "structname":
            return "S%d_%d" % (L, n)
        if key == "template":
            return probe_url(self.base, (L * 3 + n) % (NPROBE // 2))
        if key == "template-schema":
            return schema_url(self.base, (L * 5 + n) % NSCHEMA)
        if key == "formatter":
            return ["goimports", "gofmt", "noop"][(L + n) % 3]
        if key == "log-level":
            return ["info", "debug", "warn", "error", "trace"][(L + n) % 5]
        if key in ("force-file-write", "require-template-schema-exists", "all", "recursive"):
            return r.random() < 0.5
        if key in ("include-interface-regex", "exclude-interface-regex"):
            return r.choice(REGEXES)
        raise KeyError(key)

    def td(self, level, depth=0):
        """A template-data map with marker leaves 'L<id>|<n>' / ints L*1000+n."""
        r, L = self.rng, self.lid(level)
        out = {}
        keys = ["a", "b", "nest", "deep", "x-y", "k%d" % L]
        for k in r.sample(keys, r.randint(0 if depth else 1, 3)):
            t = r.random()
            if k in ("nest", "deep") and depth < 3:
                t = t * 0.55 if t > 0.15 else 0.9      # mostly maps under nest/deep, sometimes a scalar (kind conflict)
            if t < 0.55 and depth < 3 and k in ("nest", "deep", "a"):
                out[k] = self.td(level, depth + 1)
            elif t < 0.7:
                out[k] = L * 1000 + self.fresh() % 1000
            elif t < 0.76:
                out[k] = ["L%d|%d" % (L, self.fresh()), L * 1000 + 7, {"z": "L%d|%d" % (L, self.fresh())}]
            elif t < 0.8:
                out[k] = None
            elif t < 0.84:
                out[k] = r.random() < 0.5
            else:
                out[k] = "L%d|%d" % (L, self.fresh())
        return out

    def esr_pattern(self, level):
        L, n = self.lid(level), self.fresh()
        return ("sub$|^mk%d_%d$" if self.rng.random() < 0.6 else "^mk%d_%d$") % (L, n)

    def rt(self, level):
        r = self.rng
        out = {}
        for k in r.sample(SIGKEYS, r.randint(1, 2)):
            self.nrt = getattr(self, "nrt", 0) + 1          # every entry of a case names its own target type
            out[k] = ("rt", "R%d" % ((self.lid(level) + self.nrt * 7) % NRT if self.nrt > NRT else self.nrt - 1))
        return out


PER_MOCK = ["dir", "filename", "pkgname", "structname"]
PER_FILE = ["template", "template-schema", "require-template-schema-exists", "formatter", "force-file-write"]
PER_PKG = ["all", "include-interface-regex", "exclude-interface-regex", "recursive"]


def gen_case(rng, base, stream):
    g = Gen(rng, base, stream)
    r = rng
    case = {"stream": stream, "env": new_cfg(), "file": new_cfg(), "flags": {}, "pkgs": {}, "existing": [],
            "schemas": {}, "tdkeys": None}
    # ---- skeleton
    templ = stream == "templated"
    share = stream == "share"
    if stream == "leak":
        names = ["p", "p/sub", "q"] + (["r"] if r.random() < 0.4 else [])
    elif share:
        # all mocks of a package in ONE file, several listed interfaces / configs entries that disagree
        # on the per-output-file parameters below the package level
        names = r.choice([["p"], ["q"], ["p", "q"]])
    elif templ:
        # several interfaces per package that are NOT listed (or listed without a config of their own):
        # they all derive their config from the same package-level object
        names = r.choice([["p"], ["q"], ["p", "q"], ["p", "p/sub"], ["q", "p/sub"]])
    else:
        names = r.sample(["p", "q", "r", "p/sub"], r.choice([1, 2, 2, 3]))
    r.shuffle(names)
    for rel in names:
        pk = {"config": new_cfg() if r.random() < 0.8 else None, "interfaces": None}
        k = r.choice([0, 0, 1, 2] if templ else [2, 3, 3] if share else [0, 1, 1, 2, 3])
        if k:
            pk["interfaces"] = {}
            for name in r.sample(SRC[rel], min(k, len(SRC[rel]))):
                ic = {"config": new_cfg() if r.random() < (0.3 if templ else 0.65) else None, "configs": None}
                nc = r.choice([0, 0, 0, 1] if templ else [0, 0, 1, 2, 2, 3])
                if nc:
                    ic["configs"] = [new_cfg() for _ in range(nc)]
                if ic["config"] is None and ic["configs"] is None and r.random() < 0.5:
                    ic = None                      # `A:` with a null value
                pk["interfaces"][name] = ic
        if pk["config"] is None and pk["interfaces"] is None and r.random() < 0.5:
            pk = None                              # `pkg:` with a null value
        case["pkgs"][MOD + "/" + rel] = pk

    def levels():
        """(level id, cfg dict, kind) of every level instance below the top."""
        for path, pk in case["pkgs"].items():
            if pk is None:
                continue
            if pk["config"] is not None:
                yield ("pkg:" + path, pk["config"], "pkg")
            for name, ic in (pk["interfaces"] or {}).items():
                if ic is None:
                    continue
                if ic["config"] is not None:
                    yield ("if:%s:%s" % (path, name), ic["config"], "iface")
                for i, c in enumerate(ic["configs"] or []):
                    yield ("cf:%s:%s:%d" % (path, name, i), c, "configs")

    top = [("env", case["env"], "env"), ("file", case["file"], "file")]
    # ---- the probe templates need no schema unless the stream is about schemas
    builtin = stream == "builtin"
    if builtin:
        case["file"]["ptr"]["template"] = "matryer"
        case["tdkeys"] = (["mock-build-tags"], ["with-resets"])
    else:
        case["file"]["ptr"]["template"] = probe_url(base, 0)
    # ---- selection: make sure something is generated
    sel = r.random() * (0.6 if templ else 1.0)
    if sel < 0.45:
        case["file"]["ptr"]["all"] = True
    elif sel < 0.6:
        case["env"]["ptr"]["all"] = True
    for lv, c, kind in list(levels()):
        if kind == "pkg":
            if r.random() < 0.3:
                c["ptr"]["all"] = r.random() < 0.7
            if r.random() < 0.25:
                c["ptr"]["include-interface-regex"] = r.choice(REGEXES)
                if r.random() < 0.5:
                    c["ptr"]["exclude-interface-regex"] = r.choice(REGEXES)
    if r.random() < 0.15:
        case["file"]["ptr"]["include-interface-regex"] = r.choice(REGEXES)
    if r.random() < 0.1:
        case["env"]["ptr"]["exclude-interface-regex"] = r.choice(REGEXES)
    # ---- recursion (only p has a sub-package; nested recursive packages are C07's)
    if stream == "leak":
        case["pkgs"][MOD + "/p"] = case["pkgs"][MOD + "/p"] or {"config": new_cfg(), "interfaces": None}
        if case["pkgs"][MOD + "/p"]["config"] is None:
            case["pkgs"][MOD + "/p"]["config"] = new_cfg()
        case["pkgs"][MOD + "/p"]["config"]["ptr"]["recursive"] = True
    elif r.random() < (0.4 if templ else 0.25):
        where = r.random()
        if where < 0.5 and case["pkgs"].get(MOD + "/p") and case["pkgs"][MOD + "/p"]["config"] is not None:
            case["pkgs"][MOD + "/p"]["config"]["ptr"]["recursive"] = True
        elif where < 0.75:
            case["file"]["ptr"]["recursive"] = True
        else:
            case["env"]["ptr"]["recursive"] = True
    # ---- per-mock and per-file parameters
    case["_excl_bias"] = r.random() < 0.5
    for lv, c, kind in top + list(levels()):
        if builtin:
            if kind in ("env",):
                continue
            if r.random() < 0.5:
                c["td"] = {}
                if r.random() < 0.8:
                    c["td"]["with-resets"] = r.random() < 0.6
                if r.random() < 0.5:
                    c["td"]["mock-build-tags"] = "tag%d" % g.lid(lv)
                if r.random() < 0.2:
                    c["td"]["skip-ensure"] = True
            for key in ("dir", "filename", "structname"):
                if r.random() < (0.5 if kind in ("file", "pkg") else 0.3):
                    c["ptr"][key] = g.marker(key, lv, False)
            continue
        general = kind in ("env", "file", "pkg")
        ownfile = (not general) and not templ and not share and r.random() < 0.5
        for key in PER_MOCK:
            p = {"dir": 0.3, "filename": 0.35, "pkgname": 0.3, "structname": 0.45}[key]
            if templ and general:
                p = {"dir": 0.55, "filename": 0.45, "pkgname": 0.25, "structname": 0.45}[key]
            if ownfile and key == "filename":
                p = 1.0
            if not general and not ownfile and key != "structname":
                p = 0.0 if share else 0.04
            if r.random() < p:
                c["ptr"][key] = g.marker(key, lv, ownfile)
        for key in PER_FILE:
            p = 0.3 if (general or ownfile) else (0.45 if share else 0.05)
            if share and key == "template" and not general:
                continue
            if key in ("template-schema", "require-template-schema-exists") and stream not in ("schema", "share"):
                p = p / 3
            if key == "force-file-write" and stream not in ("force", "share"):
                p = p / 2
            if kind == "file" and key == "template":
                continue
            if r.random() < p:
                c["ptr"][key] = g.marker(key, lv, ownfile)
        if r.random() < 0.15 and kind in ("env", "file"):
            c["ptr"]["log-level"] = g.marker("log-level", lv, False)
        # template-data
        if kind == "env":
            if r.random() < 0.35:
                L = g.lid(lv)
                c["td"] = {}
                for k in r.sample(["a", "b", "envk", "x-y"], r.randint(1, 2)):
                    c["td"][k] = "L%d|%d" % (L, g.fresh()) if r.random() < 0.8 else (r.random() < 0.5)
                if r.random() < 0.5:
                    c["td"]["nest"] = {"envn": "L%d|%d" % (L, g.fresh())}
        elif r.random() < (0.75 if stream == "leak" else 0.5):
            c["td"] = g.td(lv)
            if r.random() < 0.05:
                c["td"] = {}
        # replace-type (file and below; costs a packages.Load per replaced variable)
        if kind != "env" and r.random() < (0.22 if kind in ("file", "pkg") else 0.12):
            c["rt"] = g.rt(lv)
        # exclude-subpkg-regex: unset / explicitly empty / non-empty (own marker pattern per level; a
        # pattern either matches the one sub-package of the module, p/sub, or nothing)
        pe = {"file": 0.25, "pkg": 0.3}.get(kind, 0.04 if kind != "env" else 0.0)
        if r.random() < pe:
            c["esr"] = [] if r.random() < 0.4 else [g.esr_pattern(lv) for _ in range(r.choice([1, 1, 2]))]
        # explicitly empty values above a value set at a less specific level
        if kind == "pkg" and r.random() < 0.12:
            c["ptr"][r.choice(["include-interface-regex", "exclude-interface-regex"])] = ""
        if kind != "env" and c["rt"] is None and r.random() < 0.05:
            c["rt"] = {}
        if kind != "env" and r.random() < 0.05:
            c["rt_empty"] = True                # `replace-type: {<ty>: {}}`: an inner map without entries
    pkp = case["pkgs"].get(MOD + "/p")
    rec_somewhere = any(c["ptr"].get("recursive") for c in [case["env"], case["file"]] + ([pkp["config"]] if pkp and pkp["config"] else []))
    if case.pop("_excl_bias") and rec_somewhere and pkp is not None and stream in ("main", "leak"):
        # a list at the top level that excludes p/sub, and (half of the time) p's own list on top of it
        case["file"]["esr"] = ["sub$|^mk%d_%d$" % (g.lid("file"), g.fresh())]
        if pkp["config"] is not None:
            pkp["config"]["esr"] = r.choice([None, [], [], [g.esr_pattern("pkg:" + MOD + "/p")]])
    if r.random() < 0.25:
        case["flags"]["log-level"] = g.marker("log-level", "flags", False)
    if stream == "leak":
        # nested maps at the root and on the recursive package, so that sharing would show
        L = g.lid("file")
        case["file"]["td"] = case["file"]["td"] or {}
        case["file"]["td"].setdefault("nest", {})
        if not isinstance(case["file"]["td"]["nest"], dict):
            case["file"]["td"]["nest"] = {}
        case["file"]["td"]["nest"]["fromroot"] = "L%d|%d" % (L, g.fresh())
        pc = case["pkgs"][MOD + "/p"]["config"]
        L = g.lid("pkg:" + MOD + "/p")
        pc["td"] = pc["td"] or {}
        if not isinstance(pc["td"].get("nest"), dict):
            pc["td"]["nest"] = {}
        pc["td"]["nest"]["fromp"] = "L%d|%d" % (L, g.fresh())
        for rel in ("p/sub", "q"):
            pk = case["pkgs"][MOD + "/" + rel]
            if pk is not None and pk["config"] is not None and pk["config"]["td"] is not None and r.random() < 0.7:
                pk["config"]["td"].pop("nest", None)
    if stream == "leak" and r.random() < 0.6:
        # the same source package at two levels with different type names: a shared inner map
        # would carry the recursive package's entry up to the top level and into the sibling
        keys = r.sample(SIGKEYS, 2)
        case["file"]["rt"] = dict(case["file"]["rt"] or {})
        case["file"]["rt"].pop(keys[1], None)
        case["file"]["rt"][keys[0]] = g.rt("file").popitem()[1]
        pc = case["pkgs"][MOD + "/p"]["config"]
        pc["rt"] = dict(pc["rt"] or {})
        pc["rt"][keys[1]] = g.rt("pkg:" + MOD + "/p").popitem()[1]
        for rel in ("p/sub", "q"):
            pk = case["pkgs"][MOD + "/" + rel]
            if pk is not None:
                for lv, c in all_levels({"env": case["env"], "file": case["file"], "pkgs": {MOD + "/" + rel: pk}}):
                    if lv not in ("env", "file") and c["rt"] and r.random() < 0.8:
                        c["rt"].pop(keys[1], None)
                        c["rt"] = c["rt"] or None
    case["levels"] = dict(g.levels)
    return case


def finish_case(case, base, rng):
    """Stream specific planting that needs the expected plan (pre-existing files, schemas)."""
    exp = expected(case)
    files = exp["files"] if exp["kind"] == "ok" else {}
    if case["stream"] == "force" or (case["stream"] == "share" and rng.random() < 0.6):
        for path in sorted(files):
            if path.startswith("out/") and rng.random() < 0.7:
                case["existing"].append(path)
    if case["stream"] == "schema" or (case["stream"] == "share" and rng.random() < 0.5):
        # which schema urls are mentioned; decide which exist / what they reject, and plant rej_ keys
        urls = set()
        for lv, c in all_levels(case):
            u = c["ptr"].get("template-schema")
            if u:
                urls.add(u)
        for u in sorted(urls):
            if "{{" in u:
                continue
            j = int(re.search(r"schema_(\d+)\.json$", u).group(1))
            if rng.random() < 0.2:
                # point the level at a missing file instead
                mu = missing_schema_url(base, j)
                for lv, c in all_levels(case):
                    if c["ptr"].get("template-schema") == u:
                        c["ptr"]["template-schema"] = mu
                case["schemas"][mu] = None
            else:
                case["schemas"][u] = ["rej_%d" % j]
        # rej_ keys: present with a non-string value somewhere in the tree for about half the schemas
        lvls = [c for lv, c in all_levels(case) if lv != "env"]
        for u, rej in sorted(case["schemas"].items()):
            if rej and rng.random() < 0.5:
                c = rng.choice(lvls)
                c["td"] = c["td"] if c["td"] is not None else {}
                c["td"][rej[0]] = rng.choice([1, True, "str-is-fine"])
    # every schema url that exists on disk and is not special rejects only its own key
    for lv, c in all_levels(case):
        u = c["ptr"].get("template-schema")
        if u and u not in case["schemas"]:
            m = re.search(r"schema_(\d+)\.json$", u)
            case["schemas"][u] = ["rej_%s" % m.group(1)] if m else None
    for n in sorted({x for l in SRC.values() for x in l}):
        case["schemas"]["file://%s/probes/schema_%s.json" % (base, n)] = ["rej_%s" % n]
    for i in range(NPROBE):
        case["schemas"][probe_url(base, i) + ".schema.json"] = []
    case["schemas"]["matryer.schema.json"] = []     # embedded schema of the built-in template (the stream writes only its keys)
    return case


def all_levels(case):
    yield ("env", case["env"])
    yield ("file", case["file"])
    for path, pk in case["pkgs"].items():
        if pk is None:
            continue
        if pk["config"] is not None:
            yield ("pkg:" + path, pk["config"])
        for name, ic in (pk["interfaces"] or {}).items():
            if ic is None:
                continue
            if ic["config"] is not None:
                yield ("if:%s:%s" % (path, name), ic["config"])
            for i, c in enumerate(ic["configs"] or []):
                yield ("cf:%s:%s:%d" % (path, name, i), c)


# ------------------------------------------------------------------ printing for mockery
def cfg_yaml(c):
    if c is None:
        return None
    d = dict(c["ptr"])
    if c["td"] is not None:
        d["template-data"] = c["td"]
    if c["rt"] is not None:
        rt = {}
        for (kp, kt), (vp, vt) in c["rt"].items():
            rt.setdefault(MOD + "/" + kp, {})[kt] = {"pkg-path": MOD + "/" + vp, "type-name": vt}
        d["replace-type"] = rt
    if c.get("rt_empty"):
        d.setdefault("replace-type", {}).setdefault(MOD + "/ty", {})
    if c["esr"] is not None:
        d["exclude-subpkg-regex"] = c["esr"]
    return d


def config_yaml(case):
    d = cfg_yaml(case["file"])
    pk = {}
    for path, p in case["pkgs"].items():
        if p is None:
            pk[path] = None
            continue
        e = {}
        if p["config"] is not None:
            e["config"] = cfg_yaml(p["config"])
        if p["interfaces"] is not None:
            e["interfaces"] = {}
            for name, ic in p["interfaces"].items():
                if ic is None:
                    e["interfaces"][name] = None
                    continue
                x = {}
                if ic["config"] is not None:
                    x["config"] = cfg_yaml(ic["config"])
                if ic["configs"] is not None:
                    x["configs"] = [cfg_yaml(c) for c in ic["configs"]]
                e["interfaces"][name] = x
        pk[path] = e
    d["packages"] = pk
    return yaml.safe_dump(d, sort_keys=False, default_flow_style=False)


def env_vars(case, variant=0):
    variant = variant if isinstance(variant, int) else 0
    out = {}
    for k, v in case["env"]["ptr"].items():
        name = "MOCKERY_" + k.upper().replace("-", "_")
        if isinstance(v, bool):
            v = [["true", "false"], ["TRUE", "False"]][variant % 2][0 if v else 1]
        out[name] = v

    def walk(prefix, d):
        for k, v in d.items():
            name = prefix + "." + k.upper().replace("-", "_")
            if isinstance(v, dict):
                walk(name, v)
            elif isinstance(v, bool):
                out[name] = "true" if v else "false"
            else:
                out[name] = v
    if case["env"]["td"]:
        walk("MOCKERY_TEMPLATE_DATA", case["env"]["td"])
    return out


def clean_env(extra):
    env = go_env({"GOFLAGS": "-mod=mod"})
    for k in list(env):
        if k.startswith("MOCKERY_"):
            del env[k]
    env.update(extra)
    return env


# ------------------------------------------------------------------ running the implementation
def parse_probe(text):
    f = {"probe": None, "pkgname": None, "srcpkg": None, "td": None, "ifaces": []}
    for line in text.split("\n"):
        if line.startswith("// PROBE "):
            f["probe"] = int(line.split()[2])
        elif line.startswith("package ") and f["pkgname"] is None:
            f["pkgname"] = line.split()[1]
        elif line.startswith("// SRCPKG "):
            f["srcpkg"] = line.split()[2]
        elif line.startswith("// FILETD "):
            f["td"] = json.loads(line[len("// FILETD "):])
        elif line.startswith("// IFACE "):
            m = re.match(r"// IFACE (\S+) STRUCT (\S*) TD (.*)$", line)
            f["ifaces"].append({"name": m.group(1), "struct": m.group(2), "td": json.loads(m.group(3)), "sigs": []})
        elif line.startswith("// SIG "):
            m = re.match(r"// SIG (\S+) (\S+) P (.*) R (.*)$", line)
            f["ifaces"][-1]["sigs"].append((m.group(3).split("|"), m.group(4).split("|")))
    if "var    Probe   =   1" in text:
        f["formatter"] = "noop"
    elif re.search(r'import\s+"os"', text):
        f["formatter"] = "gofmt"
    else:
        f["formatter"] = "goimports"
    return f


ORIG_PARAM_TYPES = ["ty.K", "ty.K2", "ty.KA", "*ty.K", "[]ty.K2"]


def iface_rt(sigs):
    """Observed replacements, from the parameter list of M; the result and the pointer / slice
    positions are checked by the oracle."""
    rt, problems = {}, []
    for params, results in sigs:
        if len(params) != 5 or len(results) != 2:
            problems.append("unexpected signature shape %r %r" % (params, results))
            continue
        for key, orig, got in zip(SIGKEYS, ORIG_PARAM_TYPES, params[:3]):
            if got != orig:
                m = re.match(r"^(\w+)\.(\w+)$", got)
                rt[key] = (m.group(1), m.group(2)) if m else ("?", got)
        if params[3] != "*ty.K" or params[4] != "[]ty.K2":
            problems.append("pointer/slice position changed: %r" % (params,))
        want_res = "%s.%s" % rt[("ty", "K")] if ("ty", "K") in rt else "ty.K"
        if results != [want_res, "error"]:
            problems.append("result %r, parameter of the same type rendered as %s" % (results, want_res))
    return rt, problems


def parse_matryer(text):
    f = {"probe": "matryer", "pkgname": None, "td": {}, "ifaces": [], "formatter": "goimports", "srcpkg": None}
    m = re.search(r"^package (\w+)", text, re.M)
    f["pkgname"] = m.group(1) if m else None
    m = re.search(r"^//go:build (\S+)", text, re.M)
    if m:
        f["td"]["mock-build-tags"] = m.group(1)
    heads = list(re.finditer(r"^// (\S+) is a mock implementation of (?:\w+\.)?(\w+)\.", text, re.M))
    for n, m in enumerate(heads):
        section = text[m.start():heads[n + 1].start() if n + 1 < len(heads) else len(text)]
        s = m.group(1)
        td = {}
        if re.search(r"^func \(mock \*%s\) ResetCalls\(\)" % re.escape(s), section, re.M):
            td["with-resets"] = True
        f["ifaces"].append({"name": m.group(2), "struct": s, "td": td, "sigs": []})
    return f


def run_case(ctx, base, case, idx, mockery=None):
    """Materialise the case in its own copy of the module, run showconfig and the generation."""
    d = ctx.scratch / "cases" / str(idx)
    shutil.rmtree(d, ignore_errors=True)
    shutil.copytree(base / "m", d)
    (d / ".mockery.yml").write_text(config_yaml(case))
    for path in case["existing"]:
        (d / path).parent.mkdir(parents=True, exist_ok=True)
        (d / path).write_text("// OLD\npackage old\n")
    env = clean_env(env_vars(case, idx))
    exe = mockery or ctx.bins["mockery"]
    flags = ["--log-level=%s" % case["flags"]["log-level"]] if "log-level" in case["flags"] else []
    obs = {}
    p = run([exe, "showconfig"] + flags, cwd=d, env=env, timeout=120)
    if p.returncode == 0:
        try:
            obs["show"] = yaml.safe_load(p.stdout.decode())
        except Exception as e:      # noqa
            obs["show"] = None
            obs["show_err"] = "unparsable showconfig output: %s" % e
    else:
        obs["show"] = None
        obs["show_err"] = "showconfig exit %d: %s" % (p.returncode, p.stderr.decode(errors="replace")[-300:])
    p = run([exe] + flags, cwd=d, env=env, timeout=300)
    err = p.stderr.decode(errors="replace")
    obs["rc"] = p.returncode
    obs["panic"] = "panic:" in err or "goroutine " in err
    obs["stderr_tail"] = err[-600:]
    files = {}
    for root, dirs, fs in os.walk(d):
        for fn in fs:
            if not fn.endswith(".go"):
                continue
            fp = os.path.join(root, fn)
            text = open(fp, errors="replace").read()
            rel = os.path.relpath(fp, d)
            if text.startswith("// OLD"):
                files[rel] = {"old": True}
            elif "// PROBE " in text:
                files[rel] = parse_probe(text)
            elif "Code generated by mockery" in text:
                files[rel] = parse_matryer(text)
    obs["files"] = files
    shutil.rmtree(d, ignore_errors=True)
    return obs


# ------------------------------------------------------------------ oracle: most specific level wins
def deep_merge(child, parent):
    """child wins; maps merged key by key at every depth"""
    out = copy.deepcopy(child)
    for k, v in parent.items():
        if k not in out:
            out[k] = copy.deepcopy(v)
        elif isinstance(out[k], dict) and isinstance(v, dict):
            out[k] = deep_merge(out[k], v)
    return out


def first_set(chain, key):
    for c in chain:
        if c is not None and key in c["ptr"]:
            return c["ptr"][key]
    return DEFAULTS[key]


def chain_td(chain):
    td = {}
    for c in reversed(chain):
        if c is not None and c["td"] is not None:
            td = deep_merge(c["td"], td)
    return td


def chain_rt(chain):
    rt = {}
    for c in reversed(chain):
        if c is not None and c["rt"] is not None:
            rt.update(c["rt"])
    return rt


def subst_defaults(v, rel, iface):
    """Rendering of a templated value for one interface (the variables the generator uses)."""
    if not isinstance(v, str) or "{{" not in v:
        return v
    name = rel.split("/")[-1]
    for tok, val in (("{{.InterfaceName | lower}}", iface.lower()), ("{{.InterfaceName}}", iface), ("{{.Mock}}", "Mock"),
                     ("{{.SrcPackageName}}", name), ("{{.InterfaceDir}}", rel), ("{{.InterfaceFile | base}}", name + ".go")):
        v = v.replace(tok, val)
    return v


def expected(case):
    """Expected mocks and files by the property's reading, from the abstract tree alone."""
    top = [case["file"], case["env"]]
    pkgs = {}
    for path, pk in case["pkgs"].items():
        pkgs[path] = {"config": (pk or {}).get("config"), "interfaces": (pk or {}).get("interfaces") or {}, "origin": [path]}
    # recursion: discovered sub-packages take the package-level config of the recursive package
    for path in list(pkgs):
        rel = path[len(MOD) + 1:]
        if first_set([pkgs[path]["config"]] + top, "recursive") and rel in SUBS:
            # sub-package exclusion is a per-package parameter: the package's own list if it writes
            # one (an explicitly empty list excludes nothing), else the top level's
            esr = next((c["esr"] for c in [pkgs[path]["config"], case["file"]] if c is not None and c["esr"] is not None), [])
            for s in SUBS[rel]:
                sp = MOD + "/" + s
                if any(re.search(rgx, sp) for rgx in esr):
                    continue
                if sp not in pkgs:
                    pkgs[sp] = {"config": pkgs[path]["config"], "interfaces": {}, "origin": [path]}
                else:
                    pkgs[sp]["origin"].append(path)
    mocks = []
    for path, pk in pkgs.items():
        rel = path[len(MOD) + 1:]
        pchain = [pk["config"]] + top
        allv = first_set(pchain, "all")
        inc, exc = first_set(pchain, "include-interface-regex"), first_set(pchain, "exclude-interface-regex")
        for name in SRC[rel]:
            listed = name in pk["interfaces"]
            if not (allv or listed or (inc != "" and re.search(inc, name) and not (exc != "" and re.search(exc, name)))):
                continue
            ic = pk["interfaces"].get(name) or {}
            cfgs = ic.get("configs") or [None]
            # a configured sub-package of a recursive package also receives the recursive package's
            # maps (template-data, replace-type); the property's chain does not rank that level, the
            # oracle accepts it below the top level (what the code does) or between package and top
            rec = [pkgs[o]["config"] for o in pk["origin"] if o != path]
            for i, c in enumerate(cfgs):
                chain = [c, ic.get("config"), pk["config"]] + top
                m = {"pkg": path, "rel": rel, "iface": name, "idx": i, "chain": chain, "origin": pk["origin"]}
                m["alt"] = [(chain_td(ch), chain_rt(ch)) for ch in
                            ([chain + rec, [c, ic.get("config"), pk["config"]] + rec + top] if rec else [])]
                for key in PER_MOCK + PER_FILE:
                    m[key] = first_set(chain, key)
                for key in ("dir", "filename", "structname", "pkgname", "template-schema"):
                    if m[key] != "{{.Template}}.schema.json":
                        m[key] = subst_defaults(m[key], rel, name)
                if m["template-schema"] == "{{.Template}}.schema.json":
                    m["template-schema"] = m["template"] + ".schema.json"
                m["path"] = m["dir"] + "/" + m["filename"]
                m["td"] = chain_td(chain + rec)
                m["rt"] = chain_rt(chain + rec)
                mocks.append(m)
    files = {}
    for m in mocks:
        files.setdefault(m["path"], []).append(m)
    why = None
    for path, ms in sorted(files.items()):
        for key in ("pkgname", "template", "pkg"):
            if len({m[key] for m in ms}) > 1:
                why = "mocks of %s disagree on %s" % (path, key)
    if not pkgs:
        why = "no packages"
    for path, pk in pkgs.items():
        for name in pk["interfaces"]:
            if name not in SRC[path[len(MOD) + 1:]]:
                why = "interface %s listed for %s is not declared there" % (name, path)
    return {"kind": "err" if why else "ok", "why": why, "mocks": mocks, "files": files}


def file_outcome(case, ms):
    """Must the run write this file (True) or refuse it (False)?  The per-output-file parameters are
    those of the FIRST mock added to the file - the mock that also supplies its pkgname and
    template - for all of them together: never a later mock's, never a mixture."""
    first = ms[0]
    verdicts = []
    if not (first["template"] in ("matryer", "testify") or re.search(r"/probes/probe_\d+\.templ$", first["template"])):
        verdicts.append(False)          # no such template (uniform in a file by Append)
    if any(m["formatter"] not in ("goimports", "gofmt", "noop") for m in ms):
        verdicts.append(False)          # an unknown formatter on any mock of the file is an error
    if first["path"] in case["existing"]:
        verdicts.append(bool(first["force-file-write"]))
    if first["require-template-schema-exists"]:
        rej = case["schemas"].get(first["template-schema"])
        if rej is None:
            verdicts.append(False)
        else:
            for m in ms:                # the file-level data (the first mock's) and every mock's data
                for k in rej:
                    if k in m["td"] and not isinstance(m["td"][k], str):
                        verdicts.append(False)
    return all(verdicts)


def flat(td, prefix=()):
    """template-data as {key path: leaf}; an empty map and a list are leaves"""
    out = {}
    for k, v in td.items():
        if isinstance(v, dict) and v:
            out.update(flat(v, prefix + (k,)))
        else:
            out[prefix + (k,)] = json.dumps(v, sort_keys=True)
    return out


def td_acceptable(got, want, alts):
    """The chain of the property fixes [want].  For a mock of a sub-package that a recursive package
    discovers, the code also merges the recursive package's maps in - as ((sub <- top) <- parent),
    which under a kind conflict between the top level and the parent is neither the chain
    [..; top; parent] nor [..; parent; top] as a whole.  The property does not rank that level, so
    the oracle accepts, key path by key path, what either placement gives, and insists on every
    path on which all placements agree."""
    if got == want or got in alts:
        return True
    if not alts:
        return False
    cands = [flat(want)] + [flat(a) for a in alts]
    g = flat(got)
    for path, leaf in g.items():
        if not any(c.get(path) == leaf for c in cands):
            return False
    for path, leaf in cands[0].items():
        if all(c.get(path) == leaf for c in cands) and g.get(path) != leaf:
            return False
    return True


def leaves(v):
    if isinstance(v, dict):
        for x in v.values():
            yield from leaves(x)
    elif isinstance(v, list):
        for x in v:
            yield from leaves(x)
    else:
        yield v


def marker_level(v):
    if isinstance(v, str):
        m = re.match(r"^L(\d+)\|", v)
        return int(m.group(1)) if m else None
    if isinstance(v, int) and not isinstance(v, bool) and v >= 1000:
        return v // 1000
    return None


def restrict(td, keys):
    return {k: v for k, v in td.items() if k in keys and v is not False and v is not None}


def oracle(case, obs):
    """The property, evaluated on the observed behaviour.  Returns a list of (class, message)."""
    errs = []
    if obs["panic"]:
        return [("crash", "mockery crashed: %s" % obs["stderr_tail"][-200:])]
    exp = expected(case)
    builtin = case["stream"] == "builtin"
    # ---- top-level sources, from showconfig's root
    show = obs.get("show")
    if show is not None:
        root = show.get("Config", {})
        for key in PTR_KEYS:
            if key == "config":
                continue
            want = case["flags"].get(key, first_set([case["file"], case["env"]], key))
            if root.get(key) != want:
                errs.append(("sources", "top level %s = %r, expected %r (flags > file > env > default)" % (key, root.get(key), want)))
        want_td = chain_td([case["file"], case["env"]])
        if (root.get("template-data") or {}) != want_td:
            errs.append(("sources", "top level template-data %r, expected %r" % (root.get("template-data"), want_td)))
        if (root.get("exclude-subpkg-regex") or []) != (case["file"]["esr"] or []):
            errs.append(("sources", "top level exclude-subpkg-regex %r, the configuration file says %r" % (root.get("exclude-subpkg-regex"), case["file"]["esr"])))
        got_rt = yaml_cfg_to_abs(root)["rt"]
        want_rt = {(MOD + "/" + kp, kt): (MOD + "/" + vp, vt) for (kp, kt), (vp, vt) in (case["file"]["rt"] or {}).items()}
        if got_rt != want_rt:
            errs.append(("leak" if set(want_rt.items()) <= set(got_rt.items()) else "sources",
                         "top level replace-type %r, the configuration file says %r" % (sorted(got_rt.items()), sorted(want_rt.items()))))
    elif exp["kind"] == "ok":
        errs.append(("showconfig", obs.get("show_err", "showconfig failed")))
    # ---- outcome of the run
    outcomes = {p: file_outcome(case, ms) for p, ms in exp["files"].items()} if exp["kind"] == "ok" else {}
    if exp["kind"] == "err" or any(o is False for o in outcomes.values()):
        if obs["rc"] == 0:
            errs.append(("exit:must-refuse", "run succeeded but %s" % (exp["why"] or "a file must be refused (existing without force-file-write, or schema): %s"
                                                                          % sorted(p for p, o in outcomes.items() if o is False))))
        return errs
    if obs["rc"] != 0:
        errs.append(("exit:valid-refused", "run failed (rc=%d) on a valid configuration: %s" % (obs["rc"], obs["stderr_tail"][-300:])))
        return errs
    if obs["rc"] != 0:
        return errs
    files = obs["files"]
    got_paths = sorted(p for p, f in files.items() if not f.get("old"))
    if got_paths != sorted(exp["files"]):
        errs.append(("files", "output files %r, expected %r" % (got_paths, sorted(exp["files"]))))
        return errs
    for p in case["existing"]:
        if p in exp["files"] and p in files and files[p].get("old"):
            errs.append(("overwrite", "pre-existing %s not overwritten although force-file-write is set for its mocks" % p))
    lv = case["levels"]
    for path, ms in sorted(exp["files"].items()):
        f = files[path]
        if f.get("old"):
            continue
        # per-mock parameters, in the order of the file
        def parts(m):
            td = restrict(m["td"], case["tdkeys"][1]) if builtin else m["td"]
            return [m["iface"], m["structname"], td, sorted(("%s.%s" % k, "%s.%s" % v) for k, v in m["rt"].items())]
        got = []
        for io in f["ifaces"]:
            rt, problems = iface_rt(io["sigs"])
            errs.extend(("signature", "%s %s: %s" % (path, io["name"], x)) for x in problems)
            got.append([io["name"], io["struct"], io["td"], sorted(("%s.%s" % k, "%s.%s" % v) for k, v in rt.items())])
        want = [parts(m) for m in ms]
        for j, m in enumerate(ms):
            if j >= len(got) or not m["alt"]:
                continue
            alt_parts = [parts(dict(m, td=td2, rt=rt2)) for td2, rt2 in m["alt"]]
            if td_acceptable(got[j][2], want[j][2], [a[2] for a in alt_parts]):
                want[j][2] = got[j][2]
            if got[j][3] in [a[3] for a in alt_parts]:
                want[j][3] = got[j][3]
        if [g[0] for g in got] != [w[0] for w in want]:
            errs.append(("per-mock:interfaces", "%s: interfaces %r, expected %r" % (path, [g[0] for g in got], [w[0] for w in want])))
        else:
            for g_, w_ in zip(got, want):
                for n, what in ((1, "structname"), (2, "with-resets" if builtin else "template-data"), (3, "replace-type")):
                    if g_[n] != w_[n]:
                        errs.append(("per-mock:" + what, "%s: mock of %s has %s %s, its chain says %s" % (
                            path, g_[0], what, json.dumps(g_[n], sort_keys=True), json.dumps(w_[n], sort_keys=True))))
        if f["pkgname"] != ms[0]["pkgname"]:
            errs.append(("per-mock:pkgname", "%s: package clause %r, expected %r" % (path, f["pkgname"], ms[0]["pkgname"])))
        if not builtin and f["srcpkg"] != ms[0]["pkg"]:
            errs.append(("files", "%s: source package %r, expected %r" % (path, f["srcpkg"], ms[0]["pkg"])))
        # per-file parameters: those of the first mock added to the file
        want_t = ms[0]["template"]
        got_t = "matryer" if f["probe"] == "matryer" else "probe_%s" % f["probe"]
        if not (want_t == got_t or want_t.endswith("/%s.templ" % got_t)):
            errs.append(("per-file:template", "%s: rendered by %s, the mocks sharing the file say template %s" % (path, got_t, want_t)))
        disagree = len({m["formatter"] for m in ms}) > 1
        if not builtin and f["formatter"] != ms[0]["formatter"]:
            errs.append(("per-file:formatter", "%s: formatted as %s, %s says formatter %s" % (
                path, f["formatter"], "the first mock of the file (%s, configs entry %d; the mocks disagree: %r)" % (
                    ms[0]["iface"], ms[0]["idx"], [m["formatter"] for m in ms]) if disagree else "the mocks sharing the file", ms[0]["formatter"])))
        if True:
            want_td = restrict(ms[0]["td"], case["tdkeys"][0]) if builtin else ms[0]["td"]
            alts = [restrict(a[0], case["tdkeys"][0]) if builtin else a[0] for a in ms[0]["alt"]]
            if not td_acceptable(f["td"], want_td, alts):
                errs.append(("per-file:template-data", "%s: file-level template-data %r, the first mock of the file (%s, configs entry %d) says %r" % (
                    path, f["td"], ms[0]["iface"], ms[0]["idx"], want_td)))
        # no leak: every marker seen comes from a level of the mock's own chain
        for m, io in zip(ms, f["ifaces"]):
            allowed = set()
            chain_ids = ["cf:%s:%s:%d" % (m["pkg"], m["iface"], m["idx"]), "if:%s:%s" % (m["pkg"], m["iface"]),
                         "pkg:" + m["pkg"], "file", "env"] + ["pkg:" + o for o in m["origin"]]
            for cid in chain_ids:
                if cid in lv:
                    allowed.add(lv[cid])
            rt_seen, _ = iface_rt(io["sigs"])
            for key, tgt in sorted(rt_seen.items()):
                writers = [lid for lid, c in all_levels(case) if c["rt"] and c["rt"].get(key) == tgt]
                if writers and not any(w in chain_ids for w in writers):
                    errs.append(("leak", "%s %s: %s.%s is replaced by %s.%s, an entry written only at %s, not in the chain of this mock"
                                 % (path, io["name"], key[0], key[1], tgt[0], tgt[1], writers)))
            for x in leaves(io["td"]):
                L = marker_level(x)
                if L is not None and L not in allowed:
                    errs.append(("leak", "%s %s: template-data value %r was written at another level (%s), not in the chain of this mock"
                                 % (path, io["name"], x, [k for k, v in lv.items() if v == L])))
    return errs


# ------------------------------------------------------------------ Gallina terms
# Elaborating string literals dominates the cost of a cases file, and almost all strings repeat
# (defaults, template urls, package paths): every distinct string becomes one Definition.
INTERN = {}


def coq_bytes(b):      # noqa: F811  (shadows common.coq_bytes on purpose)
    if isinstance(b, str):
        b = b.encode()
    if b not in INTERN:
        INTERN[b] = "s%d" % len(INTERN)
    return INTERN[b]


def sharded_mismatches(ctx, terms, shard=16, tag="cases"):
    """Like common.coq_mismatches, but every shard file defines only the strings it uses."""
    import common
    names = {n: b for b, n in INTERN.items()}
    shards = [terms[i:i + shard] for i in range(0, len(terms), shard)]

    def one(k):
        used = sorted(set(re.findall(r"\bs\d+\b", " ".join(shards[k]))), key=lambda x: int(x[1:]))
        defs = "\n".join("Definition %s : str := %s." % (n, common.coq_bytes(names[n])) for n in used if n in names)
        body = "Definition cases := [\n%s\n]." % ";\n".join(shards[k])
        q = "Definition M := Eval vm_compute in (mismatches cases).\nPrint M."
        rc, out, err = coq_eval(ctx, "%s_%d" % (tag, k), "From Mk Require Import Lib.Bytes %s.\n%s\n%s" % (HARNESS, ZIMPORT, defs), body, q)
        if rc != 0:
            return k, None, err[-3000:]
        flat = " ".join(out.split())
        m = re.search(r"M = \[(.*?)\]\s*:", flat)
        if not m:
            return k, None, "unparsable coqc output: " + flat[:500]
        return k, [int(x.replace("%nat", "")) for x in m.group(1).split(";") if x.strip()], None
    bad, errs = [], []
    for k, idx, err in pmap(one, list(range(len(shards)))):
        if err:
            errs.append("shard %d: %s" % (k, err))
        else:
            bad.extend(k * shard + i for i in idx)
    return sorted(bad), errs


def intern_defs():
    import common
    return ZIMPORT + "\n" + "\n".join("Definition %s : str := %s." % (n, common.coq_bytes(b)) for b, n in INTERN.items())


def coq_json(v):
    if v is None:
        return "JNull"
    if isinstance(v, bool):
        return "JBool %s" % coq_bool(v)
    if isinstance(v, int):
        return "JNum (%d)%%Z" % v
    if isinstance(v, str):
        return "JStr %s" % coq_bytes(v)
    if isinstance(v, list):
        return "JArr %s" % coq_list("(%s)" % coq_json(x) for x in v)
    if isinstance(v, dict):
        return "JObj %s" % coq_obj(v)
    raise TypeError(repr(v))


def coq_obj(d):
    return coq_list("(%s, %s)" % (coq_bytes(str(k)), coq_json(v)) for k, v in d.items())


def coq_scalar(v):
    return "SBool %s" % coq_bool(v) if isinstance(v, bool) else "SStr %s" % coq_bytes(v)


def coq_rt(rt):
    return coq_list("((%s, %s), (%s, %s))" % (coq_bytes(MOD + "/" + kp), coq_bytes(kt), coq_bytes(MOD + "/" + vp), coq_bytes(vt))
                    for (kp, kt), (vp, vt) in sorted(rt.items()))


def coq_strs(l):
    return coq_list(coq_bytes(x) for x in l)


def coq_cfg(c, env=False):
    if c is None:
        return "empty_cfg"
    ptr = coq_list("(%s, %s)" % (PTR_KEYS[k][0], coq_scalar(v)) for k, v in c["ptr"].items())
    td = c["td"] or {}
    if env:
        # keys of environment variables are lower-cased by the provider; values are strings or bools
        td = json.loads(json.dumps(td))
    return "{| c_ptr := ptr_of %s; c_td := %s; c_rt := %s; c_esr := %s |}" % (
        ptr, coq_obj(td), coq_rt(c["rt"] or {}), coq_opt(c["esr"], coq_strs))


def coq_pkgs(case):
    out = []
    for path, pk in case["pkgs"].items():
        pk = pk or {"config": None, "interfaces": None}
        ifs = []
        for name, ic in (pk["interfaces"] or {}).items():
            ic = ic or {"config": None, "configs": None}
            ifs.append("(%s, {| ic_config := %s; ic_configs := %s |})" % (
                coq_bytes(name), coq_cfg(ic["config"]), coq_list(coq_cfg(c) for c in (ic["configs"] or []))))
        out.append("(%s, {| pc_config := %s; pc_ifaces := %s |})" % (coq_bytes(path), coq_cfg(pk["config"]), coq_list(ifs)))
    return coq_list(out)


def yaml_cfg_to_abs(d):
    """A config as printed by showconfig -> abstract cfg (absolute package paths kept)."""
    c = {"ptr": {}, "td": d.get("template-data") or {}, "rt": {}, "esr": d.get("exclude-subpkg-regex") or None}
    for k in PTR_KEYS:
        if k in d and d[k] is not None:
            c["ptr"][k] = d[k]
    for kp, inner in (d.get("replace-type") or {}).items():
        for kt, v in (inner or {}).items():
            if v is not None:
                c["rt"][(kp, kt)] = (v.get("pkg-path", ""), v.get("type-name", ""))
    return c


def coq_cfg_obs(c):
    ptr = coq_list("(%s, %s)" % (PTR_KEYS[k][0], coq_scalar(v)) for k, v in c["ptr"].items())
    rt = coq_list("((%s, %s), (%s, %s))" % tuple(coq_bytes(x) for x in (kp, kt, vp, vt)) for (kp, kt), (vp, vt) in sorted(c["rt"].items()))
    return "{| c_ptr := ptr_of %s; c_td := %s; c_rt := %s; c_esr := %s |}" % (ptr, coq_obj(c["td"]), rt, coq_opt(c["esr"], coq_strs))


def coq_show(show):
    if show is None:
        return "None"
    pk = []
    for path, p in (show.get("packages") or {}).items():
        ifs = []
        for name, ic in ((p or {}).get("interfaces") or {}).items():
            ifs.append("(%s, {| ic_config := %s; ic_configs := %s |})" % (
                coq_bytes(name), coq_cfg_obs(yaml_cfg_to_abs(ic.get("config") or {})),
                coq_list(coq_cfg_obs(yaml_cfg_to_abs(c or {})) for c in (ic.get("configs") or []))))
        pk.append("(%s, {| pc_config := %s; pc_ifaces := %s |})" % (coq_bytes(path), coq_cfg_obs(yaml_cfg_to_abs((p or {}).get("config") or {})), coq_list(ifs)))
    return "(Some {| t_root := %s; t_pkgs := %s |})" % (coq_cfg_obs(yaml_cfg_to_abs(show.get("Config") or {})), coq_list(pk))


def coq_gen(case, base, obs):
    if obs["rc"] != 0:
        return "(Some GErr)"
    fs = []
    for path, f in sorted(obs["files"].items()):
        if f.get("old"):
            continue
        ios = []
        for io in f["ifaces"]:
            rt, _ = iface_rt(io["sigs"])
            ios.append("{| io_name := %s; io_struct := %s; io_td := %s; io_rt := %s |}" % (
                coq_bytes(io["name"]), coq_bytes(io["struct"]), coq_obj(io["td"]), coq_rt(rt)))
        tmpl = "matryer" if f["probe"] == "matryer" else probe_url(base, f["probe"])
        fs.append("{| fo_path := %s; fo_pkgname := %s; fo_template := %s; fo_formatter := %s; fo_td := %s; fo_ifaces := %s |}" % (
            coq_bytes(path), coq_bytes(f["pkgname"] or ""), coq_bytes(tmpl), coq_bytes(f["formatter"]), coq_obj(f["td"] or {}), coq_list(ios)))
    return "(Some (GOk %s))" % coq_list(fs)


def case_term(case, base, obs):
    ex = []
    templated = {"{{.InterfaceDir}}", "{{.Mock}}{{.InterfaceName}}", "{{.SrcPackageName}}"}
    for lv, c in all_levels(case):
        for k in ("dir", "filename", "structname", "pkgname", "template-schema"):
            v = c["ptr"].get(k)
            if isinstance(v, str) and "{{" in v and v != "{{.Template}}.schema.json":
                templated.add(v)
    for rel, ifaces in SRC.items():
        ex.append("(%s, %s)" % (coq_bytes(MOD + "/" + rel), coq_list(
            "(%s, %s)" % (coq_bytes(n), coq_list("(%s, %s)" % (coq_bytes(t), coq_bytes(subst_defaults(t, rel, n))) for t in sorted(templated)))
            for n in ifaces)))
    names = sorted({n for l in SRC.values() for n in l})
    pats = sorted({x for lv, c in all_levels(case) for x in (c["esr"] or [])})
    paths = [MOD + "/" + rel for rel in SRC]
    rx = coq_list(["(%s, %s)" % (coq_bytes(rgx), coq_strs([n for n in names if re.search(rgx, n)])) for rgx in REGEXES] +
                  ["(%s, %s)" % (coq_bytes(rgx), coq_strs([x for x in paths if re.search(rgx, x)])) for rgx in pats])
    flags = {"ptr": dict(case["flags"]), "td": None, "rt": None, "esr": None}
    tdk = "None" if case["tdkeys"] is None else "(Some (%s, %s))" % (coq_strs(case["tdkeys"][0]), coq_strs(case["tdkeys"][1]))
    return ("{| k_env := %s; k_file := %s; k_flags := %s; k_pkgs := %s; k_disc := %s; k_src := %s; k_rx := %s; "
            "k_existing := %s; k_schemas := %s; k_templates := %s; k_expand := %s; k_sigkeys := %s; k_tdkeys := %s; k_show := %s; k_gen := %s |}") % (
        coq_cfg(case["env"], env=True), coq_cfg(case["file"]), coq_cfg(flags), coq_pkgs(case),
        coq_list("(%s, %s)" % (coq_bytes(MOD + "/" + p), coq_strs([MOD + "/" + s for s in subs])) for p, subs in SUBS.items()),
        coq_list("(%s, %s)" % (coq_bytes(MOD + "/" + rel), coq_strs(ifs)) for rel, ifs in SRC.items()),
        rx, coq_strs(case["existing"]),
        coq_list("(%s, %s)" % (coq_bytes(u), coq_opt(rej, coq_strs)) for u, rej in sorted(case["schemas"].items())),
        coq_strs([probe_url(base, i) for i in range(NPROBE)] + ["matryer", "testify"]),
        coq_list(ex),
        coq_list("(%s, %s)" % (coq_bytes(MOD + "/" + p), coq_bytes(t)) for p, t in SIGKEYS),
        tdk, coq_show(obs.get("show")), coq_gen(case, base, obs))


# ------------------------------------------------------------------ known witnesses (fixed defects; for the replay text)
def describe(case, obs=None):
    d = {"stream": case["stream"], "config_file": yaml.safe_load(config_yaml(case)), "env": env_vars(case),
         "flags": case["flags"], "pre_existing_files": case["existing"],
         "module": "packages %s, every interface has the method %s" % (sorted(SRC), SIG)}
    if obs is not None:
        d["observed"] = {"rc": obs["rc"], "files": obs["files"], "stderr_tail": obs["stderr_tail"][-400:],
                         "showconfig_root": (obs.get("show") or {}).get("Config")}
    return d


def shrink(ctx, base, case, fails):
    """Greedy deletion of settings / levels that keeps the failure."""
    cur = copy.deepcopy(case)

    def candidates(c):
        for path in list(c["pkgs"]):
            if len(c["pkgs"]) > 1:
                yield ("pkg", path)
        for lv, cfg in all_levels(c):
            for k in list(cfg["ptr"]):
                if not (lv == "file" and k == "template"):
                    yield ("ptr", lv, k)
            if cfg["td"] is not None:
                yield ("td", lv)
            if cfg["rt"] is not None:
                yield ("rt", lv)
            if cfg["esr"] is not None:
                yield ("esr", lv)
        if c["flags"]:
            yield ("flags",)

    def apply(c, cand):
        c = copy.deepcopy(c)
        if cand[0] == "pkg":
            del c["pkgs"][cand[1]]
        elif cand[0] == "flags":
            c["flags"] = {}
        else:
            for lv, cfg in all_levels(c):
                if lv == cand[1]:
                    if cand[0] == "ptr":
                        cfg["ptr"].pop(cand[2], None)
                    elif cand[0] == "td":
                        cfg["td"] = None
                    elif cand[0] == "esr":
                        cfg["esr"] = None
                    else:
                        cfg["rt"] = None
        return c

    budget = 150
    pos = 0
    while budget > 0:
        cands = list(candidates(cur))
        if pos >= len(cands):
            break
        nxt = apply(cur, cands[pos])
        budget -= 1
        try:
            o = run_case(ctx, base, nxt, "shrink")
            ok = fails(nxt, o)
        except Exception:       # noqa
            ok = False
        if ok:
            cur = nxt           # the candidate list shifts left: same position again
        else:
            pos += 1
    return cur


# ------------------------------------------------------------------ the check
STREAMS_QUICK = [("main", 85), ("templated", 22), ("share", 26), ("conflict", 8), ("malformed", 12), ("schema", 20), ("force", 16), ("leak", 20), ("builtin", 20)]


def schema_per_template_ok(exp):
    """All mocks rendered by one template name the same schema (the remote template cache is
    keyed by the template alone: C12's finding, kept out of this generator)."""
    seen = {}
    for m in exp["mocks"]:
        if seen.setdefault(m["template"], m["template-schema"]) != m["template-schema"]:
            return False
    return True


def gen_malformed(rng, base):
    """A valid tree with one thing wrong; the run must fail."""
    c = gen_valid(rng, base, "main")
    c["stream"] = "malformed"
    kind = rng.choice(["formatter", "template", "template-file", "interface"])
    if kind == "interface":
        path = rng.choice(sorted(c["pkgs"]))
        pk = c["pkgs"][path] or {"config": None, "interfaces": None}
        pk["interfaces"] = pk["interfaces"] or {}
        pk["interfaces"]["Zz"] = rng.choice([None, {"config": new_cfg(), "configs": None}])
        c["pkgs"][path] = pk
    else:
        key = "formatter" if kind == "formatter" else "template"
        val = {"formatter": "gofumpt", "template": "mockery", "template-file": "file://%s/probes/nosuch.templ" % base}[kind]
        low = [cfg for lv, cfg in all_levels(c) if lv.startswith(("if:", "cf:"))]
        if kind == "formatter" and low and rng.random() < 0.5:
            rng.choice(low)["ptr"]["formatter"] = val      # on one interface / configs entry only
            if expected(c)["kind"] == "ok" and all(file_outcome(c, ms) for ms in expected(c)["files"].values()):
                c["file"]["ptr"][key] = val                 # that level produces no mock: make it global
        else:
            for lv, cfg in all_levels(c):
                cfg["ptr"].pop(key, None)
            c["file"]["ptr"][key] = val
    c["malformed"] = kind
    return c


def gen_valid(rng, base, stream):
    """Mostly valid inputs: main streams reject trees whose mocks collide in one file."""
    if stream == "malformed":
        return gen_malformed(rng, base)
    for _ in range(30):
        s = "main" if stream == "conflict" else stream
        c = gen_case(rng, base, s)
        c["stream"] = stream
        e = expected(c)
        if stream == "conflict":
            if e["kind"] == "err":
                return finish_case(c, base, rng)
        elif e["kind"] == "ok" and e["mocks"]:
            return finish_case(c, base, rng)
    c["stream"] = "fallback"
    for lv, cfg in all_levels(c):
        cfg["ptr"].pop("template-schema", None)
    return finish_case(c, base, rng)


def corpus(base):
    f = VERIF / "corpus" / "C08" / "cases.json"
    if not f.exists():
        return []
    return [load_case(c, base) for c in json.loads(f.read_text())]


def dump_case(case, base):
    """JSON-able form of a case (tuples as lists, scratch paths as @BASE@)."""
    def cfg(c):
        if c is None:
            return None
        return {"ptr": c["ptr"], "td": c["td"], "esr": c["esr"], "rt_empty": bool(c.get("rt_empty")),
                "rt": None if c["rt"] is None else [[list(k), list(v)] for k, v in c["rt"].items()]}
    d = {"stream": case["stream"], "env": cfg(case["env"]), "file": cfg(case["file"]), "flags": case["flags"],
         "existing": case["existing"], "schemas": case["schemas"], "tdkeys": case["tdkeys"], "levels": case["levels"], "pkgs": {}}
    for path, pk in case["pkgs"].items():
        if pk is None:
            d["pkgs"][path] = None
            continue
        e = {"config": cfg(pk["config"]), "interfaces": None}
        if pk["interfaces"] is not None:
            e["interfaces"] = {}
            for n, ic in pk["interfaces"].items():
                e["interfaces"][n] = None if ic is None else {"config": cfg(ic["config"]),
                                                              "configs": None if ic["configs"] is None else [cfg(c) for c in ic["configs"]]}
        d["pkgs"][path] = e
    return json.loads(json.dumps(d).replace(str(base), "@BASE@"))


def load_case(d, base):
    d = json.loads(json.dumps(d).replace("@BASE@", str(base)))

    def cfg(c):
        if c is None:
            return None
        return {"ptr": c["ptr"], "td": c["td"], "esr": c["esr"], "rt_empty": bool(c.get("rt_empty")),
                "rt": None if c["rt"] is None else {tuple(k): tuple(v) for k, v in c["rt"]}}
    case = {"stream": d["stream"], "env": cfg(d["env"]), "file": cfg(d["file"]), "flags": d["flags"], "existing": d["existing"],
            "schemas": d["schemas"], "tdkeys": None if d["tdkeys"] is None else tuple(d["tdkeys"]), "levels": d["levels"], "pkgs": {}}
    for path, pk in d["pkgs"].items():
        if pk is None:
            case["pkgs"][path] = None
            continue
        e = {"config": cfg(pk["config"]), "interfaces": None}
        if pk["interfaces"] is not None:
            e["interfaces"] = {}
            for n, ic in pk["interfaces"].items():
                e["interfaces"][n] = None if ic is None else {"config": cfg(ic["config"]),
                                                              "configs": None if ic["configs"] is None else [cfg(c) for c in ic["configs"]]}
        case["pkgs"][path] = e
    return case


def check(ctx, only=None):
    gate = proof_gate(ctx)
    if not ctx.build_tree():
        ctx.write_evidence(gate, 0, 0, "build failed", [])
        return
    base = make_fixture(ctx)
    (ctx.scratch / "cases").mkdir()
    if only is not None:
        cases = [load_case(c, base) for c in only]
    else:
        cases = corpus(base)
        mult = 12 if ctx.thorough() else 1
        for stream, n in STREAMS_QUICK:
            cases += [gen_valid(ctx.rng, base, stream) for _ in range(n * mult)]
    t1 = time.time()
    obs = pmap(lambda ic: run_case(ctx, base, ic[1], ic[0]), list(enumerate(cases)))
    t2 = time.time()
    fails = {}
    for i, (c, o) in enumerate(zip(cases, obs)):
        e = oracle(c, o)
        if e:
            fails[i] = e
    terms = [case_term(c, base, o) for c, o in zip(cases, obs)]
    bad, cerrs = sharded_mismatches(ctx, terms, shard=16)
    t3 = time.time()
    # ---- classification: one violation per failure class, shrunk within the class
    by_class = {}
    for i in sorted(fails):
        for cls, msg in fails[i]:
            by_class.setdefault(cls, i)
    # a leak also shows as a per-mock difference; report the specific class first
    order = sorted(by_class, key=lambda c: (c != "leak", c))
    done_cases = set()
    for cls in order[:10]:
        i = by_class[cls]

        def fails_cls(cc, oo, cls=cls):
            return any(c == cls for c, _ in oracle(cc, oo))
        small = shrink(ctx, base, cases[i], fails_cls)
        so = run_case(ctx, base, small, "final")
        what = [m for c, m in oracle(small, so) if c == cls] or [m for c, m in fails[i] if c == cls]
        rp = ctx.write_replay("oracle-%s" % re.sub(r"[^a-z]+", "-", cls), {
            "what": what[:4], "failure_class": cls, "cases_failing_in_this_class": sum(1 for j in fails if any(c == cls for c, _ in fails[j])),
            "case": dump_case(small, base), "readable": describe(small, so)})
        ctx.violation(rp)
    if not gate["ok"] and not fails:
        ctx.violation(gate["replay"], nofail=True)
    if (bad or cerrs) and not fails:
        detail = []
        for i in bad[:3]:
            def fails_model(cc, oo):
                b2, e2 = sharded_mismatches(ctx, [case_term(cc, base, oo)], tag="one")
                return bool(b2 or e2)
            small = shrink(ctx, base, cases[i], fails_model)
            so = run_case(ctx, base, small, "final")
            t = case_term(small, base, so)
            detail.append({"case": dump_case(small, base), "readable": describe(small, so),
                           "which_half": coq_show_term(ctx, "diagnose (%s)" % t, "diag"),
                           "model_generation": coq_show_term(ctx, "model_gen (%s)" % t, "mgen")[:6000]})
        rp = ctx.write_replay("correspondence", {
            "what": "model Cfg/Config.v and the implementation disagree; the oracle found no failing configuration among %d" % len(cases),
            "obligation": "correspondence Harness/C08.v check_case (showconfig tree after one Initialize; per file and per mock observables of a run)",
            "mismatching_cases": len(bad), "coq_errors": cerrs[:3], "examples": detail})
        ctx.violation(rp, nofail=True)
    print("C08: cases=%d oracle_failures=%d model_mismatches=%d coq_errors=%d (gate+gen %.0fs, runs %.0fs, coq %.0fs)" % (len(cases), len(fails), len(bad), len(cerrs), t1 - ctx.t0, t2 - t1, t3 - t2), flush=True)
    if os.environ.get("VERIF_DEBUG"):
        for i in sorted(fails)[:10]:
            print("  oracle", i, cases[i]["stream"], fails[i][0][0], fails[i][0][1][:300])
        print("  mismatching", bad[:40], [cases[i]["stream"] for i in bad[:40]], cerrs[:2])
    # ---- evidence
    hist = {"stream": {}, "level_subset_sizes": {}, "param_at_level": {}, "outcome": {}}
    nontrivial = set()
    for c, o in zip(cases, obs):
        hist["stream"][c["stream"]] = hist["stream"].get(c["stream"], 0) + 1
        hist["outcome"]["ok" if o["rc"] == 0 else "error"] = hist["outcome"].get("ok" if o["rc"] == 0 else "error", 0) + 1
        per_param = {}
        for lv, cfg in all_levels(c):
            kind = lv.split(":")[0]
            keys = list(cfg["ptr"]) + (["template-data"] if cfg["td"] is not None else []) + (["replace-type"] if cfg["rt"] is not None else []) + \
                   ([("exclude-subpkg-regex=[]" if cfg["esr"] == [] else "exclude-subpkg-regex")] if cfg["esr"] is not None else [])
            for k in keys:
                hist["param_at_level"]["%s@%s" % (k, kind)] = hist["param_at_level"].get("%s@%s" % (k, kind), 0) + 1
                per_param[k] = per_param.get(k, 0) + 1
        for k, n in per_param.items():
            hist["level_subset_sizes"][str(n)] = hist["level_subset_sizes"].get(str(n), 0) + 1
        if any(n >= 2 for n in per_param.values()) and o["rc"] == 0 and o["files"]:
            nontrivial.add(json.dumps(dump_case(c, base), sort_keys=True))
    ctx.write_evidence(gate, 2 * len(cases), len(nontrivial),
                       "seeded configuration trees over a 4-package module; one evaluation = one showconfig or one generation run compared with the model and the oracle; non-trivial = at least one parameter set at two or more levels of the tree and at least one file generated; distinct by the whole abstract tree",
                       [describe(c) for c in cases[:2]],
                       extra={"input_histogram": hist, "model_mismatches": len(bad), "oracle_failures": len(fails),
                              "mocks_observed": sum(len(f.get("ifaces", [])) for o in obs for f in o["files"].values())},
                       assumptions=["go/packages loading, text/template, YAML decoding, koanf and the formatters are exercised, not modelled",
                                    "the probe templates print template-data with a recursive text/template definition; values are strings, integers, booleans, null, lists, maps"])


def coq_show_term(ctx, term, name):
    rc, out, err = coq_eval(ctx, name, "From Mk Require Import Lib.Bytes %s.\n%s" % (HARNESS, intern_defs()), "",
                            "Definition R := Eval vm_compute in (%s).\nPrint R." % term)
    return " ".join(out.split()) if rc == 0 else "coqc failed: " + err[-1500:]


def replay(ctx, path):
    d = json.loads(open(path).read())
    cs = [d["case"]] if "case" in d else [e["case"] for e in d.get("examples", [])]
    check(ctx, only=cs)
