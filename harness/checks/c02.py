"""C02 - the generated mock type implements exactly the source interface.

Inputs: Go modules from harness/gen_pkgs.py with its optional embedding shapes (chains of
local interfaces up to depth 4, generic chains, aliases of interfaces, types defined from
interfaces, diamonds, embedded interface literals, `error`, explicit+embedded overlap, a
foreign chain ext3.Top -> ext2.Deep -> ext.Chain -> ext.Handler, stdlib interfaces up to
hash.Hash32 -> hash.Hash -> io.Writer, variadic methods whose element type starts with a
bracket).  Implementation: the REAL mockery built from the working tree, ONE run per module
rendering every interface with both built-in templates in two placements (in-package
_test.go file / separate package), plus further `configs` entries for the grouping clause.

ORACLE (independent of the model): for every mock an assertion
    var _ src.I = (*Mock)(nil)
    func _[T C]() { var _ src.I[T] = (*Mock[T])(nil) }   and 2-3 concrete instantiations
is written into the destination package and type-checked with go build / go test -run '^$';
go/parser (harness/go/mockcount) counts the mock struct types per output file.
CORRESPONDENCE: the methods that each generated mock type declares (go/parser: name, number of
parameters, variadic, number of results) are compared inside Coq with the SPECIFICATION
method_set (coq/Gen/MethodSet.v) evaluated on the declarations of the module, pushed through
the data model of Gen/Render.v and the template's method list; the per-file list of mock
types is compared with the grouping model.
"""
import json, re
from common import *
import gen_pkgs
from gen_pkgs import MOD, basic, named
from checks import c14            # Gallina printers for the gen_pkgs AST (ty_term, sig_term, ...) and the capture-class predicate

COQ_MODS = "Gen.Alloc Gen.Types Gen.Render Gen.MethodSet Harness.C02"
TEMPLATES = ("testify", "matryer")
PLACEMENTS = ("in", "xt", "out")      # in-package _test.go file / same-directory external test package <src>_test / separate package
PREFIX = {"testify": "Tf", "matryer": "Mt"}
FILES = {("testify", "in"): "zz_mocks_tf_test.go", ("matryer", "in"): "zz_mocks_mt_test.go",
         ("testify", "xt"): "zz_mocks_tf_x_test.go", ("matryer", "xt"): "zz_mocks_mt_x_test.go",
         ("testify", "out"): "mocks_tf.go", ("matryer", "out"): "mocks_mt.go"}
ASSERT_FILE = {"in": "zz_c02_assert_test.go", "xt": "zz_c02_assert_x_test.go", "out": "zz_c02_assert.go"}
SHADOW_FILE = "zz_c02_shadow_x_test.go"
# Types of the external test package with the SAME NAMES as the source package's types that signatures
# mention: a mock that loses the qualifier (`Local` instead of `src.Local`) still compiles against these
# and is then not assignable to the interface.
SHADOW_SRC = """// Code written by the C02 check; not part of mockery's output.
package %s_test

type Local struct{ Shadow string }
type Key struct{ Shadow int }
type LocalIface interface{ ShadowMethod() }
type Pair[K comparable, V any] struct {
	Shadow K
	Other  V
}
type Gen[T any] interface{ ShadowGen() T }
type AliasC = struct{ Shadow bool }
type Fn func()
type Num interface{ ~int8 }
"""
FUEL = 12


def r9_classes():
    """Debugging aid only: C02_WITHOUT_R9_CLASSES=1 leaves out the two input classes whose defects were repaired in
    /repo by 0c5d383 (fixes/c02-blank-type-params.diff: colliding blank type parameters) and 9b70000
    (fixes/c02-inpackage-relative-dot.diff: `dir: .` for the package at the module root), e.g. to run the rest of the
    check against a tree from before those commits.  The registered commands never set it: by default everything is
    included and the model describes the repaired behaviour."""
    return os.environ.get("C02_WITHOUT_R9_CLASSES", "0") != "1"

# ---- names that the templates themselves use (C01's known-finding classes); parameters are renamed away from them
TABOO = {"_mock", "_e", "_c", "_m", "tmpRet", "_va", "_i", "_ca", "len", "make", "append", "panic", "nil", "mock", "callInfo"}
TESTIFY_MEMBERS = {"EXPECT", "Mock", "On", "Called", "MethodCalled", "Test", "TestData", "AssertExpectations", "AssertCalled",
                   "AssertNotCalled", "AssertNumberOfCalls", "IsMethodCallable", "ExpectedCalls", "Calls"}


# --------------------------------------------------------------------------------------
# generation
# --------------------------------------------------------------------------------------
def sanitize_sig(sig, counter):
    """Parameter names are irrelevant to C02 (assignability ignores them): keep the main stream
    outside C01's and C14's known-finding classes (names the templates use themselves, two
    parameters with one exported spelling, a name capturing a type used in the same signature)."""
    used = set()
    for grp in ("params", "results"):
        ps = sig[grp]
        if any(p["n"] == "" for p in ps):
            for p in ps:
                p["n"] = ""
            continue
        for p in ps:
            n = p["n"]
            if n == "_" or n in TABOO or re.fullmatch(r"r\d+", n) or n.lower() in used:
                counter[0] += 1
                n = (n.strip("_") or "u") + "Z"
                while n.lower() in used or n in TABOO:
                    n += "Z"
            used.add(n.lower())
            p["n"] = n
    bad = set(c14.capture_class(sig))
    for p in sig["params"] + sig["results"]:
        if p["n"] in bad:
            counter[0] += 1
            n = p["n"] + "Q"
            while n.lower() in used:
                n += "Q"
            used.add(n.lower())
            p["n"] = n


def gen_src(rng, k, counter):
    """One source package: a gen_pkgs module (default pools) with the embedding shapes."""
    ext = [e for e in gen_pkgs.EXT if e["name"] != "mock"]      # a package NAMED mock is C01's finding with the testify template
    # DenseGen: types that mention one package several times through nested generic instantiations
    # (map[box.Key]box.Box[unit.Meters]): the "identical parameter types" clause needs every package of
    # such a type imported and qualified.  name_tuples=0: parameter names are C01/C14's subject.
    g = gen_pkgs.DenseGen(rng, dense=0.2, name_tuples=0.0, ext=ext, std=gen_pkgs.STD + gen_pkgs.C02_STD)
    # a small share of initialism-like method names (Id, Url, ...) among the ordinary ones
    mnames = ["Do", "Get", "Put", "Close", "List", "Watch", "Apply", "Len", "String", "Each", "unexp"] + rng.sample(INITIALISM_NAMES, 2)
    m = g.module(src_name="src%d" % k, method_names=mnames)
    gen_pkgs.embedding_shapes(g, m, depth=4, n_random=rng.randint(3, 5))
    counter[1] += g.stats["dense"]
    for i in m["ifaces"]:
        for mm in i["methods"]:
            sanitize_sig(mm["sig"], counter)
    for d in m["extra_decls"]:
        if d["pkg"] == "":
            for mm in d.get("methods", []):
                sanitize_sig(mm["sig"], counter)
    return m


RT_MARK = "Rtx"      # struct names of mocks that are configured WITH a replace-type: <prefix>Rtx<interface>


def is_rt(sname):
    return sname[2:].startswith(RT_MARK)


def gen_rt_src(rng, name="src80"):
    """A small source package for the interaction of replace-type with the other mocks of an output file:
    in every output file an EARLIER mock (earlier configs entry or earlier declaration; setting on the configs
    entry or on the interface) replaces a named type that LATER mocks without the setting use as well, directly
    and through embedded interfaces.  Mocks with the setting intentionally differ from their interface and are
    not asserted; all the others must stay assignable."""
    ext = [e for e in gen_pkgs.EXT if e["name"] != "mock"]
    a, b = ext[0]["path"], ext[1]["path"]
    tn = rng.choice(["Key", "Client"])
    K = named(a, tn)
    P, S = gen_pkgs._P, gen_pkgs._S
    err = basic("error")
    T = {"k": "tparam", "n": "T"}

    def I(n, methods, embeds=(), tparams=()):
        return {"name": n, "tparams": list(tparams), "methods": methods, "embeds": list(embeds), "exported": True}
    ifaces = [
        I("RtA", [{"n": "Get", "sig": S([P("k", K), P("n", basic("int"))], [P("", K), P("", err)])},
                  {"n": "PutAll", "sig": S([P("ks", {"k": "slice", "e": K})], [], True)}]),
        I("RtB", [{"n": "Own", "sig": S([P("k", K)], [P("", basic("bool"))])}], [named("", "RtA")]),
        I("RtC", [{"n": "Mid", "sig": S([P("c", K), P("o", named(a, "Opt"))], [P("", err)])}]),
        I("RtD", [{"n": "D1", "sig": S([], [P("", K)])}], [named("", "RtC"), named("io", "Closer")]),
        I("RtE", [{"n": "Each", "sig": S([P("f", {"k": "func", "sig": S([P("", K)], [P("", basic("bool"))])}), P("first", K)], [])}]),
        I("RtF", [{"n": "Last", "sig": S([], [P("", K), P("", basic("bool"))])}], [named("", "RtE"), {"k": "alias", "pkg": "", "n": "RtAl", "targs": []}]),
        I("RtG", [{"n": "GetT", "sig": S([P("k", K), P("v", T)], [P("", T), P("", K)])}], tparams=[{"n": "T", "c": basic("any"), "cmp": False}]),
    ]
    plan_ = {"RtA": ["R", "P"], "RtB": ["P"], "RtC": ["P", "R", "P2"], "RtD": ["P"], "RtE": "IFACE", "RtF": ["P"], "RtG": ["R", "P"]}
    if rng.random() < 0.5:
        plan_["RtA"] = "IFACE"        # the setting on the interface instead of the configs entry
        plan_["RtE"] = ["R"]
    return {"mod": MOD, "src": {"path": MOD + "/" + name, "name": name}, "ifaces": ifaces, "ext": ext,
            "std": gen_pkgs.STD + gen_pkgs.C02_STD, "nonascii": False, "_shadow": True,
            "extra_decls": list(gen_pkgs.foreign_extra_decls(ext)) + [{"pkg": "", "kind": "alias", "name": "RtAl", "target": named("", "RtC")}],
            "_rt": {"map": {a: {tn: {"pkg-path": b, "type-name": tn}}}, "plan": plan_}}


def gen_blank_src(rng, name="src81"):
    """Generic interfaces with BLANK type parameters: the mock has to invent a name for `_` wherever it
    spells its own instantiation.  The last five shapes are inside the class repaired in /repo by 0c5d383
    (fixes/c02-blank-type-params.diff (two blanks with one constraint; a generated name that prints like a
    declared parameter or like the constraint itself))."""
    ext = [e for e in gen_pkgs.EXT if e["name"] != "mock"]
    a = ext[0]["path"]
    P, S = gen_pkgs._P, gen_pkgs._S
    anyc, cmpc = basic("any"), {"k": "named", "pkg": None, "n": "comparable", "targs": []}
    T, K, V = ({"k": "tparam", "n": n} for n in "TKV")
    tp = lambda n, c, cmp_=False: {"n": n, "c": c, "cmp": cmp_}
    err = basic("error")

    def I(n, tps, methods, embeds=()):
        return {"name": n, "tparams": tps, "methods": methods, "embeds": list(embeds), "exported": True}
    ifaces = [
        I("BlBox", [tp("_", anyc), tp("T", anyc)], [{"n": "Get", "sig": S([], [P("", T)])}, {"n": "Set", "sig": S([P("v", T), P("l", named("", "Local"))], [P("", err)])}]),
        I("BlPair", [tp("_", cmpc, True), tp("_", anyc)], [{"n": "Len", "sig": S([], [P("", basic("int"))])}]),
        I("BlFn", [tp("_", anyc)], [{"n": "Call", "sig": S([P("n", basic("int")), P("ks", {"k": "slice", "e": named("", "Key")})], [P("", basic("string"))], True)}]),
        I("BlCmp", [tp("_", cmpc, True), tp("T", rng.choice([anyc, named("", "Num"), named(a, "Num")]))], [{"n": "Eq", "sig": S([P("x", T), P("y", T)], [P("", basic("bool"))])}]),
        I("BlRd", [tp("_", named("io", "Reader")), tp("K", cmpc, True)], [{"n": "Idx", "sig": S([P("m", {"k": "map", "key": K, "e": named("", "Local")})], [P("", {"k": "slice", "e": K})])}]),
        I("BlEmb", [tp("_", anyc), tp("T", anyc)], [{"n": "Extra", "sig": S([], [])}], [named("", "BlBox", [basic("int"), T]), named("", "BlFn", [{"k": "slice", "e": T}])]),
    ]
    if r9_classes():
        ifaces += [
            I("BlTwo", [tp("_", anyc), tp("_", anyc)], [{"n": "Len", "sig": S([], [P("", basic("int"))])}]),
            I("BlMix", [tp("K", cmpc, True), tp("_", anyc), tp("V", anyc)], [{"n": "At", "sig": S([P("k", K)], [P("", V), P("", basic("bool"))])}]),
            I("BlThree", [tp("_", anyc), tp("_", cmpc, True), tp("_", anyc)], [{"n": "Nop", "sig": S([], [])}]),
            I("BlNum", [tp("_", named("", "Num"))], [{"n": "M", "sig": S([P("l", {"k": "ptr", "e": named("", "Local")})], [])}]),
            I("BlNumV", [tp("V", named("", "Num")), tp("_", named("", "Num")), tp("_", anyc)], [{"n": "M", "sig": S([P("v", V)], [P("", V)])}]),
        ]
    return {"mod": MOD, "src": {"path": MOD + "/" + name, "name": name}, "ifaces": ifaces, "ext": ext,
            "std": gen_pkgs.STD + gen_pkgs.C02_STD, "nonascii": False, "_shadow": False,
            "extra_decls": list(gen_pkgs.foreign_extra_decls(ext))}


# exported method names that a golint-style name converter (template_funcs.Exported) would REWRITE: whole-name
# initialisms in mixed case, names starting with one; all-caps spellings as controls
INITIALISM_NAMES = ["Id", "Url", "Json", "Api", "Uuid", "Http", "Ip", "Html", "Sql", "Xml", "Uri", "Eof", "Ttl", "Uid", "Acl", "Cpu",
                    "IdOf", "UrlFor", "JsonBody", "ID", "URL", "JSON"]


def gen_initialism_src(rng, name="src82"):
    """Interfaces whose exported method names are initialisms not written in capitals (Id, Url, Json, ...): declared
    directly, promoted from embedded interfaces (local, alias, depth 2), in generic interfaces.  They are exported
    methods like any other: every mock, out-of-package ones included, must have each of them exactly once."""
    ext = [e for e in gen_pkgs.EXT if e["name"] != "mock"]
    P, S = gen_pkgs._P, gen_pkgs._S
    T = {"k": "tparam", "n": "T"}
    K = named("", "Key")
    err = basic("error")
    sigs = [lambda: S([], [P("", basic("int"))]), lambda: S([], [P("", basic("string"))]), lambda: S([P("id", basic("int"))], [P("", K), P("", err)]),
            lambda: S([P("url", basic("string")), P("ids", {"k": "slice", "e": basic("int")})], [], True), lambda: S([P("", K)], [P("", named("", "Local"))]),
            lambda: S([], [])]

    def I(n, methods, embeds=(), tparams=()):
        return {"name": n, "tparams": list(tparams), "methods": methods, "embeds": list(embeds), "exported": True}
    names = list(INITIALISM_NAMES)
    rng.shuffle(names)
    base = names[:4] + [x for x in ("Id", "Url") if x not in names[:4]]
    ifaces = [
        I("InitBase", [{"n": n, "sig": rng.choice(sigs)()} for n in base]),
        I("InitAll", [{"n": n, "sig": rng.choice(sigs)()} for n in INITIALISM_NAMES]),
        I("InitEmb", [{"n": "Extra", "sig": S([], [])}, {"n": "Name", "sig": S([], [P("", basic("string"))])}], [named("", "InitBase")]),
        I("InitDeep", [{"n": [x for x in names if x not in base][0], "sig": rng.choice(sigs)()}], [{"k": "alias", "pkg": "", "n": "InitAl", "targs": []}, named("fmt", "Stringer")]),
        I("InitGen", [{"n": "Id", "sig": S([], [P("", T)])}, {"n": "Url", "sig": S([P("v", T)], [P("", basic("string"))])},
                      {"n": "Api", "sig": S([P("vs", {"k": "slice", "e": T})], [P("", err)], True)}, {"n": "Get", "sig": S([], [P("", T)])}],
          tparams=[{"n": "T", "c": basic("any"), "cmp": False}]),
        I("InitGenEmb", [{"n": "Json", "sig": S([], [P("", {"k": "slice", "e": basic("byte")})])}],
          [named("", "InitGen", [{"k": "tparam", "n": "K"}]), named("fmt", "Stringer")], tparams=[{"n": "K", "c": {"k": "named", "pkg": None, "n": "comparable", "targs": []}, "cmp": True}]),
    ]
    return {"mod": MOD, "src": {"path": MOD + "/" + name, "name": name}, "ifaces": ifaces, "ext": ext,
            "std": gen_pkgs.STD + gen_pkgs.C02_STD, "nonascii": False, "_shadow": True,
            "extra_decls": list(gen_pkgs.foreign_extra_decls(ext)) + [{"pkg": "", "kind": "alias", "name": "InitAl", "target": named("", "InitEmb")}]}


def mockable(m):
    """The interfaces of the source package that mockery is asked to mock, in the order in which it
    meets them (src<k>.go before zz_extra.go, declaration order): the generated ones and every
    local extra declaration that is a named interface type (aliases are never mocked)."""
    out = [dict(i, kind="iface") for i in m["ifaces"]]
    for d in m["extra_decls"]:
        if d["pkg"] == "" and d["kind"] in ("iface", "defined"):
            out.append({"name": d["name"], "kind": d["kind"], "tparams": d.get("tparams", []), "methods": d.get("methods", []),
                        "embeds": d.get("embeds", []), "target": d.get("target")})
    return out


def spec_set(m, table, i):
    d = table[("", i["name"])]
    return gen_pkgs.spec_method_set(table, gen_pkgs.self_type(d), "", fuel=FUEL)


def embed_depth(table, t, seen=0):
    """longest embedding path below the interface type t (declarations and literals)"""
    if seen > 20:
        return seen
    k = t["k"]
    if k == "iface":
        return 1 + max([embed_depth(table, e, seen + 1) for e in t["embeds"]] + [0])
    if k in ("named", "alias") and t["pkg"] is not None:
        d = table.get((t["pkg"], t["n"]))
        if d is None:
            return 1
        if d["kind"] in ("alias", "defined"):
            return 1 + embed_depth(table, d["target"], seen + 1)
        return 1 + max([embed_depth(table, e, seen + 1) for e in d["embeds"]] + [0])
    return 1


def classify(m, table, i):
    """-> (nameable from another package?, method-name list, reasons for being outside the guarantee per template)"""
    ms = spec_set(m, table, i)
    names = [x["n"] for x in ms]
    bad = []

    def chk(t):
        k = t["k"]
        if k in ("named", "alias") and t["pkg"] == "" and not t["n"][:1].isupper():
            bad.append(t["n"])
        if k == "struct" and any(not f["n"][:1].isupper() for f in t["fields"]):
            bad.append("field")
        if k == "iface" and any(not x["n"][:1].isupper() for x in t["methods"]):
            bad.append("method")
    for tp in i["tparams"]:
        c14.walk(tp["c"], chk)
    for x in ms:
        if not x["n"][:1].isupper():
            bad.append(x["n"])
        c14.walk_sig(x["sig"], chk)
    nameable = not bad and i["name"][:1].isupper()
    out = {}
    if set(names) & TESTIFY_MEMBERS:
        out["testify"] = "own-api-collision"
    # Python mirror of api_free Matryer wr (Gen/MethodSet.v): the members of the mock type must be pairwise distinct
    for wr in (False, True):
        members = list(names) + ["calls"] + (["ResetCalls"] if wr else [])
        for n in names:
            members += [n + "Calls", n + "Func", "lock" + n] + (["Reset" + n + "Calls"] if wr else [])
        if len(set(members)) != len(members):
            out["matryer-resets" if wr else "matryer"] = "own-api-collision"
    return nameable, ms, out


def plan(rng, mod):
    """Decides, per source package, which mocks are requested: the list of requests in the order in
    which mockery appends them to its collections."""
    for k, m in enumerate(mod["srcs"]):
        table = gen_pkgs.decl_table(m)
        m["_table"] = table
        m["_mock"] = []
        for idx, i in enumerate(mockable(m)):
            nameable, ms, outside = classify(m, table, i)
            i["_ms"], i["_nameable"], i["_outside"] = ms, nameable, outside
            i["_depth"] = embed_depth(table, gen_pkgs.self_type(table[("", i["name"])])) - 1
            entries = []
            r = rng.random()
            if "_rt" in m:
                kinds = m["_rt"]["plan"].get(i["name"], ["P"])
                for t in TEMPLATES:
                    for pl in PLACEMENTS:
                        for kd in (["R"] if kinds == "IFACE" else kinds):
                            entries.append((t, pl, PREFIX[t] + {"R": RT_MARK, "P": "", "P2": "B"}[kd] + i["name"], False))
            elif r < 0.12 and "testify" not in outside:
                i["_plain"] = True          # no `configs` key at all: exactly one mock from the package-level settings
                entries.append(("testify", "in", "Tf" + i["name"], False))
            else:
                for t in TEMPLATES:
                    if t in outside:
                        continue
                    for pl in PLACEMENTS:
                        if pl != "in" and not nameable:
                            continue
                        entries.append((t, pl, PREFIX[t] + i["name"], False))
                # the grouping clause: further entries of the same interface in the same file
                if "testify" not in outside and rng.random() < 0.3:
                    for s in range(rng.randint(1, 2)):
                        entries.append(("testify", "in", "Tf%s%s" % ("BC"[s], i["name"]), False))
                if "matryer" not in outside and "matryer-resets" not in outside and rng.random() < 0.15:
                    entries.append(("matryer", "in", "MtR" + i["name"], True))       # with-resets
            i["_entries"] = entries
            m["_mock"].append(i)


def skip_ensure(i, pl):
    return bool(i["tparams"]) or pl != "in"


def out_dir(root, m, pl):
    return root / m["src"]["name"] if pl != "out" else root / "mocks" / m["src"]["name"]


def config(mod, root):
    pk = {}
    for m in mod["srcs"]:
        ifs = {}
        for i in m["_mock"]:
            if not i["_entries"]:
                continue
            if i.get("_plain"):
                ifs[i["name"]] = {}
                continue
            cfgs = []
            for (t, pl, sname, resets) in i["_entries"]:
                c = {"template": t, "structname": sname, "filename": FILES[(t, pl)]}
                if pl == "in":
                    c["dir"], c["pkgname"] = "{{.InterfaceDir}}", m["src"]["name"]
                elif pl == "xt":
                    c["dir"], c["pkgname"] = "{{.InterfaceDir}}", m["src"]["name"] + "_test"
                else:
                    c["dir"], c["pkgname"] = str(out_dir(root, m, "out")), "mk"
                if is_rt(sname) and m["_rt"]["plan"].get(i["name"]) != "IFACE":
                    c["replace-type"] = m["_rt"]["map"]
                if t == "matryer":
                    td = {}
                    if skip_ensure(i, pl) or is_rt(sname):       # a mock with replace-type intentionally differs from its interface
                        td["skip-ensure"] = True
                    if resets:
                        td["with-resets"] = True
                    if td:
                        c["template-data"] = td
                cfgs.append(c)
            ifs[i["name"]] = {"configs": cfgs}
            if "_rt" in m and m["_rt"]["plan"].get(i["name"]) == "IFACE":
                ifs[i["name"]]["config"] = {"replace-type": m["_rt"]["map"]}
        if ifs:
            pk[m["src"]["path"]] = {"config": {"template": "testify", "structname": "Tf{{.InterfaceName}}", "filename": FILES[("testify", "in")],
                                                "dir": "{{.InterfaceDir}}", "pkgname": m["src"]["name"]},
                                     "interfaces": ifs}
    return {"formatter": "goimports", "force-file-write": True, "log-level": "error", "packages": pk}


def write_module(mod, root):
    for m in mod["srcs"]:
        gen_pkgs.write_module(m, root)
        gen_pkgs.write_extra_decls(m, root)
    run(["cp", str(REPO / "go.sum"), str(root / "go.sum")], check=True)


def mock_env():
    return dict(os.environ, GOPROXY="off", GOFLAGS="-mod=mod")


# --------------------------------------------------------------------------------------
# assertion files (the oracle's input, written from the abstract description only)
# --------------------------------------------------------------------------------------
ANY_POOL = [basic("int"), basic("string"), {"k": "slice", "e": basic("byte")}, {"k": "ptr", "e": named("", "Local")},
            {"k": "map", "key": basic("string"), "e": basic("int")}, basic("error"), {"k": "array", "len": 4, "e": basic("int")},
            {"k": "func", "sig": {"params": [{"n": "", "t": {"k": "slice", "e": basic("int")}}], "variadic": True, "results": [{"n": "", "t": basic("error")}]}},
            {"k": "chan", "dir": "recv", "e": basic("bool")}, named("", "Local"), {"k": "struct", "fields": []}]
CMP_POOL = [basic("int"), basic("string"), named("", "Key"), {"k": "array", "len": 4, "e": basic("int")}, {"k": "ptr", "e": basic("int")},
            basic("float64"), basic("bool")]


def admissible(rng, tparams, helpers):
    """One tuple of type arguments satisfying the constraints (by construction)."""
    out = []
    for tp in tparams:
        c = tp["c"]
        k = c["k"]
        if k == "basic" and c["n"] == "any":
            out.append(rng.choice(ANY_POOL))
        elif k == "named" and c["pkg"] is None:            # comparable
            out.append(rng.choice(CMP_POOL))
        elif k == "named" and c["n"] == "Num":
            out.append(basic(rng.choice(["int", "uint8", "string"] if c["pkg"] == "" else ["int", "int64", "float64"])))
        elif k == "union":
            out.append(rng.choice(c["terms"])["t"])
        elif k == "iface":                                 # interface{ Conv() R } where R may mention earlier parameters
            r = c["methods"][0]["sig"]["results"][0]["t"]
            helpers.append(gen_pkgs.subst_ty(r, dict(zip([x["n"] for x in tparams], out))))
            out.append({"k": "named", "pkg": "#helper", "n": "zzConv%d" % (len(helpers) - 1), "targs": []})
        elif k == "named" and c["pkg"] == "io":
            out.append(rng.choice([named("io", "Reader"), named("io", "ReadWriteCloser"), {"k": "ptr", "e": named("os", "File")}]))
        else:
            raise ValueError("constraint %r" % (c,))
    return out


class AssertRender(gen_pkgs.Render):
    def __init__(self, qual, srcq):
        super().__init__(qual)
        self.srcq = srcq

    def ty(self, t):
        if t["k"] in ("named", "alias") and t["pkg"] == "#helper":
            return t["n"]
        if t["k"] in ("named", "alias") and t["pkg"] == "" and self.srcq:
            base = self.srcq + "." + t["n"]
            if t["targs"]:
                base += "[" + ", ".join(self.ty(a) for a in t["targs"]) + "]"
            return base
        return super().ty(t)


def assertion_file(rng, m, pl):
    """-> (Go source, {line number: (interface name, struct name, kind)})"""
    body, lines, helpers = [], {}, []
    used = set()
    items = []
    for i in m["_mock"]:
        structs = [(t, s) for (t, p, s, _) in i["_entries"] if p == pl and not is_rt(s)]
        if not structs:
            continue
        tuples = []
        if i["tparams"]:
            for tp in i["tparams"]:
                gen_pkgs.collect_pkgs(tp["c"], used)
            for _ in range(rng.randint(2, 3)):
                tu = admissible(rng, i["tparams"], helpers)
                for a in tu:
                    gen_pkgs.collect_pkgs(a, used)
                tuples.append(tu)
        items.append((i, structs, tuples))
        i.setdefault("_tuples", {})[pl] = tuples
    for h in helpers:
        gen_pkgs.collect_pkgs(h, used)
    used.discard("#helper")
    qual, imports = {}, []
    for n, p in enumerate(sorted(used)):
        if p == "":
            continue
        qual[p] = "zq%d" % n
        imports.append('\tzq%d "%s"' % (n, p))
    srcq = ""
    if pl != "in":
        srcq = "zsrc"
        imports.append('\tzsrc "%s"' % m["src"]["path"])
    R = AssertRender(qual, srcq)
    pkgname = {"in": m["src"]["name"], "xt": m["src"]["name"] + "_test", "out": "mk"}[pl]
    head = ["// Code written by the C02 check; not part of mockery's output.", "package %s" % pkgname, ""]
    if imports and items:
        head += ["import ("] + imports + [")", ""]
    out = list(head)

    def emit(text, tag=None):
        out.append(text)
        if tag:
            lines[len(out)] = tag
    sq = srcq + "." if srcq else ""
    for i, structs, tuples in items:
        for (t, s) in structs:
            if not i["tparams"]:
                emit("var _ %s%s = (*%s)(nil)" % (sq, i["name"], s), (i["name"], s, "plain"))
            else:
                nm = [tp["n"] if tp["n"] != "_" else "zzB%d" % k for k, tp in enumerate(i["tparams"])]      # `_` cannot be used as a type
                decl = ", ".join("%s %s" % (n, R.ty(tp["c"])) for n, tp in zip(nm, i["tparams"]))
                inst = ", ".join(nm)
                emit("func _[%s]() { var _ %s%s[%s] = (*%s[%s])(nil) }" % (decl, sq, i["name"], inst, s, inst), (i["name"], s, "generic"))
                for tu in tuples:
                    a = ", ".join(R.ty(x) for x in tu)
                    emit("var _ %s%s[%s] = (*%s[%s])(nil)" % (sq, i["name"], a, s, a), (i["name"], s, "instance [%s]" % a))
    for n, h in enumerate(helpers):
        emit("type zzConv%d struct{}" % n)
        emit("func (zzConv%d) Conv() %s { var z %s; return z }" % (n, R.ty(h), R.ty(h)))
    return "\n".join(out) + "\n", lines


# --------------------------------------------------------------------------------------
# running the implementation, the oracle
# --------------------------------------------------------------------------------------
ERR_RE = re.compile(r"^(?:\./)?((?:mocks/)?src\d+)/([^/\s:]+\.go):(\d+):(\d+):\s*(.*)$")


def go_check(root):
    """-> {(src name, placement): [(file, line, message)]}, raw output"""
    env = mock_env()
    text = ""
    p = run(["go", "build", "-gcflags=-e", "./..."], cwd=root, env=env, timeout=1200)
    text += (p.stdout + p.stderr).decode(errors="replace")
    p = run(["go", "test", "-gcflags=-e", "-count=1", "-run", "^$", "./..."], cwd=root, env=env, timeout=1800)
    text += (p.stdout + p.stderr).decode(errors="replace")
    res = {}
    for line in text.split("\n"):
        mm = ERR_RE.match(line.strip())
        if not mm:
            continue
        d, f, ln, _, msg = mm.groups()
        key = (d.split("/")[-1], "out" if d.startswith("mocks/") else ("xt" if f.endswith("_x_test.go") else "in"))
        msg = re.sub(r'"[^"]*/([^"/]+)"\.', r"\1.", msg)
        e = (f, int(ln), msg)
        if e not in res.setdefault(key, []):
            res[key].append(e)
    return res, text


def process(ctx, mod, root, rng):
    """Everything for one module.  -> dict with the oracle's failures, the observed declarations and the
    requests."""
    write_module(mod, root)
    p0 = run(["go", "build", "./..."], cwd=root, env=mock_env(), timeout=900)
    if p0.returncode != 0:
        raise RuntimeError("harness bug: the generated module does not compile before mockery runs:\n" + (p0.stdout + p0.stderr).decode(errors="replace")[-3000:])
    cf = root / ".mockery_c02.json"
    cf.write_text(json.dumps(config(mod, root), indent=1))
    p = run([ctx.bins["mockery"], "--config", str(cf)], cwd=root, env=mock_env(), timeout=900)
    res = {"rc": p.returncode, "log": (p.stdout + p.stderr).decode(errors="replace")[-3000:], "fails": [], "files": {}, "lines": {}}
    # expected output files
    files = {}
    for m in mod["srcs"]:
        for i in m["_mock"]:
            for (t, pl, s, wr) in i["_entries"]:
                files.setdefault(str(out_dir(root, m, pl) / FILES[(t, pl)]), []).append((m["src"]["name"], i["name"], s, t, pl, wr))
    res["expected_files"] = files
    existing = [f for f in files if os.path.exists(f)]
    if p.returncode != 0:
        # mockery stops at the first output file it cannot produce; the log names it
        mm = re.findall(r"file=(\S+\.go)", res["log"])
        bad = mm[-1] if mm and mm[-1] in files else next((f for f in files if f not in existing), None)
        if bad is not None:
            res["fails"].append({"kind": "mockery-error", "file": bad, "src": files[bad][0][0], "placement": files[bad][0][4], "template": files[bad][0][3],
                                 "iface": None, "candidates": [e[1] for e in files[bad]],
                                 "messages": ["mockery exit %d, no file %s: %s" % (p.returncode, os.path.relpath(bad, root), " ".join(res["log"].split("\n")[-3:])[-700:])]})
    else:
        for f in files:
            if f not in existing:
                res["fails"].append({"kind": "missing-file", "file": f, "src": files[f][0][0], "placement": files[f][0][4], "template": files[f][0][3],
                                     "iface": None, "candidates": [e[1] for e in files[f]],
                                     "messages": ["mockery exited 0 but wrote no file %s" % os.path.relpath(f, root)]})
    if existing:
        q = run([ctx.bins["mockcount"]] + existing, timeout=600, check=True)
        res["files"] = json.loads(q.stdout)
    # assertion files
    for m in mod["srcs"]:
        for pl in PLACEMENTS:
            d = out_dir(root, m, pl)
            if not any(os.path.exists(str(d / FILES[(t, pl)])) for t in TEMPLATES):
                continue
            src, lines = assertion_file(rng, m, pl)
            (d / ASSERT_FILE[pl]).write_text(src)
            if pl == "xt" and m.get("_shadow"):
                (d / SHADOW_FILE).write_text(SHADOW_SRC % m["src"]["name"])
            res["lines"][(m["src"]["name"], pl)] = lines
    errs, raw = go_check(root)
    res["go_output_tail"] = raw[-1500:]
    byname = {m["src"]["name"]: m for m in mod["srcs"]}
    for (sname, pl), es in sorted(errs.items()):
        m = byname.get(sname)
        if m is None:
            continue
        lines = res["lines"].get((sname, pl), {})
        seen_if = set()
        other = []
        for (f, ln, msg) in es:
            if f == ASSERT_FILE[pl] and ln in lines:
                iname, s, kind = lines[ln]
                key = (iname, s)
                if key in seen_if:
                    continue
                seen_if.add(key)
                t = "testify" if s.startswith("Tf") else "matryer"
                if re.search(r"undefined: %s\b" % re.escape(s), msg):
                    res["fails"].append({"kind": "mock-missing", "src": sname, "placement": pl, "template": t, "iface": iname, "struct": s,
                                         "assertion": "missing", "messages": ["no mock type %s for %s: %s" % (s, iname, msg)]})
                else:
                    res["fails"].append({"kind": "not-assignable", "src": sname, "placement": pl, "template": t, "iface": iname, "struct": s,
                                         "assertion": kind, "messages": [msg]})
            else:
                other.append("%s:%d: %s" % (f, ln, msg))
        if other and not seen_if:
            t = "testify" if any("_tf" in x for x in other) else "matryer"
            res["fails"].append({"kind": "does-not-compile", "src": sname, "placement": pl, "template": t, "iface": None, "messages": other[:8]})
    # count of mock types per file (direct oracle, no model)
    for f, exp in files.items():
        info = res["files"].get(f)
        if info is None:
            continue
        if info.get("error"):
            res["fails"].append({"kind": "unparsable", "file": f, "src": exp[0][0], "placement": exp[0][4], "template": exp[0][3], "iface": None, "messages": [info["error"]]})
            continue
        structs = [x["name"] for x in info["types"] if x["struct"] and not re.search(r"_Expecter$|_Call$", x["name"])]
        want = [e[2] for e in exp]
        if sorted(structs) != sorted(want):
            extra = sorted(set(structs) - set(want)) + sorted(x for x in set(structs) if structs.count(x) > 1)
            miss = sorted(set(want) - set(structs))
            res["fails"].append({"kind": "mock-count", "file": f, "src": exp[0][0], "placement": exp[0][4], "template": exp[0][3],
                                 "iface": next((e[1] for e in exp if e[2] in extra + miss), None),
                                 "messages": ["mock struct types in %s: %d requested, %d found; missing %s, unexpected or repeated %s" % (
                                     os.path.relpath(f, root), len(want), len(structs), miss[:5], extra[:5])]})
    return res


# --------------------------------------------------------------------------------------
# Gallina printing
# --------------------------------------------------------------------------------------
def cb(s):
    return c14.cb(s)


def decl_term(d, src):
    if d["kind"] == "alias":
        return "EAlias %s" % c14.ty_term(d["target"], src)
    if d["kind"] == "defined":
        return "EIface {| d_tparams := []; d_methods := []; d_embeds := [%s] |}" % c14.ty_term(d["target"], src)
    return "EIface {| d_tparams := %s; d_methods := %s; d_embeds := %s |}" % (
        coq_list(cb(tp["n"]) for tp in d["tparams"]),
        coq_list("(%s, %s)" % (cb(mm["n"]), c14.sig_term(mm["sig"], src)) for mm in d["methods"]),
        coq_list(c14.ty_term(e, src) for e in d["embeds"]))


def env_term(m):
    src = m["src"]["path"]
    ents = []
    for (pkg, name), d in m["_table"].items():
        ents.append("(%s, %s, %s)" % (cb(pkg or src), cb(name), decl_term(d, src)))
    return coq_list(ents)


def names_table(m):
    t = [(e["path"], e["name"]) for e in m["ext"]] + [(s["path"], s["name"]) for s in m["std"]] + [(s["path"], s["name"]) for s in gen_pkgs.C02_STD]
    return t + [("unsafe", "unsafe"), (m["src"]["path"], m["src"]["name"])]


def obs_shapes(info, struct):
    ms = [x for x in info["methods"] if x["recv"] == struct]
    return sorted(((x["name"], x["np"], x["variadic"], x["nr"]) for x in ms), key=lambda x: x[0].encode())


def obs_tparams(info, struct):
    for x in info["types"]:
        if x["name"] == struct:
            return x.get("tpnames", [])
    return ["<no such type>"]


def case_term(m, k, i, t, pl, s, wr, shapes, tpnames=()):
    src = m["src"]["path"]
    dst = src if pl != "out" else MOD + "/mocks/" + m["src"]["name"]
    return ("{| c_env := env%d; c_fuel := %d; c_pkg := %s; c_name := %s; c_tps := %s; c_names := names%d; c_dst := %s; c_inpkg := %s; "
            "c_struct := %s; c_tmpl := %s; c_resets := %s; c_obs := %s; c_obs_tps := %s |}" % (
                k, FUEL, cb(src), cb(i["name"]),
                coq_list("(%s, %s)" % (c14.lbl(tp["n"]), c14.ty_term(tp["c"], src)) for tp in i["tparams"]),
                k, cb(dst), coq_bool(pl == "in"), cb(s), "Testify" if t == "testify" else "Matryer", coq_bool(wr),
                coq_list("(%s, (%d, %s, %d))" % (cb(n), np_, coq_bool(v), nr) for (n, np_, v, nr) in shapes),
                coq_list(cb(x) for x in tpnames)))


def coq_defs(mod):
    out = []
    for k, m in enumerate(mod["srcs"]):
        out.append("Definition env%d : denv := %s." % (k, env_term(m)))
        out.append("Definition names%d : list (str * str) := %s." % (k, coq_list("(%s, %s)" % (cb(a), cb(b)) for a, b in names_table(m))))
    return "\n".join(out)


def gcase_term(mod, root, res):
    reqs = []
    for m in mod["srcs"]:
        for i in m["_mock"]:
            for n, (t, pl, s, wr) in enumerate(i["_entries"]):
                reqs.append("{| q_iface := %s; q_entry := %d; q_file := %s; q_struct := %s |}" % (
                    cb(m["src"]["name"] + "." + i["name"]), n, cb(os.path.relpath(str(out_dir(root, m, pl) / FILES[(t, pl)]), root)), cb(s)))
    obs = []
    for f, info in sorted(res["files"].items()):
        structs = [x["name"] for x in info["types"] if x["struct"] and not re.search(r"_Expecter$|_Call$", x["name"])]
        obs.append("(%s, %s)" % (cb(os.path.relpath(f, root)), coq_list(cb(x) for x in structs)))
    return "{| g_reqs := %s; g_obs := %s |}" % (coq_list(reqs), coq_list(obs))


# --------------------------------------------------------------------------------------
# shrinking
# --------------------------------------------------------------------------------------
def restrict(mod, sname, iname=None, keep_methods=None, keep_embeds=None):
    """mod restricted to one source package (and one requested interface; the other declarations stay
    because they may be embedded)."""
    m = [x for x in mod["srcs"] if x["src"]["name"] == sname][0]
    m2 = json.loads(json.dumps({k: v for k, v in m.items() if not k.startswith("_")}))
    for i in m2["ifaces"]:
        for k in [k for k in i if k.startswith("_")]:
            del i[k]
    m2["_shadow"] = m.get("_shadow", False)
    if "_rt" in m:
        m2["_rt"] = json.loads(json.dumps(m["_rt"]))
    m2["_only"] = iname if (iname is None or isinstance(iname, list)) else [iname]
    m2["_plan"] = {i["name"]: [list(e) for e in i["_entries"]] for i in m.get("_mock", [])} if "_mock" in m else m.get("_plan", {})
    if iname is not None and not isinstance(iname, list) and (keep_methods is not None or keep_embeds is not None):
        for i in m2["ifaces"] + [d for d in m2["extra_decls"] if d["pkg"] == ""]:
            if i["name"] == iname and i.get("kind", "iface") == "iface":
                if keep_methods is not None:
                    i["methods"] = [x for x in i["methods"] if x["n"] in keep_methods]
                if keep_embeds is not None:
                    i["embeds"] = [e for j, e in enumerate(i["embeds"]) if j in keep_embeds]
    return {"mod": MOD, "srcs": [m2]}


def replan(mod, fail):
    """requests for a restricted module: the failing interface only, failing template/placement only"""
    for m in mod["srcs"]:
        table = gen_pkgs.decl_table(m)
        m["_table"] = table
        m["_mock"] = []
        for i in mockable(m):
            if m.get("_only") is not None and i["name"] not in m["_only"]:
                continue
            try:
                nameable, ms, outside = classify(m, table, i)
            except gen_pkgs.SpecError:
                continue
            i["_ms"], i["_nameable"], i["_outside"] = ms, nameable, outside
            i["_depth"] = embed_depth(table, gen_pkgs.self_type(table[("", i["name"])])) - 1
            ents = []
            if i["name"] in m.get("_plan", {}):
                # the requests of the original run (all entries of the interface: the grouping clause needs them together)
                ents = [tuple(e) for e in m["_plan"][i["name"]]]
                if fail and fail.get("kind") in ("not-assignable", "does-not-compile", "mockery-error", "unparsable") and fail.get("assertion") != "missing":
                    keep = [e for e in ents if e[0] == fail.get("template", e[0]) and e[1] == fail.get("placement", e[1])]
                    ents = keep or ents
            else:
                for t in TEMPLATES:
                    if t in outside:
                        continue
                    for pl in PLACEMENTS:
                        if pl != "in" and not nameable:
                            continue
                        ents.append((t, pl, PREFIX[t] + i["name"], False))
            i["_entries"] = ents
            m["_mock"].append(i)


def still_fails(ctx, mod, fail, tag, n):
    root = ctx.scratch / ("shr_%s_%d" % (tag, n[0]))
    n[0] += 1
    replan(mod, fail)
    if not any(i["_entries"] for m in mod["srcs"] for i in m["_mock"]):
        return None
    try:
        r = process(ctx, mod, root, random.Random(ctx.seed))
    except RuntimeError:
        return None
    return r["fails"] or None


def shrink(ctx, mod, fail, tag):
    """Smallest sub-input on which the oracle still fails: one source package, one interface, then
    explicit methods and embedded elements dropped one by one."""
    n = [0]
    sname = fail["src"]
    m = [x for x in mod["srcs"] if x["src"]["name"] == sname][0]
    cands = [fail["iface"]] if fail.get("iface") else list(dict.fromkeys(fail.get("candidates") or [i["name"] for i in m["_mock"] if i["_entries"]]))
    best, bestf = restrict(mod, sname), None
    # bisection down to one interface (every trial is a complete mockery + compiler run)
    while len(cands) > 1:
        half = cands[:len(cands) // 2]
        f = still_fails(ctx, restrict(mod, sname, half), fail, tag, n)
        cands = half if f else cands[len(cands) // 2:]
    for iname in cands:
        c = restrict(mod, sname, iname)
        f = still_fails(ctx, c, fail, tag, n)
        if f:
            best, bestf = c, f
            decl = [i for i in c["srcs"][0]["ifaces"] + c["srcs"][0]["extra_decls"] if i["name"] == iname and i.get("pkg", "") == ""][0]
            if decl.get("kind", "iface") == "iface":
                meths = [x["n"] for x in decl["methods"]]
                embeds = list(range(len(decl["embeds"])))
                for x in list(meths):
                    c2 = restrict(mod, sname, iname, [y for y in meths if y != x], embeds)
                    f2 = still_fails(ctx, c2, fail, tag, n)
                    if f2:
                        meths.remove(x); best, bestf = c2, f2
                for j in list(embeds):
                    if len(embeds) + len(meths) <= 1:
                        break
                    c2 = restrict(mod, sname, iname, meths, [y for y in embeds if y != j])
                    f2 = still_fails(ctx, c2, fail, tag, n)
                    if f2:
                        embeds.remove(j); best, bestf = c2, f2
    return best, bestf


def strip(mod):
    """JSON-able copy without the harness' working fields"""
    def clean(x):
        if isinstance(x, dict):
            return {k: clean(v) for k, v in x.items() if not k.startswith("_") or k in ("_only", "_plan", "_shadow", "_rt")}
        if isinstance(x, list):
            return [clean(v) for v in x]
        return x
    return clean(mod)


def go_text(mod, iname):
    """the declaration of one interface as Go source, for the replay file"""
    for m in mod["srcs"]:
        for rel, content in list(gen_pkgs.src_files(m).items()) + list(gen_pkgs.extra_decl_files(m).items()):
            mm = re.search(r"^type %s(\[[^\n]*\])? interface \{.*?^\}|^type %s [^\n]*$" % (re.escape(iname), re.escape(iname)), content, re.M | re.S)
            if mm and rel.startswith(m["src"]["name"] + "/"):
                return mm.group(0)
    return None


# --------------------------------------------------------------------------------------
# known finding: methods spelled like the mock's own members
# --------------------------------------------------------------------------------------
def witness_module():
    w = json.loads((VERIF / "corpus" / "C02" / "witness.json").read_text())
    ext = [e for e in gen_pkgs.EXT if e["name"] != "mock"]
    return {"mod": MOD, "srcs": [{"mod": MOD, "src": {"path": MOD + "/" + w["name"], "name": w["name"]}, "ifaces": w["ifaces"], "ext": ext,
                                  "std": gen_pkgs.STD + gen_pkgs.C02_STD, "nonascii": False, "extra_decls": []}]}


def witness_stream(ctx, known):
    """Interfaces inside the class: force both templates and check that the listed symptom is still there."""
    kid = "C02-own-api-collision"
    mod = witness_module()
    for m in mod["srcs"]:
        table = gen_pkgs.decl_table(m)
        m["_table"], m["_mock"] = table, []
        for i in mockable(m):
            nameable, ms, outside = classify(m, table, i)
            i["_ms"], i["_nameable"], i["_outside"], i["_depth"] = ms, nameable, outside, 0
            i["_entries"] = [(t.split("-")[0], "in", PREFIX[t.split("-")[0]] + i["name"], t == "matryer-resets") for t in outside
                             if not (t == "matryer-resets" and "matryer" in outside)]
            m["_mock"].append(i)
    res = process(ctx, mod, ctx.scratch / "witness", random.Random(1))
    msgs = [x for f in res["fails"] for x in f["messages"]]
    n_in = sum(len(i["_entries"]) for m in mod["srcs"] for i in m["_mock"])
    hit = {}
    for f in res["fails"]:
        for x in f["messages"]:
            if kid in known and re.search(known[kid]["symptom"], x):
                hit.setdefault(f["template"], x)
    if n_in and all(t in hit for t in TEMPLATES):
        ctx.known("%s: %d witness mocks (methods named EXPECT / On / Called / <M>Calls / <M>Func / Reset<M>): testify: %s | matryer: %s" % (
            kid, n_in, hit["testify"][:110], hit["matryer"][:110]))
    else:
        rp = ctx.write_replay("known-finding-changed", {
            "what": "the witnesses of known finding %s no longer show the listed symptom for both templates (fixed? then move the entry to 'fixed' and drop the guard api_free)" % kid,
            "observed_messages": msgs[:10], "module": strip(mod), "obligation": "known/C02.json entry " + kid})
        ctx.violation(rp, nofail=True)
    return n_in


# --------------------------------------------------------------------------------------
# layouts: nested modules, the package at the module root with a relative `dir`
# --------------------------------------------------------------------------------------
LIB_STORE = """package store

type Key struct{ K string }
type Record struct {
	Key Key
	V   []byte
}
type Store interface {
	Get(k Key) (*Record, error)
	Put(rs ...Record) error
	Each(f func(Key, *Record) bool)
}
type Cache[K comparable, V any] interface {
	Load(k K) (V, Record, bool)
	Keys() map[Key][]K
}
type Nested interface {
	Store
	Close() error
}
"""
APP_SVC = """package svc

import "example.com/lib/store"

type Job struct{ ID int }
type Runner interface {
	Run(j Job, k store.Key) (*Job, error)
	Keys(ks ...store.Key) []Job
	Inner() store.Store
}
"""
ROOT_PKG = """package root

type Key struct{ K string }
type Store interface {
	Get(k Key) (*Key, error)
	All(ks ...Key) map[Key][]Key
}
type Gen[T any] interface{ One(k Key) (T, Key) }
"""
INDIRECT = """require (
	github.com/davecgh/go-spew v1.1.2-0.20180830191138-d8f796af33cc // indirect
	github.com/pmezard/go-difflib v1.0.1-0.20181226105442-5d4384ee4fb2 // indirect
	github.com/stretchr/objx v0.5.2 // indirect
	gopkg.in/yaml.v3 v3.0.1 // indirect
)
"""


def _layout_cfg(pkgs):
    """pkgs: {import path: (package name, [interface names], [(label, dir, pkgname)])} -> mockery config; file names
    carry the label so that several runs can write into one directory"""
    pk = {}
    for path, (pname, names, places) in pkgs.items():
        ifs = {}
        for n in names:
            cfgs = []
            for (label, d, pkgname) in places:
                for t in TEMPLATES:
                    c = {"template": t, "structname": "%s%s%s" % (PREFIX[t], label, n), "dir": d, "pkgname": pkgname,
                         "filename": "zz_%s_%s%s.go" % (label.lower(), PREFIX[t].lower(), "_test" if pkgname == pname else "")}
                    if t == "matryer":
                        c["template-data"] = {"skip-ensure": True}
                    cfgs.append(c)
            ifs[n] = {"configs": cfgs}
        pk[path] = {"interfaces": ifs}
    return {"formatter": "goimports", "force-file-write": True, "log-level": "error", "packages": pk}


def _layout_assert(pkgname, srcimport, generic, names, labels):
    """assertion file for one destination package"""
    q = "zsrc." if srcimport else ""
    L = ["// Code written by the C02 check; not part of mockery's output.", "package %s" % pkgname, ""]
    if srcimport:
        L += ['import zsrc "%s"' % srcimport, ""]
    for n in names:
        for lb in labels:
            for t in TEMPLATES:
                s = "%s%s%s" % (PREFIX[t], lb, n)
                if n in generic:
                    L.append("func _[A comparable, B any]() { var _ %s%s[A, B] = (*%s[A, B])(nil) }" % (q, n, s) if generic[n] == 2 else
                             "func _[A any]() { var _ %s%s[A] = (*%s[A])(nil) }" % (q, n, s))
                    L.append("var _ %s%s[%s] = (*%s[%s])(nil)" % ((q, n, "string, []%sKey" % q, s, "string, []%sKey" % q) if generic[n] == 2 else (q, n, "*%sKey" % q, s, "*%sKey" % q)))
                else:
                    L.append("var _ %s%s = (*%s)(nil)" % (q, n, s))
    return "\n".join(L) + "\n"


def _go_ok(cwd, env):
    out = ""
    for cmd in (["go", "build", "./..."], ["go", "test", "-count=1", "-run", "^$", "./..."]):
        p = run(cmd, cwd=cwd, env=env, timeout=900)
        if p.returncode != 0:
            out += (p.stdout + p.stderr).decode(errors="replace")
    return out


def layout_case(ctx, kind, tag):
    """One repository layout.  -> (number of assertion lines, failure text or None, description)"""
    root = ctx.scratch / ("layout_%s" % tag)
    root.mkdir(parents=True)
    gomod = lambda mod, extra="": "module %s\n\ngo 1.23\n\nrequire github.com/stretchr/testify v1.10.0\n\n%s%s" % (mod, INDIRECT, extra)
    sums = (REPO / "go.sum").read_text()
    files, runs = {}, []
    env = dict(os.environ, GOPROXY="off")
    env.pop("GOFLAGS", None)
    if kind in ("nested-replace", "nested-work"):
        files["lib/go.mod"] = gomod("example.com/lib")
        files["lib/go.sum"] = sums
        files["lib/store/store.go"] = LIB_STORE
        files["go.sum"] = sums
        files["svc/svc.go"] = APP_SVC
        if kind == "nested-replace":
            files["go.mod"] = gomod("example.com/app", "require example.com/lib v0.0.0\n\nreplace example.com/lib => ./lib\n")
        else:
            files["go.mod"] = gomod("example.com/app")
            files["go.work"] = "go 1.23\n\nuse (\n\t.\n\t./lib\n)\n"
        lib = ["Store", "Cache", "Nested"]
        # run 1 from the outer directory: in-package and out-of-package (into the nested module) mocks of the nested module's
        # package, in-package mocks of the outer module's package; run 2 (control) from inside the nested module
        runs.append((".", _layout_cfg({"example.com/lib/store": ("store", lib, [("Top", "{{.InterfaceDir}}", "store"), ("Out", str(root / "lib" / "mocks"), "mk")]),
                                       "example.com/app/svc": ("svc", ["Runner"], [("Top", "{{.InterfaceDir}}", "svc")])})))
        runs.append(("lib", _layout_cfg({"example.com/lib/store": ("store", lib, [("Ctl", "{{.InterfaceDir}}", "store")])})))
        asserts = {"lib/store/zz_c02_assert_test.go": _layout_assert("store", None, {"Cache": 2}, lib, ["Top", "Ctl"]),
                   "lib/mocks/zz_c02_assert.go": _layout_assert("mk", "example.com/lib/store", {"Cache": 2}, lib, ["Out"]),
                   "svc/zz_c02_assert_test.go": _layout_assert("svc", None, {}, ["Runner"], ["Top"])}
        builds = [".", "lib"]
        descr = {"layout": kind, "outer module": "example.com/app (package svc)", "nested module": "example.com/lib in ./lib (package store)",
                 "runs": ["from the outer directory: store in-package + into lib/mocks, svc in-package", "from ./lib: store in-package"]}
    else:   # root-dot: the package at the module root, relative output directory
        d = {"root-dot": ".", "root-dot-slash": "./", "root-reldir": "{{.InterfaceDirRelative}}"}[kind]
        files["go.mod"] = gomod("example.com/root")
        files["go.sum"] = sums
        files["root.go"] = ROOT_PKG
        files["sub/sub.go"] = ROOT_PKG.replace("package root", "package sub")
        names = ["Store", "Gen"]
        runs.append((".", _layout_cfg({"example.com/root": ("root", names, [("Top", d, "root")]),
                                       "example.com/root/sub": ("sub", names, [("Top", "{{.InterfaceDirRelative}}", "sub")])})))
        asserts = {"zz_c02_assert_test.go": _layout_assert("root", None, {"Gen": 1}, names, ["Top"]),
                   "sub/zz_c02_assert_test.go": _layout_assert("sub", None, {"Gen": 1}, names, ["Top"])}
        builds = ["."]
        descr = {"layout": kind, "module": "example.com/root with the mocked package at the module root", "dir": d, "pkgname": "root (in-package)"}
    for rel, content in files.items():
        (root / rel).parent.mkdir(parents=True, exist_ok=True)
        (root / rel).write_text(content)
    pre = "".join(_go_ok(root / b, env) for b in builds)
    if pre:
        raise RuntimeError("harness bug: the %s layout does not compile before mockery runs:\n%s" % (kind, pre[-2000:]))
    fail = None
    for k, (cwd, cfg) in enumerate(runs):
        cf = root / cwd / (".mockery_c02_%d.json" % k)
        cf.write_text(json.dumps(cfg, indent=1))
        p = run([ctx.bins["mockery"], "--config", str(cf)], cwd=root / cwd, env=env, timeout=600)
        if p.returncode != 0:
            fail = "mockery (run %d, from %s) exit %d: %s" % (k, cwd, p.returncode, (p.stdout + p.stderr).decode(errors="replace")[-1200:])
            break
    n = 0
    if fail is None:
        for rel, content in asserts.items():
            (root / rel).parent.mkdir(parents=True, exist_ok=True)
            (root / rel).write_text(content)
            n += len([x for x in content.split("\n") if x.startswith(("var _", "func _"))])
        out = "".join(_go_ok(root / b, env) for b in builds)
        if out:
            fail = "\n".join(re.sub(r"^\S*?layout_[^/\s]*/", "", x) for x in out.strip().split("\n")[:14])
    descr["files"] = {k: v for k, v in files.items() if k.endswith(".go") or k.endswith("go.mod") or k == "go.work"}
    descr["configs"] = [{"cwd": c, "config": cfg} for c, cfg in runs]
    descr["mockery_runs"] = len(runs)
    return n, fail, descr


def layout_stream(ctx, kinds=None):
    """-> (assertion lines checked, number of layouts, any failure?)"""
    if kinds is None:
        kinds = ["nested-replace", "nested-work"] + (["root-dot", "root-reldir"] + (["root-dot-slash"] if ctx.thorough() else []) if r9_classes() else [])
    total, failed, nruns = 0, False, 0
    for j, kind in enumerate(kinds):
        n, fail, descr = layout_case(ctx, kind, "%d_%s" % (j, kind.replace("-", "_")))
        total += n
        nruns += descr["mockery_runs"]
        if fail:
            failed = True
            rp = ctx.write_replay("layout-%s" % kind, {
                "what": "repository layout %s: a generated mock does not compile or is not assignable to its interface" % kind,
                "messages": fail, "layout": descr, "layout_kind": kind})
            ctx.violation(rp)
    return total, len(kinds), failed, nruns


# --------------------------------------------------------------------------------------
# the check
# --------------------------------------------------------------------------------------
def corpus_srcs():
    f = VERIF / "corpus" / "C02" / "edge.json"
    if not f.exists():
        return []
    ext = [e for e in gen_pkgs.EXT if e["name"] != "mock"]
    out = []
    for s in json.loads(f.read_text()):
        out.append({"mod": MOD, "src": {"path": MOD + "/" + s["name"], "name": s["name"]}, "ifaces": s["ifaces"], "ext": ext,
                    "std": gen_pkgs.STD + gen_pkgs.C02_STD, "nonascii": False, "_shadow": True,
                    "extra_decls": list(gen_pkgs.foreign_extra_decls(ext)) + s.get("extra_decls", [])})
    return out


def stats(mod, hist):
    def bump(k, n=1):
        hist[k] = hist.get(k, 0) + n
    for m in mod["srcs"]:
        bump("source packages whose external test package declares types named like the source package's" if m.get("_shadow") else "source packages without same-named types in the external test package")
        for i in m["_mock"]:
            bump("interfaces")
            for pl in PLACEMENTS:
                n = len([e for e in i["_entries"] if e[1] == pl])
                if n:
                    bump("mocks in placement %s" % {"in": "in-package _test.go", "xt": "same-directory <src>_test package", "out": "separate package"}[pl], n)
            if not i["_entries"]:
                bump("interfaces outside the guarantee for both templates (own-API collision)")
                continue
            for t, why in i["_outside"].items():
                if not (t == "matryer-resets" and "matryer" in i["_outside"]):
                    bump("outside the guarantee: %s/%s (counted, not mocked with that template%s)" % (t, why, " and with-resets" if t == "matryer-resets" else ""))
            if not i["_nameable"]:
                bump("interfaces mocked in-package only (unexported name, method or type)")
            if any(tp["n"] == "_" for tp in i["tparams"]):
                bump("generic interfaces with blank type parameters")
            if i["tparams"]:
                bump("generic interfaces")
                bump("generic interfaces with %d type parameters" % len(i["tparams"]))
            bump("embedding depth %d" % min(i["_depth"], 5))
            if i.get("kind") == "defined":
                bump("types defined from an interface (type B A)")
            if i.get("_plain"):
                bump("interfaces without a configs list")
            nrt = len([e for e in i["_entries"] if is_rt(e[2])])
            if nrt:
                bump("mocks configured with replace-type (counted, not asserted: they intentionally differ)", nrt)
            if "_rt" in m and len(i["_entries"]) > nrt:
                bump("mocks without replace-type in an output file where an earlier mock replaces a type they use", len(i["_entries"]) - nrt)
            bump("configs entries per interface: %d" % (0 if i.get("_plain") else len(i["_entries"])))
            names = [x["n"] for x in i["_ms"]]
            bump("methods in method sets", len(names))
            bump("methods named like an initialism in mixed case (Id, Url, Json, IdOf, ...)", len([n for n in names if n in INITIALISM_NAMES and not n.isupper()]))
            explicit = {x["n"] for x in i.get("methods", [])}
            bump("methods promoted from embedded interfaces", len([n for n in names if n not in explicit]))
            for x in i["_ms"]:
                if x["sig"]["variadic"]:
                    bump("variadic methods")
                    e = x["sig"]["params"][-1]["t"]["e"]
                    if e["k"] in ("slice", "array", "map", "func", "ptr", "chan"):
                        bump("variadic element type starts with %s" % {"slice": "[]", "array": "[N]", "map": "map[", "func": "func(", "ptr": "*", "chan": "chan"}[e["k"]])

            def emb(t):
                k = t["k"]
                if k == "alias":
                    bump("embedded: alias of an interface")
                elif k == "iface":
                    bump("embedded: interface literal")
                elif k == "basic":
                    bump("embedded: error")
                elif k == "named":
                    where = "local" if t["pkg"] == "" else ("foreign" if t["pkg"].startswith(MOD) else "stdlib")
                    bump("embedded: %s%s" % (where, " instantiated generic" if t["targs"] else ""))
            for e in i.get("embeds", []):
                emb(e)


def is_diamond(m, i):
    """the same method reaches the interface through two embedding paths"""
    try:
        raw = []
        d = m["_table"][("", i["name"])]
        for e in ([d["target"]] if d["kind"] != "iface" else d["embeds"]):
            raw += [x["n"] for x in gen_pkgs.spec_method_set(m["_table"], e, "", fuel=FUEL)]
        raw += [x["n"] for x in d.get("methods", [])]
        return len(raw) != len(set(raw))
    except gen_pkgs.SpecError:
        return False


def check(ctx, only=None, layouts=None):
    gate = proof_gate(ctx)
    if not ctx.build_tree(drivers=["mockcount"]):
        ctx.write_evidence(gate, 0, 0, "build failed", [])
        return
    known = {k["id"]: k for k in load_known("C02")}
    hist, samples = {}, []
    evaluations, renamed = 0, [0, 0]
    nontrivial = set()
    oracle_failed = False
    corr = []          # (module index, description, term, defs)
    coq_errors = []

    if only is not None:
        modules = only
        for mod in modules:
            replan(mod, None)
    else:
        nmod, nsrc = (8, 7) if ctx.thorough() else (1, 6)
        modules = []
        for j in range(nmod):
            srcs = [gen_src(ctx.rng, k, renamed) for k in range(nsrc)]
            for k, m in enumerate(srcs):
                m["_shadow"] = k % 2 == 0      # every other external test package declares same-named types
            srcs.append(gen_rt_src(ctx.rng))
            srcs.append(gen_blank_src(ctx.rng))
            srcs.append(gen_initialism_src(ctx.rng))
            if j == 0:
                srcs += corpus_srcs()
            mod = {"mod": MOD, "srcs": srcs}
            plan(ctx.rng, mod)
            modules.append(mod)
    n_assert = 0
    for j, mod in enumerate(modules):
        stats(mod, hist)
        root = ctx.scratch / ("mod%d" % j)
        res = process(ctx, mod, root, ctx.rng)
        n_assert += sum(len(v) for v in res["lines"].values())
        evaluations += sum(len(v) for v in res["lines"].values()) + len(res["files"])
        # ---- correspondence cases
        terms, descr = [], []
        for k, m in enumerate(mod["srcs"]):
            for i in m["_mock"]:
                for (t, pl, s, wr) in i["_entries"]:
                    info = res["files"].get(str(out_dir(root, m, pl) / FILES[(t, pl)]))
                    if info is None or info.get("error"):
                        continue
                    shapes = obs_shapes(info, s)
                    tpn = obs_tparams(info, s)
                    terms.append(case_term(m, k, i, t, pl, s, wr, shapes, tpn))
                    descr.append({"src": m["src"]["name"], "iface": i["name"], "template": t, "placement": pl, "struct": s,
                                  "observed_type_parameters": tpn,
                                  "observed_methods": ["%s/%d%s/%d" % (n, a, "..." if v else "", r) for (n, a, v, r) in shapes]})
                    if i["_depth"] >= 2 or i["tparams"] or is_diamond(m, i):
                        nontrivial.add((j, m["src"]["name"], i["name"]))
        defs = coq_defs(mod)
        bad, errs = coq_mismatches(ctx, COQ_MODS, terms, shard=120, extra_import=defs)
        evaluations += len(terms)
        coq_errors += errs
        for b in bad:
            corr.append((j, descr[b], terms[b], defs))
        gbad = []
        if res["rc"] == 0:
            gterm = gcase_term(mod, root, res)
            gbad, gerrs = coq_mismatches(ctx, COQ_MODS, [gterm], check="g_mismatches")
            evaluations += 1
            coq_errors += gerrs
        if gbad:
            corr.append((j, {"grouping": "the mock struct types per output file differ from the grouping model (Gen/MethodSet.v group)",
                             "observed": {os.path.relpath(f, root): [x["name"] for x in info["types"] if x["struct"]] for f, info in res["files"].items()}}, None, None))
        if len(samples) < 3 and descr:
            samples.append(descr[ctx.rng.randrange(len(descr))])
        # ---- oracle failures
        reported = 0
        for f in res["fails"]:
            oracle_failed = True
            if reported >= 2:
                continue
            reported += 1
            small, sf = shrink(ctx, mod, f, "m%d_%d" % (j, reported))
            iname = (sf[0].get("iface") if sf else None) or f.get("iface")
            rp = ctx.write_replay("oracle-%d-%s-%s-%s" % (reported, f["src"], f.get("iface") or "file", f["kind"]), {
                "what": {"not-assignable": "the generated mock type is not assignable to the source interface",
                         "does-not-compile": "the package holding the generated mocks does not type-check",
                         "mock-missing": "a requested mock type is not in its output file",
                         "missing-file": "mockery wrote no output file", "mockery-error": "mockery fails on a valid module (the generated file cannot be formatted)", "unparsable": "the generated file does not parse",
                         "mock-count": "the number of mock types in an output file differs from the number of (interface, configs entry) requests routed to it"}[f["kind"]],
                "failure": f, "shrunk_failure": sf, "interface_source": go_text(small, iname) if iname else None,
                "module": strip(small)})
            ctx.violation(rp)
        if res["rc"] != 0 and not res["fails"]:
            oracle_failed = True
            rp = ctx.write_replay("mockery-failed-%d" % j, {"what": "mockery exited with an error on a valid module", "log": res["log"], "module": strip(mod)})
            ctx.violation(rp)

    # ---- known-finding witness stream
    n_wit = 0
    if only is None:
        n_wit = witness_stream(ctx, known)
        evaluations += n_wit

    # ---- repository layouts (nested modules; the module-root package with a relative dir)
    n_lay = lay_runs = 0
    if only is None or layouts:
        n_lines, n_lay, lay_failed, lay_runs = layout_stream(ctx, layouts)
        evaluations += n_lines
        oracle_failed = oracle_failed or lay_failed
        hist["repository layouts (nested module via replace / go.work, module-root package with relative dir)"] = n_lay
        hist["assertion lines in layout stream"] = n_lines

    # ---- verdicts for proofs / correspondence
    if not gate["ok"] and not oracle_failed:
        ctx.violation(gate["replay"], nofail=True)
    if corr or coq_errors:
        detail = []
        for (j, d, term, defs) in corr[:4]:
            d = dict(d)
            if term is not None:
                rc, out, err = coq_eval(ctx, "explain%d" % len(detail), "From Mk Require Import Lib.Bytes %s.\nOpen Scope string_scope.\n%s" % (COQ_MODS, defs), "",
                                        "Definition R := Eval vm_compute in (map (fun s => String.string_of_list_byte s) (spec_names (%s))).\nPrint R." % term)
                d["specification_method_set"] = re.findall(r'"([^"]*)"', " ".join(out.split())) if rc == 0 else err[-600:]
                rc, out, err = coq_eval(ctx, "explaintp%d" % len(detail), "From Mk Require Import Lib.Bytes %s.\nOpen Scope string_scope.\n%s" % (COQ_MODS, defs), "",
                                        "Definition R := Eval vm_compute in (match model_tparams (%s) with Some l => map (fun s => String.string_of_list_byte s) l | None => [\"<none>\"] end).\nPrint R." % term)
                d["model_type_parameters"] = re.findall(r'"([^"]*)"', " ".join(out.split())) if rc == 0 else err[-600:]
                mod = modules[j]
                d["interface_source"] = go_text(mod, d["iface"])
                d["module"] = strip(restrict(mod, d["src"], d["iface"]))
            detail.append(d)
        rp = ctx.write_replay("correspondence", {
            "what": "the methods (or the type parameter list) declared by %d generated mock type(s) differ from the specification method_set (Gen/MethodSet.v) pushed through the data model and the template's method list (or from mock_tparams)" % len(corr),
            "obligation": "correspondence Harness/C02.v check_case / g_check; theorems C02_method_set, C02_once",
            "coq_errors": coq_errors[:3], "examples": detail})
        ctx.violation(rp, nofail=not oracle_failed)

    hist["parameter/result names renamed away from C01/C14 known-finding classes"] = renamed[0]
    hist["generator: dense multi-mention generic types (DenseGen)"] = renamed[1]
    ctx.write_evidence(gate, evaluations, len(nontrivial),
                       "one evaluation = one assertion line type-checked by the Go compiler (mock assignable to the interface: plain, generic function, concrete instantiation), "
                       "one generated mock type whose declared methods were compared with the specification inside Coq, or one output file whose mock types were counted; "
                       "non-trivial = interface with embedding depth >= 2, type parameters, or a method reached through two embedding paths; distinct by (module, package, interface)",
                       samples,
                       extra={"input_histogram": hist, "assertion_lines": n_assert, "model_mismatches": len(corr), "oracle_failed": oracle_failed,
                              "mockery_runs": len(modules) + (1 if only is None else 0) + lay_runs, "witness_mocks_in_known_class": n_wit,
                              "round9_classes_included (colliding blank type parameters, module-root dir '.')": r9_classes()},
                       assumptions=["go/types is trusted to compute the method set that coq/Gen/MethodSet.v specifies; the comparison of the generated mocks' method lists with that specification on every run is what ties the two",
                                    "go/parser (harness/go/mockcount) is trusted to list the declarations of a generated file; the Go compiler is the judge of assignability",
                                    "parameter names are renamed away from the known-finding classes of C01/C14 (they are irrelevant to assignability); packages named mock are not generated",
                                    "the model and the check describe the tree with the repairs 0c5d383 (blank type parameters get distinct generated names) and 9b70000 (dir '.' recognised as in-package), both committed in /repo"])


def replay(ctx, path):
    d = json.loads(open(path).read())
    if d.get("layout_kind"):
        check(ctx, only=[], layouts=[d["layout_kind"]])
        return
    mods = []
    if "module" in d:
        mods.append(d["module"])
    for e in d.get("examples", []):
        if "module" in e:
            mods.append(e["module"])
    check(ctx, only=mods)
