"""C04 - matryer-style mocks forward calls and record them faithfully.

Seeded Go packages (interfaces of varied signatures) -> real mockery (template: matryer, all
eight skip-ensure/stub-impl/with-resets combinations) -> reflection driver drv_matryer replays
seeded histories on the fresh mocks -> (a) direct oracle of the property on the observed
trace, (b) the Gallina model Mock/Matryer.v evaluated on the same histories inside Coq."""
import json
from common import *

MOD = "example.com/m"
HM = "Mock.Matryer Harness.C04"

# (type text, base name mockery gives an unnamed parameter of this type, largest token, usable as variadic element)
TYPES = [
    ("string", "s", 9, True), ("int", "n", 9, True), ("int64", "n", 9, False), ("uint8", "v", 9, False),
    ("float64", "f", 9, False), ("bool", "b", 1, False), ("error", "err", 9, True),
    ("interface{}", "ifaceVal", 9, True), ("any", "v", 9, True), ("*T", "t", 9, True), ("T", "t", 9, True),
    ("MyInt", "myInt", 9, False), ("[]byte", "bytes", 9, True), ("[]string", "strings", 9, False),
    ("map[string]int", "stringToInt", 9, False), ("func(int) string", "fn", 9, False), ("func() int", "fn", 9, True),
    ("chan int", "intCh", 9, False), ("<-chan string", "stringCh", 9, False), ("[2]int", "ints", 9, False),
    ("*int", "n", 9, False), ("[]*T", "ts", 9, False), ("map[int]*T", "intToT", 9, False),
    ("struct{ X int }", "val", 9, False),
]
# types whose generated parameter name is an identifier the matryer template itself writes: `mock` (the receiver) and
# `callInfo` (the record variable); template/var.go varName renames them to mockParam / callInfoParam
COLLIDE_TYPES = [
    ("Mock", "mockParam", 9, True), ("*Mock", "mockParam", 9, True), ("CallInfo", "callInfoParam", 9, True),
    ("*CallInfo", "callInfoParam", 9, False), ("[]CallInfo", "callInfos", 9, False), ("ext.Mock", "mockParam", 9, False),
    ("*ext.CallInfo", "callInfoParam", 9, False), ("ext.CallInfo", "callInfoParam", 9, False), ("[]*Mock", "mocks", 9, False),
]
# reference-typed parameters whose IDENTITY matters (out buffers as in io.Reader): slices incl. named slice types, maps, pointers
REF_TYPES = [("[]byte", "bytes", 9, True), ("Bytes", "bytes", 9, True), ("Names", "names", 9, True), ("[]T", "ts", 9, False),
             ("[]int", "ints", 9, True), ("map[string]int", "stringToInt", 9, False), ("*T", "t", 9, True), ("[]*T", "ts", 9, False),
             ("[][]byte", "bytess", 9, False)]
TYPE = {t[0]: t for t in TYPES + COLLIDE_TYPES + REF_TYPES}
VAR_BASE = {"string": "strings", "int": "ints", "error": "errs", "interface{}": "ifaceVals", "any": "vs", "*T": "ts",
            "T": "ts", "[]byte": "bytess", "func() int": "fns", "Mock": "mocks", "*Mock": "mocks", "CallInfo": "callInfos",
            "Bytes": "bytess", "Names": "namess", "[]int": "intss"}
GENERIC_TYPES = [("K", "v", 9), ("V", "v", 9), ("[]V", "vs", 9), ("map[K]V", "vToV", 9), ("func(K) V", "fn", 9), ("*V", "v", 9)]
# parameter names: lower-case ASCII, no template local (mock, callInfo), no package qualifier (sync, fmt, context),
# no two names of one method with the same exported form (C01's findings, owned there)
PNAMES = ["s", "n", "id", "url", "ctx", "key", "val", "data", "name", "count", "opts", "fn", "ch", "m", "x", "y", "item",
          "http", "api", "xs", "args", "b", "p", "q", "userID", "uuid", "tls", "err0", "s1", "n2", "v"]
MNAMES = ["A", "B", "Do", "Get", "Put", "Find", "Close", "Run", "Sum", "Each", "Apply", "Stop", "Len", "String", "Error", "M1", "Lookup"]
INITIALISMS = ["ACL", "API", "ASCII", "CPU", "CSS", "DNS", "EOF", "GUID", "HTML", "HTTP", "HTTPS", "ID", "IP", "JSON", "LHS",
               "QPS", "RAM", "RHS", "RPC", "SLA", "SMTP", "SQL", "SSH", "TCP", "TLS", "TTL", "UDP", "UI", "UID", "UUID", "URI",
               "URL", "UTF8", "VM", "XML", "XMPP", "XSRF", "XSS"]


def exported(s):
    if not s:
        return ""
    if s.upper() in INITIALISMS:
        return s.upper()
    return s[0].upper() + s[1:]


# ---------------------------------------------------------------- generators
def gen_method(rng, name, generic=False):
    np = rng.choice([0, 1, 1, 2, 2, 3, 3, 4, 5])
    nr = rng.choice([0, 0, 1, 1, 2, 3])
    variadic = np > 0 and rng.random() < 0.3
    style = rng.choice(["named", "named", "unnamed", "underscore"])
    pool = TYPES + ([(t, b, mx, False) for t, b, mx in GENERIC_TYPES] * 3 if generic else [])
    params, used = [], set()
    for i in range(np):
        last_var = variadic and i == np - 1
        t = rng.choice([x for x in pool if x[3]] if last_var else pool)
        nm = None
        if style != "unnamed":
            if style == "underscore" and rng.random() < 0.5:
                nm = "_"
            else:
                for _ in range(50):
                    c = rng.choice(PNAMES)
                    if exported(c) not in used:
                        nm = c
                        break
                used.add(exported(nm))
        params.append({"name": nm, "type": t[0], "max": t[2], "variadic": last_var})
    rstyle = rng.choice(["unnamed", "unnamed", "named"])
    results = []
    for i in range(nr):
        t = rng.choice(pool)
        results.append({"name": ("r%d" % i) if rstyle == "named" else None, "type": t[0], "max": t[2]})
    m = {"name": name, "params": params, "results": results, "variadic": variadic}
    m["resolved"] = resolved_names(m)
    if len({exported(x) for x in m["resolved"]}) != len(m["resolved"]):     # exported-field collision: C01's class
        return gen_method(rng, name, generic)
    return m


def gen_variadic_method(rng, name):
    """A variadic method with one result and a first parameter that can carry any number (used by C05)."""
    for _ in range(200):
        m = gen_method(rng, name)
        if m["variadic"] and len(m["results"]) == 1 and len(m["params"]) >= 2 and m["params"][0]["type"] in ("string", "int", "int64") \
                and not m["results"][0]["type"].startswith("func"):
            return m
    m = {"name": name, "params": [{"name": "format", "type": "string", "max": 9, "variadic": False},
                                   {"name": "args", "type": "interface{}", "max": 9, "variadic": True}],
         "results": [{"name": None, "type": "error", "max": 9}], "variadic": True}
    m["resolved"] = resolved_names(m)
    return m


def base_name(p):
    if p["name"] not in (None, "_"):
        return p["name"]
    if p.get("variadic"):
        return VAR_BASE[p["type"]]
    for t, b, _ in GENERIC_TYPES:
        if t == p["type"]:
            return b
    return TYPE[p["type"]][1]


def type_string(p):
    return ("[]" + p["type"]) if p.get("variadic") else p["type"]


def suggest(visible, prefix):
    i = 0
    while True:
        s = prefix if i == 0 else "%s%d" % (prefix, i)
        if s not in visible:
            return s
        i += 1


def resolved_names(m):
    """MethodScope.AddVar for every parameter and result, then ResolveVariableNameCollisions."""
    visible, first = set(), []
    for v in m["params"] + m["results"]:
        visible.add(type_string(v))
        first.append(suggest(visible, base_name(v)))
    final = []
    for n in first:
        n2 = suggest(visible, n)
        visible.add(n2)
        final.append(n2)
    return final[:len(m["params"])]


# long parameter names (20-40 bytes): every list-valued accessor of such a method (ArgList, ArgCallList, ...) is
# wider than any plausible line-width threshold (60/80/100/120 bytes)
LONGNAMES = ["requestContextWithDeadline", "destinationBucketIdentifier", "optionalTransformations", "sourceObjectVersionMarker",
             "maximumNumberOfRetryAttempts", "callerSuppliedCorrelationToken", "partialResultAccumulatorBuffer", "serverSideEncryptionSettings",
             "conditionalRequestPrecondition", "intermediateCertificateChainBundle", "downstreamNotificationRecipients",
             "fallbackRegionPreferenceOrder", "exponentialBackoffConfiguration", "additionalDiagnosticAttachments",
             "replicationAcknowledgementQuorumSize", "temporaryCredentialsExpirationTime"]
LONG_VARIADIC = ["any", "interface{}", "any", "interface{}", "string", "T"]


def gen_long_method(rng, name):
    """3-8 parameters with long names, variadic (...any / ...interface{} / ...string / ...T) or not."""
    np = rng.randint(3, 8)
    variadic = rng.random() < 0.65
    names = rng.sample(LONGNAMES, np)
    while sum(len(x) + 2 for x in names) < 130:          # wider than a 120-byte threshold as well
        names.append(rng.choice([x for x in LONGNAMES if x not in names]))
    np = len(names)
    params = []
    for i, nm in enumerate(names):
        last_var = variadic and i == np - 1
        t = TYPE[rng.choice(LONG_VARIADIC)] if last_var else rng.choice(TYPES)
        params.append({"name": nm, "type": t[0], "max": t[2], "variadic": last_var})
    results = []
    for i in range(rng.choice([0, 1, 1, 2])):
        t = rng.choice(TYPES)
        results.append({"name": None, "type": t[0], "max": t[2]})
    m = {"name": name, "params": params, "results": results, "variadic": variadic, "long": True}
    m["resolved"] = resolved_names(m)
    return m


def gen_collide_method(rng, name):
    """Unnamed / `_` parameters of local and foreign types named Mock / CallInfo (generated names would be the template's own
    `mock` / `callInfo`), variadic too, and parameters NAMED like other members of the generated mock (calls, lock<M>)."""
    np = rng.randint(1, 4)
    variadic = rng.random() < 0.35
    style = rng.choice(["unnamed", "unnamed", "underscore", "underscore", "named"])
    named_pool = ["calls", "lock" + name, "lockA", "callsParam", "mockParam", "callInfoParam", "s", "n"]
    rng.shuffle(named_pool)
    params = []
    for i in range(np):
        last_var = variadic and i == np - 1
        t = rng.choice([x for x in COLLIDE_TYPES if x[3]] if last_var else COLLIDE_TYPES + [TYPE["string"], TYPE["int"]])
        nm = None if style == "unnamed" else "_" if style == "underscore" and (t in COLLIDE_TYPES or rng.random() < 0.3) else named_pool[i]
        params.append({"name": nm, "type": t[0], "max": t[2], "variadic": last_var})
    results = []
    for i in range(rng.choice([0, 1, 1, 2])):
        t = rng.choice([TYPE["Mock"], TYPE["CallInfo"], TYPE["error"], TYPE["int"], TYPE["*Mock"]])
        results.append({"name": None, "type": t[0], "max": t[2]})
    m = {"name": name, "params": params, "results": results, "variadic": variadic, "collide": True}
    m["resolved"] = resolved_names(m)
    if len({exported(x) for x in m["resolved"]}) != len(m["resolved"]):
        return gen_collide_method(rng, name)
    return m


# parameter names a template author might pick for locals of the generated method body
SHADOW_NAMES = ["impl", "fn", "f", "ok", "ret", "result", "res", "call", "calls", "info", "lock", "args", "v", "m"]


def gen_shadow_method(rng, name):
    """Parameters NAMED like plausible template locals and typed any / interface{} / a func type, so that a local of the
    generated body shadowing the parameter would still compile - and <M>Func would receive the local instead of the argument."""
    np = rng.randint(1, 4)
    names = rng.sample(SHADOW_NAMES, np)
    params = []
    for nm in names:
        ty = rng.choice(["any", "interface{}", "any", "interface{}", "func() int", "func(int) string"])
        params.append({"name": nm, "type": ty, "max": TYPE[ty][2], "variadic": False})
    if rng.random() < 0.25:
        params[-1].update(type=rng.choice(["any", "interface{}"]), variadic=True)
    results = []
    for i in range(rng.choice([0, 0, 1, 1, 2])):
        t = rng.choice([TYPE["any"], TYPE["error"], TYPE["int"], TYPE["interface{}"]])
        results.append({"name": None, "type": t[0], "max": t[2]})
    m = {"name": name, "params": params, "results": results, "variadic": params[-1]["variadic"], "shadow": True}
    m["resolved"] = resolved_names(m)
    if len({exported(x) for x in m["resolved"]}) != len(m["resolved"]) or m["resolved"] != names:
        return gen_shadow_method(rng, name)
    return m


def gen_ref_method(rng, name):
    """io.Reader-shaped methods and relatives: slice (also named slice types, variadics of slices), map and pointer
    parameters - the user function must get the caller's very slice / map / pointer, not an equal copy."""
    def mk(params, results, variadic=False):
        m = {"name": name, "params": params, "results": results, "variadic": variadic, "ref": True}
        m["resolved"] = resolved_names(m)
        return m
    def P(nm, ty, variadic=False):
        return {"name": nm, "type": ty, "max": TYPE[ty][2], "variadic": variadic}
    R = lambda ty: {"name": None, "type": ty, "max": TYPE[ty][2]}
    if rng.random() < 0.4:
        return mk([P("p", "[]byte")], [R("int"), R("error")])                     # Read(p []byte) (int, error)
    np = rng.randint(1, 3)
    variadic = rng.random() < 0.4
    names = rng.sample(["p", "dst", "buf", "out", "m", "names", "x"], np) if rng.random() < 0.7 else [None] * np
    params = []
    for i in range(np):
        last_var = variadic and i == np - 1
        t = rng.choice([x for x in REF_TYPES if x[3]] if last_var else REF_TYPES)
        params.append(P(names[i], t[0], last_var))
    m = mk(params, [R(rng.choice(["int", "error"])) for _ in range(rng.choice([0, 1, 2]))], variadic)
    if len({exported(x) for x in m["resolved"]}) != len(m["resolved"]):
        return gen_ref_method(rng, name)
    return m


def gen_iface(rng, name, generic):
    nm = rng.randint(1, 5)
    names = rng.sample(MNAMES, nm)
    if rng.random() < 0.5 and nm >= 2:          # two methods sharing their parameter list
        ms = [gen_method(rng, names[0], generic)]
        twin = json.loads(json.dumps(ms[0]))
        twin["name"] = names[1]
        ms.append(twin)
        ms += [gen_method(rng, n, generic) for n in names[2:]]
    else:
        ms = [gen_method(rng, n, generic) for n in names]
    if rng.random() < 0.45:
        ms.append(gen_long_method(rng, rng.choice(["Transfer", "Dispatch", "Replicate"])))
    if rng.random() < 0.45:
        ms.append(gen_ref_method(rng, rng.choice(["Read", "Write", "Fill"])))
    if rng.random() < 0.45:
        ms.append(gen_shadow_method(rng, rng.choice(["Handle", "Invoke", "Visit"])))
    if rng.random() < 0.35:
        # "Calls" is also a member-like method name: the mock then has CallsFunc, Calls(), CallsCalls()
        ms.append(gen_collide_method(rng, rng.choice(["Register", "Audit", "Calls"])))
    return {"name": name, "generic": generic, "methods": ms}


def gen_pkg(rng, idx, opts):
    ifaces = []
    for k in range(rng.randint(2, 3)):
        generic = opts["skip-ensure"] and rng.random() < 0.35      # generic ensure lines do not compile (C01)
        ifaces.append(gen_iface(rng, ("G%d" if generic else "I%d") % k, generic))
    return {"name": "p%d" % idx, "opts": opts, "structpat": rng.choice(["Moq%s", "%sMock", "Stub%sImpl"]), "ifaces": ifaces}


def gen_mixed_pkg(rng, idx):
    """One output file holding 2-4 mocks whose skip-ensure / stub-impl / with-resets DIFFER per mock: several interfaces
    with their own `config`, and interfaces mocked several times through `configs` entries (distinct struct names)."""
    ifaces = []
    for k in range(rng.randint(1, 3)):
        generic = rng.random() < 0.25
        ifaces.append(gen_iface(rng, ("G%d" if generic else "I%d") % k, generic))
    base = dict(rng.choice(COMBOS))
    mocks, pats = [], ["Moq%s", "%sMock", "Stub%sImpl", "Moq%sB", "Alt%s", "%sV2"]
    n = rng.randint(max(2, len(ifaces)), 4)
    slots = list(range(len(ifaces))) + [rng.randrange(len(ifaces)) for _ in range(n - len(ifaces))]
    per = {}
    for k in slots:
        per[k] = per.get(k, 0) + 1
    for k in sorted(per):
        via = "configs" if per[k] > 1 or rng.random() < 0.4 else "config"
        for j, pat in enumerate(rng.sample(pats, per[k])):
            mocks.append({"iface": ifaces[k]["name"], "structpat": pat, "opts": dict(base), "via": via})
    # every option is THREE-valued per mock: true, explicit false, or unset at every level (no key; no template-data
    # at all when all three are unset); effective value of unset = false.  In most files an option is unset for one
    # mock and true for another (the position of either in the generated file is mockery's; both orders occur).
    for key in ("stub-impl", "with-resets", "skip-ensure"):
        vals = [rng.choice([True, False, None]) for _ in mocks]
        if rng.random() < 0.75:
            i, j = rng.sample(range(len(mocks)), 2)
            vals[i], vals[j] = None, True
        for m, v in zip(mocks, vals):
            m.setdefault("raw", {})[key] = v
    for m in mocks:
        if next(it for it in ifaces if it["name"] == m["iface"])["generic"]:
            m["raw"]["skip-ensure"] = True          # generic ensure lines do not compile (C01)
        m["opts"] = {k: bool(v) for k, v in m["raw"].items()}
    return {"name": "p%d" % idx, "opts": base, "structpat": "Moq%s", "ifaces": ifaces, "level": "mixed", "mocks": mocks}


def views(pkg):
    """The mocks of a package as (package view, interface): a view carries the options and struct name of ONE mock."""
    if not pkg.get("mocks"):
        return [(pkg, it) for it in pkg["ifaces"]]
    byname = {it["name"]: it for it in pkg["ifaces"]}
    return [(dict(pkg, opts=m["opts"], structpat=m["structpat"], via=m["via"]), byname[m["iface"]]) for m in pkg["mocks"]]


def render_pkg(pkg):
    out = ["package %s" % pkg["name"], ""]
    if any("ext." in v["type"] for it in pkg["ifaces"] for m in it["methods"] for v in m["params"] + m["results"]):
        out += ['import "%s/ext"' % MOD, ""]
    out += ["type T struct{ X int }", "type MyInt int", "type Mock struct{ X int }", "type CallInfo struct{ X int }",
            "type Bytes []byte", "type Names []string", ""]
    for it in pkg["ifaces"]:
        out.append("type %s%s interface {" % (it["name"], "[K comparable, V any]" if it["generic"] else ""))
        for m in it["methods"]:
            ps = []
            for p in m["params"]:
                ty = ("..." + p["type"]) if p["variadic"] else p["type"]
                ps.append(ty if p["name"] is None else "%s %s" % (p["name"], ty))
            rs = [r["type"] if r["name"] is None else "%s %s" % (r["name"], r["type"]) for r in m["results"]]
            out.append("\t%s(%s) (%s)" % (m["name"], ", ".join(ps), ", ".join(rs)) if rs else "\t%s(%s)" % (m["name"], ", ".join(ps)))
        out.append("}")
        out.append("")
    return "\n".join(out)


def struct_name(pkg, it):
    return pkg["structpat"] % it["name"]


def mock_key(pkg, it):
    return "%s.%s" % (pkg["name"], struct_name(pkg, it))


def build_module(ctx, pkgs, tag="mod", driver="drv_matryer", race=False):
    """Write the scratch module, run the freshly built mockery on it, build the driver.  Returns (binary, error).
    pkg["level"] = "package" (default): template-data under the package's config;  "interface": the same
    template-data under every interface's own config (the most specific level) and nothing at package level.
    pkg["template"] = "matryer" (default) | "testify"."""
    mod = ctx.scratch / tag
    shutil.rmtree(mod, ignore_errors=True)
    (mod / "drv").mkdir(parents=True)
    (mod / "go.mod").write_text("module %s\n\ngo 1.23\n\nrequire github.com/stretchr/testify v1.10.0\n" % MOD)
    shutil.copy(REPO / "go.sum", mod / "go.sum")
    (mod / "ext").mkdir()
    (mod / "ext" / "ext.go").write_text("package ext\n\ntype Mock struct{ X int }\ntype CallInfo struct{ X int }\n")
    cfg = ["template: matryer", "filename: mocks_gen.go", 'pkgname: "{{.SrcPackageName}}"', 'dir: "{{.InterfaceDir}}"',
           "force-file-write: true", "packages:"]
    reg = ["package main", "", "import ("]
    for pkg in pkgs:
        (mod / pkg["name"]).mkdir()
        (mod / pkg["name"] / "iface.go").write_text(render_pkg(pkg))
        td = ["%s: %s" % (k, "true" if v else "false") for k, v in sorted(pkg["opts"].items())]
        cfg += ["  %s/%s:" % (MOD, pkg["name"]), "    config:",
                "      template: %s" % pkg.get("template", "matryer"),
                '      structname: "%s"' % (pkg["structpat"] % "{{.InterfaceName}}")]
        if pkg.get("mocks"):
            cfg += ["    interfaces:"]
            for it in pkg["ifaces"]:
                ms = [m for m in pkg["mocks"] if m["iface"] == it["name"]]
                cfg += ["      %s:" % it["name"]]
                if ms[0]["via"] == "configs":
                    cfg += ["        configs:"]
                    for m in ms:
                        cfg += ['          - structname: "%s"' % (m["structpat"] % it["name"])]
                        td = ["%s: %s" % (k, "true" if v else "false") for k, v in sorted(m.get("raw", m["opts"]).items()) if v is not None]
                        if td:
                            cfg += ["            template-data:"] + ["              " + x for x in td]
                else:
                    cfg += ["        config:", '          structname: "%s"' % (ms[0]["structpat"] % it["name"])]
                    td = ["%s: %s" % (k, "true" if v else "false") for k, v in sorted(ms[0].get("raw", ms[0]["opts"]).items()) if v is not None]
                    if td:
                        cfg += ["          template-data:"] + ["            " + x for x in td]
        elif pkg.get("level", "package") == "package":
            cfg += ["      all: true"]
            if td:
                cfg += ["      template-data:"] + ["        " + x for x in td]
        else:
            cfg += ["    interfaces:"]
            for it in pkg["ifaces"]:
                cfg += ["      %s:" % it["name"], "        config:", "          template-data:"] + ["            " + x for x in td]
        if not pkg.get("witness"):
            reg.append('\t%s "%s/%s"' % (pkg["name"], MOD, pkg["name"]))
    reg += [")", "", "func init() {"]
    for pkg in pkgs:
        if pkg.get("witness"):
            continue             # known-finding witnesses are only compiled (on their own), never linked into the driver
        for v, it in views(pkg):
            inst = "[string, int]" if it["generic"] else ""
            reg.append('\tregistry["%s"] = func() any { return &%s.%s%s{} }' % (mock_key(v, it), pkg["name"], struct_name(v, it), inst))
            if pkg.get("template") == "testify":      # a typed, reflection-free EXPECT() call (reflect's caches synchronise goroutines)
                reg.append('\texpectFns["%s"] = func(m any) { m.(*%s.%s%s).EXPECT() }' % (mock_key(v, it), pkg["name"], struct_name(v, it), inst))
    reg.append("}")
    (mod / ".mockery.yml").write_text("\n".join(cfg) + "\n")
    (mod / "drv" / "registry.go").write_text("\n".join(reg) + "\n")
    shutil.copy(VERIF / "harness" / "go" / driver / "main.go", mod / "drv" / "main.go")
    env = go_env({"GOFLAGS": "-mod=mod"})
    p = run([ctx.bins["mockery"]], cwd=mod, env=env, timeout=1800)
    if p.returncode != 0:
        return None, "mockery failed: " + (p.stdout + p.stderr).decode(errors="replace")[-3000:]
    for pkg in pkgs:
        if pkg.get("witness"):
            pw = run(["go", "build", "./" + pkg["name"]], cwd=mod, env=env, timeout=1800)
            pkg["witness_result"] = {"compiles": pw.returncode == 0, "stderr": pw.stderr.decode(errors="replace")[-2000:]}
    p = run(["go", "build"] + (["-race"] if race else []) + ["-o", str(mod / "drv.bin"), "./drv"], cwd=mod, env=env, timeout=1800)
    if p.returncode != 0:
        return None, "generated mocks or driver do not compile: " + p.stderr.decode(errors="replace")[-3000:]
    return str(mod / "drv.bin"), None


def gen_tok(rng, mx):
    return rng.choice([0, 0, 1, mx, rng.randint(0, mx), rng.randint(0, mx)])


def gen_history(rng, it, n, malformed=False):
    ops, ms = [], it["methods"]
    nkeep = 0
    for m in ms:                       # most mocks start configured
        if rng.random() < 0.7:
            ops.append(gen_set(rng, m, ms))
    while len(ops) < n:
        m = rng.choice(ms)
        r = rng.random()
        if malformed and r < 0.08:
            ops.append(rng.choice([{"op": "call", "m": "Zz", "fixed": [], "var": "none", "elems": [], "nilslice": False},
                                   {"op": "calls", "m": "Zz"}, {"op": "resetm", "m": "Zz"},
                                   {"op": "set", "m": "Zz", "beh": "nil", "res": [], "nested": []},
                                   dict(gen_call(rng, m), fixed=[1] * (len(m["params"]) + 1))]))
        elif r < 0.5:
            ops.append(gen_call(rng, m))
        elif r < 0.68:
            ops.append(gen_set(rng, m, ms))
        elif r < 0.74:
            ops.append({"op": "calls", "m": m["name"]})
        elif r < 0.80:
            # keep the result of <M>Calls(), disturb the mock (reset, more calls), look at the kept result again
            nkeep += 1
            ops.append({"op": "calls", "m": m["name"], "keep": nkeep})
            ops.append(rng.choice([{"op": "resetm", "m": m["name"]}, {"op": "resetall"}, {"op": "resetm", "m": m["name"]}]))
            ops += [gen_call(rng, m) for _ in range(rng.randint(1, 3))]
            ops.append({"op": "recheck", "keep": nkeep})
        elif r < 0.86:
            if nkeep:
                ops.append({"op": "recheck", "keep": rng.randint(1, nkeep)})
            else:
                ops.append({"op": "calls", "m": m["name"]})
        elif r < 0.94:
            ops.append({"op": "resetm", "m": m["name"]})
        else:
            ops.append({"op": "resetall"})
    return ops


def gen_nested(rng, m, ms):
    """Operations a user function performs on the mock while it is serving a call of m."""
    out = []
    for _ in range(rng.choice([1, 1, 2, 3])):
        t = m if rng.random() < 0.6 else rng.choice(ms)      # mostly the method being served (re-entrancy)
        r = rng.random()
        if r < 0.4:
            out.append({"op": "calls", "m": t["name"]})
        elif r < 0.65:
            out.append(gen_call(rng, t))
        elif r < 0.85:
            out.append({"op": "resetm", "m": t["name"]})
        else:
            out.append({"op": "resetall"})
    return out


def gen_set(rng, m, ms=None):
    r = rng.random()
    if r < 0.22:
        return {"op": "set", "m": m["name"], "beh": "nil", "res": [], "nested": []}
    nested = gen_nested(rng, m, ms) if ms and rng.random() < 0.4 else []
    # nested calls recurse for ever unless the function is of the "only on the first attempt" kind
    first = bool(nested) and rng.random() < (0.85 if any(x["op"] == "call" for x in nested) else 0.3)
    if r < 0.32:
        return {"op": "set", "m": m["name"], "beh": "panic", "res": [], "nested": nested, "first": first}
    return {"op": "set", "m": m["name"], "beh": "const", "res": [gen_tok(rng, x["max"]) for x in m["results"]], "nested": nested, "first": first}


def gen_call(rng, m):
    ps = m["params"]
    fixed = [gen_tok(rng, p["max"]) for p in ps if not p["variadic"]]
    op = {"op": "call", "m": m["name"], "fixed": fixed, "var": "none", "elems": [], "nilslice": False}
    if m["variadic"]:
        mx = ps[-1]["max"]
        r = rng.random()
        k = rng.choice([0, 0, 1, 2, 3])
        if r < 0.6:
            op.update(var="elems", elems=[gen_tok(rng, mx) for _ in range(k)])
        elif r < 0.75:
            op.update(var="spread", nilslice=True)
        else:
            op.update(var="spread", elems=[gen_tok(rng, mx) for _ in range(k)])
    return op


# ---------------------------------------------------------------- implementation
def run_impl(binary, jobs, watchdog_ms=None):
    env = dict(os.environ, DRV_WATCHDOG_MS=str(watchdog_ms)) if watchdog_ms else None
    p = run([binary], inp=json.dumps(jobs).encode(), timeout=3600, env=env)
    if p.returncode != 0:
        raise RuntimeError("drv_matryer failed: " + p.stderr.decode(errors="replace")[-2000:])
    return json.loads(p.stdout)


def packed(m, op):
    """The argument tuple as the method body sees it (None = not a well-typed call)."""
    nfix = len(m["params"]) - (1 if m["variadic"] else 0)
    if len(op["fixed"]) != nfix or (op["var"] != "none") != m["variadic"]:
        return None
    vals = list(op["fixed"])
    if m["variadic"]:
        if op["var"] == "elems":
            vals.append(list(op["elems"]) if op["elems"] else None)
        else:
            vals.append(None if op["nilslice"] else list(op["elems"]))
    return vals


# ---------------------------------------------------------------- oracle: the property text on the observed trace
FUEL = 3          # Harness/C04.v FUEL, drv_matryer FUEL


class OutOfFuel(Exception):
    pass


class Expect:
    """What the property text says must be observed, step by step: per method the function stored by the
    test and the argument tuples of the calls made since the last reset.  A running user function may itself
    read Calls(), call methods and reset (its "nested" list); those act on the same bookkeeping, the record of
    the running call being there already."""

    def __init__(self, pkg, it):
        self.ms = {m["name"]: m for m in it["methods"]}
        self.stub, self.resets = pkg["opts"]["stub-impl"], pkg["opts"]["with-resets"]
        self.func = {n: None for n in self.ms}
        self.made = {n: [] for n in self.ms}
        self.kept = {}

    def op(self, op, fuel, seen):
        k, m = op["op"], self.ms.get(op.get("m"))
        if k == "recheck":
            return self.kept.get(op["keep"], {"k": "nomethod"})
        if k != "resetall" and m is None:
            return {"k": "nomethod"}
        if k == "set":
            self.func[m["name"]] = op if op["beh"] != "nil" else None
            return {"k": "unit"}
        if k == "calls":
            x = {"k": "records", "tuples": [list(t) for t in self.made[m["name"]]], "method": m}
            if op.get("keep"):
                self.kept[op["keep"]] = x       # a value: nothing that happens later may change it
            return x
        if k in ("resetm", "resetall"):
            if not self.resets:
                return {"k": "nomethod"}
            for n in (self.ms if k == "resetall" else [m["name"]]):
                self.made[n] = []
            return {"k": "unit"}
        # a call
        if fuel == 0:
            raise OutOfFuel()
        vals = packed(m, op)
        if vals is None:
            return {"k": "illtyped"}
        f = self.func[m["name"]]
        if f is None and not self.stub:
            return {"k": "panic", "names": m["name"] + "Func"}     # before anything is recorded (mock_matryer.templ:95-97)
        self.made[m["name"]].append(vals)
        if f is None:
            return {"k": "ret", "res": [0] * len(m["results"])}
        seen.append({"m": m["name"], "args": vals})
        todo = f.get("nested") or []
        if f.get("first"):
            x = self.op({"op": "calls", "m": m["name"]}, fuel - 1, seen)
            seen.append({"nested": x})
            if len(x["tuples"]) != 1:
                todo = []
        for nop in todo:
            x = self.op(nop, fuel - 1, seen)
            seen.append({"nested": x})
        return {"k": "panicuser"} if f["beh"] == "panic" else {"k": "ret", "res": list(f["res"])}


def same_out(exp, got, where, errs):
    """Compare one expected outcome with the observed one."""
    k = got["k"]
    if exp["k"] != k:
        errs.append("%s: expected %s, observed %s%s" % (where, exp["k"], k, " (the operation never returned)" if k == "deadlock" else ""))
        return
    if k == "panic" and exp["names"] not in got.get("msg", ""):
        errs.append("%s: the nil-function panic must name %s, message %r" % (where, exp["names"], got.get("msg")))
    if k == "ret" and (got.get("res") or []) != exp["res"]:
        errs.append("%s: returned %r, expected %r" % (where, got.get("res"), exp["res"]))
    if k == "records":
        tuples = [[f["v"] for f in rec] for rec in got["l"]]
        if tuples != exp["tuples"]:
            if "recheck" in where:
                errs.append("%s: the kept <M>Calls() result now reads %r, it was %r when it was returned (a returned result is a value)" % (where, tuples, exp["tuples"]))
            else:
                errs.append("%s: Calls() = %r, calls made since the last reset: %r" % (where, tuples, exp["tuples"]))
        m = exp["method"]
        want = [exported(p["name"]) if p["name"] not in (None, "_") and p["name"] == r else None for p, r in zip(m["params"], m["resolved"])]
        for rec in got["l"]:
            for f, w in zip(rec, want):
                if w is not None and f["f"] != w:
                    errs.append("%s: field %r for parameter whose exported name is %r" % (where, f["f"], w))


def oracle(pkg, it, hist, outs):
    errs = []
    E = Expect(pkg, it)
    if len(outs) != len(hist):
        return ["truncated trace"]
    for i, (op, o) in enumerate(zip(hist, outs)):
        if o["k"] == "skipped":
            break
        seen = []
        try:
            exp = E.op(op, FUEL, seen)
        except OutOfFuel:
            continue            # unbounded recursion of user functions: outside the property (Go overflows the stack)
        same_out(exp, o, "op %d (%s %s)" % (i, op["op"], op.get("m", "")), errs)
        if o["k"] == "deadlock":
            break
        if op["op"] != "call":
            continue
        got = o.get("inv") or []
        # identity of reference-typed arguments (oracle-only observation; in the model an argument is a value)
        for x in got:
            if x.get("ident"):
                errs.append("op %d: %sFunc did not receive the caller's own slice/map/pointer for parameter(s) %r (same elements, other "
                            "backing array / object): not exactly the call's arguments" % (i, x.get("m"), x["ident"]))
        for y in [o] + [x["nested"] for x in got if x.get("nested")]:
            if y.get("lost_writes"):
                errs.append("op %d: what the user function wrote into its slice/map parameter(s) %r never reached the caller's argument" % (i, y["lost_writes"]))
        einv, ginv = [x for x in seen if "m" in x], [x for x in got if "m" in x]
        if [(x["m"], x["args"]) for x in einv] != [(x["m"], x.get("args") or []) for x in ginv]:
            errs.append("op %d: user functions must run once per call that reaches them, with the call's arguments: expected %r, observed %r" % (
                i, [(x["m"], x["args"]) for x in einv], [(x["m"], x.get("args") or []) for x in ginv]))
        en, gn = [x["nested"] for x in seen if "nested" in x], [x["nested"] for x in got if x.get("nested")]
        if len(en) != len(gn):
            errs.append("op %d: %d nested operations expected to complete, %d observed" % (i, len(en), len(gn)))
        for j, (x, y) in enumerate(zip(en, gn)):
            same_out(x, y, "op %d, nested operation %d of the running function" % (i, j), errs)
    return errs


# ---------------------------------------------------------------- Gallina terms
def cstr(s):
    return coq_bytes(s.encode())


def cval(v):
    if v is None:
        return "VNilSlice"
    if isinstance(v, list):
        return "(VSlice %s)" % coq_list(str(x) for x in v)
    return "(VTok %d)" % v


def mock_term(pkg, it):
    ms = ["{| mname := %s; mparams := %s; mvariadic := %s; mnres := %d |}" % (
        cstr(m["name"]), coq_list(cstr(x) for x in m["resolved"]), coq_bool(m["variadic"]), len(m["results"])) for m in it["methods"]]
    o = pkg["opts"]
    return "{| struct_name := %s; iface_name := %s; methods := %s; mopts := {| skip_ensure := %s; stub_impl := %s; with_resets := %s |} |}" % (
        cstr(struct_name(pkg, it)), cstr(it["name"]), coq_list(ms), coq_bool(o["skip-ensure"]), coq_bool(o["stub-impl"]), coq_bool(o["with-resets"]))


def cargs_term(op):
    if op["var"] == "none":
        v = "NoVar"
    elif op["var"] == "elems":
        v = "(Elems %s)" % coq_list(str(x) for x in op["elems"])
    else:
        v = "(Spread %s)" % ("VNilSlice" if op["nilslice"] else cval(list(op["elems"])))
    return "{| fixed := %s; var := %s |}" % (coq_list(cval(x) for x in op["fixed"]), v)


def nop_term(op):
    k = op["op"]
    if k == "call": return "NCall %s %s" % (cstr(op["m"]), cargs_term(op))
    if k == "calls": return "NCalls %s" % cstr(op["m"])
    if k == "resetm": return "NResetM %s" % cstr(op["m"])
    return "NResetAll"


def op_term(op):
    k = op["op"]
    if k == "call":
        return "HCall %s %s" % (cstr(op["m"]), cargs_term(op))
    if k == "calls":
        return ("HKeep %d %s" % (op["keep"], cstr(op["m"]))) if op.get("keep") else "HCalls %s" % cstr(op["m"])
    if k == "recheck":
        return "HRecheck %d" % op["keep"]
    if k == "resetm":
        return "HResetM %s" % cstr(op["m"])
    if k == "resetall":
        return "HResetAll"
    nested = coq_list(nop_term(x) for x in op.get("nested") or [])
    first = coq_bool(op.get("first"))
    b = "BNil" if op["beh"] == "nil" else "(BPanic %s %s)" % (first, nested) if op["beh"] == "panic" else "(BConst %s %s %s)" % (first, nested, coq_list(cval(x) for x in op["res"]))
    return "HSetFunc %s %s" % (cstr(op["m"]), b)


def recs_term(l):
    return coq_list(coq_list("(%s, %s)" % (cstr(f["f"]), cval(f["v"])) for f in rec) for rec in l)


def out_term(o):
    """The outcome of a nested operation, as a Matryer.out."""
    k = o["k"]
    if k == "unit": return "OUnit"
    if k == "nomethod": return "ONoMethod"
    if k == "illtyped": return "OIllTyped"
    if k == "ret": return "(ORet %s)" % coq_list(cval(x) for x in (o.get("res") or []))
    if k == "panic": return "(OPanicNil %s)" % cstr(o.get("msg", ""))
    if k == "panicuser": return "OPanicUser"
    if k == "records": return "(ORecords %s)" % recs_term(o["l"])
    return "(OPanicNil (B \"<driver: %s>\"))" % k


def inv_term(inv):
    return coq_list(("INest %s" % out_term(x["nested"])) if x.get("nested") else "IInv %s %s" % (cstr(x["m"]), coq_list(cval(a) for a in x.get("args") or []))
                    for x in (inv or []))


def obs_term(o):
    k = o["k"]
    if k == "unit": return "ObUnit"
    if k == "nomethod": return "ObNoMethod"
    if k == "illtyped": return "ObIllTyped"
    if k == "ret": return "ObRet %s %s" % (coq_list(cval(x) for x in (o.get("res") or [])), inv_term(o.get("inv")))
    if k == "panic": return "ObPanicNil %s" % cstr(o.get("msg", ""))
    if k == "panicuser": return "ObPanicUser %s" % inv_term(o.get("inv"))
    if k == "outoffuel": return "ObOutOfFuel %s" % inv_term(o.get("inv"))
    if k == "records": return "ObRecords %s" % recs_term(o["l"])
    return "ObDeadlock"


def case_term(c, outs):
    n = next((i + 1 for i, o in enumerate(outs) if o["k"] == "deadlock"), len(outs))     # nothing was run after a deadlock
    return "{| c_mock := %s; c_ops := %s; c_obs := %s |}" % (
        mock_term(c["pkg"], c["iface"]), coq_list(op_term(o) for o in c["hist"][:n]), coq_list(obs_term(o) for o in outs[:n]))


def describe(c, outs=None):
    it = c["iface"]
    d = {"mock": mock_key(c["pkg"], it), "template-data": c["pkg"]["opts"],
         "template-data-set-at": c["pkg"].get("level", "package") + " level" + (" (%s entry)" % c["pkg"]["via"] if c["pkg"].get("via") else ""),
         "all-mocks-of-the-output-file": [{"struct": m["structpat"] % m["iface"], "interface": m["iface"], "via": m["via"], "template-data": m["opts"],
                                           "template-data-as-written": {k: v for k, v in m.get("raw", m["opts"]).items() if v is not None}}
                                          for m in c["pkg"].get("mocks") or []],
         "interface": (lambda ls: ls[next((i for i, x in enumerate(ls) if x.startswith("type %s" % it["name"])), 0):])(
             [x for x in render_pkg(dict(c["pkg"], ifaces=[it])).split("\n") if x.strip()]),
         "history": [json.dumps(o, sort_keys=True) for o in c["hist"]]}
    if outs is not None:
        d["observed"] = [json.dumps(o, sort_keys=True) for o in outs]
    return d


# ---------------------------------------------------------------- check
COMBOS = [{"skip-ensure": a, "stub-impl": b, "with-resets": c} for a in (False, True) for b in (False, True) for c in (False, True)]


def corpus_pkgs():
    f = VERIF / "corpus" / "C04" / "cases.json"
    cs = json.loads(f.read_text()) if f.exists() else []
    for c in cs:
        for m in c["iface"]["methods"]:
            m.setdefault("resolved", resolved_names(m))
    return cs


def has_deadlock(o):
    return any(x["k"] == "deadlock" for x in o)


CONFIRM_MS = 60000        # second-stage watchdog (first stage: 5 s in drv_matryer)


def confirm_timeouts(binary, cases, outs, stats):
    """A `deadlock` outcome of the main run is only a first-stage verdict (the machine may be overloaded): every such
    history is re-run ALONE in a fresh process with a 60 s watchdog; its outcomes replace the first ones.  At most 3
    confirmations per run (a real deadlock costs the whole watchdog); further ones count as confirmed by class."""
    for i, o in enumerate(outs):
        if not has_deadlock(o):
            continue
        if stats["timeouts_confirmed"] >= 3:
            stats["timeouts_confirmed_by_class"] += 1
            continue
        stats["timeouts_retried"] += 1
        o2 = run_impl(binary, [{"mock": mock_key(cases[i]["pkg"], cases[i]["iface"]), "ops": cases[i]["hist"]}], watchdog_ms=CONFIRM_MS)[0]
        outs[i] = o2
        if has_deadlock(o2):
            stats["timeouts_confirmed"] += 1
        else:
            stats["timeouts_not_confirmed"] += 1


def shrink(binary, c, fails):
    """Greedy deletion keeping the failure; a history that deadlocks is first cut behind the deadlock.  Candidates run
    with a short watchdog; the result is validated alone with a long one and dropped if it does not reproduce."""
    key = mock_key(c["pkg"], c["iface"])
    ops = list(c["hist"])
    o = run_impl(binary, [{"mock": key, "ops": ops}], watchdog_ms=1000)[0]
    dl = next((i for i, x in enumerate(o) if x["k"] == "deadlock"), None)
    if dl is not None and fails(dict(c, hist=ops[:dl + 1]), o[:dl + 1]):
        ops = ops[:dl + 1]
    start = list(ops)
    i = 0
    while i < len(ops):
        cand = dict(c, hist=ops[:i] + ops[i + 1:])
        o = run_impl(binary, [{"mock": key, "ops": cand["hist"]}], watchdog_ms=1000)[0]
        if fails(cand, o):
            ops = cand["hist"]
        else:
            i += 1
    small = dict(c, hist=ops)
    o = run_impl(binary, [{"mock": key, "ops": ops}], watchdog_ms=20000)[0]
    if not fails(small, o):          # a scheduling delay was taken for a failure while shrinking
        small = dict(c, hist=start)
        o = run_impl(binary, [{"mock": key, "ops": start}], watchdog_ms=20000)[0]
    return small, o


def report_compile_failures(ctx, broken_pkgs, err):
    """A generated mock that does not compile is a failing input of C04 itself: none of its methods can be called, so
    nothing is forwarded or recorded.  For up to 3 broken packages the failure is narrowed down to one interface (mock)
    and, if possible, one method, by generating and compiling them alone; the compiler message goes into the replay."""
    def alone(view, it):
        single = {k: v for k, v in view.items() if k not in ("mocks", "via")}
        single.update(name="q0", ifaces=[it], level="package")
        b, e = build_module(ctx, [single], tag="cf")
        return single, (e if b is None and "do not compile" in (e or "") else None)
    n = 0
    for pkg in broken_pkgs[:3]:
        found = None
        for v, it in views(pkg):
            single, e = alone(v, it)
            if e:
                found = (single, it, e)
                if len(it["methods"]) <= 8:
                    for m in it["methods"]:
                        s1, e1 = alone(v, dict(it, methods=[m]))
                        if e1:
                            found = (s1, s1["ifaces"][0], e1)
                            break
                break
        if found is None:
            v, it = views(pkg)[0]
            found = (dict(v), it, err)
        single, it, msg = found
        lines = [x for x in msg.split("\n") if "mocks_gen.go" in x][:6]
        c = {"pkg": single, "iface": it, "hist": []}
        rp = ctx.write_replay("compile-%s" % pkg["name"], {
            "what": ["the generated mock of this interface does not compile: none of its methods can be called, nothing is forwarded or recorded"] +
                    [re.sub(r"^.*?(mocks_gen\.go)", r"\1", x.strip()) for x in lines],
            "compiler": msg[-3000:], "case": c, "readable": describe(c)})
        ctx.violation(rp)
        n += 1
    return n


WITNESS_ID = "C04-matryer-param-template-local"


def witness_pkg(idx):
    """Input class of the known finding: a parameter NAMED like an identifier of the generated method body (mock, callInfo)."""
    def meth(name, pname, ptype):
        m = {"name": name, "params": [{"name": pname, "type": ptype, "max": 9, "variadic": False}, {"name": "s", "type": "string", "max": 9, "variadic": False}],
             "results": [{"name": None, "type": "error", "max": 9}], "variadic": False}
        m["resolved"] = resolved_names(m)
        return m
    return {"name": "p%d" % idx, "opts": dict(COMBOS[1]), "structpat": "Moq%s", "witness": WITNESS_ID,
            "ifaces": [{"name": "W0", "generic": False, "methods": [meth("A", "mock", "Mock")]},
                       {"name": "W1", "generic": False, "methods": [meth("B", "callInfo", "int")]}]}


def judge_witness(ctx, pkg):
    known = [k for k in load_known("C04") if k["id"] == pkg["witness"]]
    res = pkg.get("witness_result") or {}
    if known and not res.get("compiles", True) and re.search(known[0]["symptom"], res.get("stderr", "")):
        ctx.known("%s: a parameter named mock / callInfo: the generated matryer mock does not compile (%s)" % (
            pkg["witness"], re.search(known[0]["symptom"], res["stderr"]).group(0)))
        return True
    rp = ctx.write_replay("known-finding-changed", {
        "what": "the witness of known finding %s no longer shows the listed symptom (compiles: %s); update known/C04.json" % (pkg["witness"], res.get("compiles")),
        "obligation": "known finding bookkeeping for C04", "compiler": res.get("stderr", ""), "source": render_pkg(pkg)})
    ctx.violation(rp, nofail=True)
    return False


def check(ctx, only=None):
    gate = proof_gate(ctx)
    if not ctx.build_tree():
        ctx.write_evidence(gate, 0, 0, "build failed", [])
        return
    if only is not None:
        pkgs = []
        for j, c in enumerate(only):
            for m in c["iface"]["methods"]:
                m.setdefault("resolved", resolved_names(m))
            if c["pkg"].get("mocks"):
                c["pkg"] = dict(c["pkg"], name="p%d" % j)              # the whole output file is part of the case
                for it in c["pkg"]["ifaces"]:
                    for m in it["methods"]:
                        m.setdefault("resolved", resolved_names(m))
            else:
                c["pkg"] = dict(c["pkg"], name="p%d" % j, ifaces=[c["iface"]])
            pkgs.append(c["pkg"])
        cases = only
    else:
        reps = 8 if ctx.thorough() else 4
        pkgs = [gen_pkg(ctx.rng, i, COMBOS[i % 8]) for i in range(8 * reps)]
        for pkg in pkgs[8 * (reps - 1):]:      # one full set of combinations configured per interface (most specific level)
            pkg["level"] = "interface"
        nmix = 24 if ctx.thorough() else 10
        pkgs += [gen_mixed_pkg(ctx.rng, 8 * reps + i) for i in range(nmix)]      # files whose mocks differ in their options
        ngen = len(pkgs)
        pkgs.append(witness_pkg(len(pkgs)))          # witness stream of the known finding (compiled alone, never driven)
        nh, hl = (12, 60) if ctx.thorough() else (4, 40)
        cases = []
        for c in corpus_pkgs():
            j = len(pkgs)
            c["pkg"] = dict(c["pkg"], name="p%d" % j, ifaces=[c["iface"]])
            pkgs.append(c["pkg"])
            cases.append(c)
        for pkg in pkgs[:ngen]:
            for v, it in views(pkg):
                for h in range(nh if not pkg.get("mocks") else max(2, nh // 2)):
                    cases.append({"pkg": v, "iface": it, "hist": gen_history(ctx.rng, it, hl if h else 2 * hl, malformed=(h == nh - 1))})
    binary, err = build_module(ctx, pkgs)
    compile_violations = 0
    if binary is None and "do not compile" in err:
        # some generated files do not compile: report them (failing inputs) and go on with the packages that do
        broken = set(re.findall(r"\b(p\d+)/mocks_gen\.go", err))
        if broken:
            bad_pkgs = [p for p in pkgs if p["name"] in broken]
            cases = [c for c in cases if c["pkg"]["name"] not in broken]
            pkgs = [p for p in pkgs if p["name"] not in broken]
            if [p for p in pkgs if not p.get("witness")]:
                binary, err = build_module(ctx, pkgs)
            compile_violations = report_compile_failures(ctx, bad_pkgs, err or "")
            if binary is None and compile_violations:
                ctx.write_evidence(gate, 0, 0, "every generated mock failed to compile", [], extra={"compile_failures": sorted(broken)})
                return
    if binary is None:
        rp = ctx.write_replay("generate", {"what": err, "obligation": "correspondence for C04: the generated matryer mocks of the generator's "
                                           "interface class (kept inside the class that compiles) no longer generate/compile",
                                           "packages": [render_pkg(p) for p in pkgs][:4]})
        ctx.violation(rp, nofail=True)
        ctx.write_evidence(gate, 0, 0, "generation failed", [])
        return
    outs = run_impl(binary, [{"mock": mock_key(c["pkg"], c["iface"]), "ops": c["hist"]} for c in cases])
    tstats = {"timeouts_first_stage": sum(has_deadlock(o) for o in outs), "timeouts_retried": 0, "timeouts_confirmed": 0,
              "timeouts_not_confirmed": 0, "timeouts_confirmed_by_class": 0}
    confirm_timeouts(binary, cases, outs, tstats)
    oracle_fail = {i: e for i, (c, o) in enumerate(zip(cases, outs)) for e in [oracle(c["pkg"], c["iface"], c["hist"], o)] if e}
    bad, errs = coq_mismatches(ctx, HM, [case_term(c, o) for c, o in zip(cases, outs)], shard=40)
    for i in sorted(oracle_fail)[:3]:
        small, so = shrink(binary, cases[i], lambda cc, oo: bool(oracle(cc["pkg"], cc["iface"], cc["hist"], oo)))
        rp = ctx.write_replay("oracle-%d" % i, {"what": oracle(small["pkg"], small["iface"], small["hist"], so) or oracle_fail[i],
                                                 "case": {"pkg": small["pkg"], "iface": small["iface"], "hist": small["hist"]},
                                                 "readable": describe(small, so)})
        ctx.violation(rp)
    for pkg in pkgs:
        if pkg.get("witness"):
            judge_witness(ctx, pkg)
    oracle_fail_any = bool(oracle_fail) or bool(compile_violations)
    if not gate["ok"] and not oracle_fail_any:
        ctx.violation(gate["replay"], nofail=True)
    if (bad or errs) and not oracle_fail_any:
        detail = []
        for i in bad[:3]:
            def fails(cc, oo):
                b2, e2 = coq_mismatches(ctx, HM, [case_term(cc, oo)])
                return bool(b2 or e2)
            if len(bad) < 20:
                small, so = shrink(binary, cases[i], fails)
            else:
                small, so = cases[i], outs[i]
            exp = coq_show(ctx, HM, "model_obs (%s)" % case_term(small, so))
            detail.append({"case": {"pkg": small["pkg"], "iface": small["iface"], "hist": small["hist"]},
                           "readable": describe(small, so), "model_expected": exp})
        rp = ctx.write_replay("correspondence", {
            "what": "model Mock/Matryer.v and the freshly generated matryer mocks disagree; the direct oracle found no failing history among %d" % len(cases),
            "obligation": "correspondence Harness/C04.v check_case (per step: returned values, what the user function received, "
                          "Calls() records field by field incl. field names, panic message)",
            "mismatching_cases": len(bad), "coq_errors": errs, "examples": detail})
        ctx.violation(rp, nofail=True)
    # evidence
    def nontrivial(o):
        return any(x["k"] == "records" and len(x["l"]) >= 2 for x in o)
    distinct = len({json.dumps([mock_term(c["pkg"], c["iface"]), c["hist"]], sort_keys=True) for c, o in zip(cases, outs) if nontrivial(o)})
    hist = {"ops": {}, "outcomes": {}, "params_per_method": {}, "results_per_method": {}, "param_style": {}, "options": {},
            "types": {}, "template_local_like_parameter_names": {}, "reference_argument_methods": {}, "template_identifier_collision_methods": {}, "long_name_methods": {}, "long_name_call_list_bytes": {}, "option_level": {}, "nested_ops_in_installed_funcs": {}, "nested_outcomes": {}, "variadic_methods": 0, "generic_interfaces": 0, "methods": 0, "interfaces": 0}
    hist["mocks_per_mixed_file"], hist["mixed_via"], hist["mixed_option_values"] = {}, {}, {}
    for pkg in pkgs:
        for v, _ in views(pkg):
            key = ",".join(k for k, x in sorted(v["opts"].items()) if x) or "none"
            hist["options"][key] = hist["options"].get(key, 0) + 1
        lv = pkg.get("level", "package")
        hist["option_level"][lv] = hist["option_level"].get(lv, 0) + 1
        if pkg.get("mocks"):
            n = str(len(pkg["mocks"]))
            hist["mocks_per_mixed_file"][n] = hist["mocks_per_mixed_file"].get(n, 0) + 1
            for m in pkg["mocks"]:
                hist["mixed_via"][m["via"]] = hist["mixed_via"].get(m["via"], 0) + 1
                for k, v in m.get("raw", {}).items():
                    kk = "%s=%s" % (k, "unset" if v is None else str(v).lower())
                    hist["mixed_option_values"][kk] = hist["mixed_option_values"].get(kk, 0) + 1
                if m.get("raw") and all(v is None for v in m["raw"].values()):
                    hist["mixed_option_values"]["no template-data key at all"] = hist["mixed_option_values"].get("no template-data key at all", 0) + 1
        for it in pkg["ifaces"]:
            hist["interfaces"] += 1
            hist["generic_interfaces"] += it["generic"]
            for m in it["methods"]:
                hist["methods"] += 1
                hist["variadic_methods"] += m["variadic"]
                if m.get("collide"):
                    hist["template_identifier_collision_methods"]["methods"] = hist["template_identifier_collision_methods"].get("methods", 0) + 1
                    for prm in m["params"]:
                        key = ("unnamed " if prm["name"] is None else "_ " if prm["name"] == "_" else "named %s " % prm["name"] if prm["name"] in ("calls", "callsParam", "mockParam", "callInfoParam") or prm["name"].startswith("lock") else "") + \
                              ("..." if prm["variadic"] else "") + prm["type"]
                        hist["template_identifier_collision_methods"][key] = hist["template_identifier_collision_methods"].get(key, 0) + 1
                if m.get("shadow"):
                    for prm in m["params"]:
                        hist["template_local_like_parameter_names"][prm["name"]] = hist["template_local_like_parameter_names"].get(prm["name"], 0) + 1
                if m.get("ref"):
                    key = "(" + ", ".join(("..." if prm["variadic"] else "") + prm["type"] for prm in m["params"]) + ")"
                    hist["reference_argument_methods"][key] = hist["reference_argument_methods"].get(key, 0) + 1
                if m.get("long"):
                    w = sum(len(x) + 2 for x in m["resolved"]) + (3 if m["variadic"] else 0)
                    key = ("variadic ..." + m["params"][-1]["type"]) if m["variadic"] else "non-variadic"
                    hist["long_name_methods"][key] = hist["long_name_methods"].get(key, 0) + 1
                    hist["long_name_call_list_bytes"]["min"] = min(w, hist["long_name_call_list_bytes"].get("min", w))
                    hist["long_name_call_list_bytes"]["max"] = max(w, hist["long_name_call_list_bytes"].get("max", w))
                for k, v in (("params_per_method", len(m["params"])), ("results_per_method", len(m["results"]))):
                    hist[k][str(v)] = hist[k].get(str(v), 0) + 1
                for p in m["params"]:
                    st = "unnamed" if p["name"] is None else "underscore" if p["name"] == "_" else "named"
                    hist["param_style"][st] = hist["param_style"].get(st, 0) + 1
                    hist["types"][p["type"]] = hist["types"].get(p["type"], 0) + 1
    for c, o in zip(cases, outs):
        for op, x in zip(c["hist"], o):
            hist["ops"][op["op"]] = hist["ops"].get(op["op"], 0) + 1
            for nop in op.get("nested") or []:
                hist["nested_ops_in_installed_funcs"][nop["op"]] = hist["nested_ops_in_installed_funcs"].get(nop["op"], 0) + 1
            for y in x.get("inv") or []:
                if y.get("nested"):
                    hist["nested_outcomes"][y["nested"]["k"]] = hist["nested_outcomes"].get(y["nested"]["k"], 0) + 1
            hist["outcomes"][x["k"]] = hist["outcomes"].get(x["k"], 0) + 1
    ctx.write_evidence(gate, sum(len(c["hist"]) for c in cases), distinct,
                       "seeded histories (40-120 steps: SetFunc/call/Calls()/Reset<M>Calls/ResetCalls; 40% of the installed functions use the mock while running: nested Calls() reads, calls - re-entrant ones included - and resets, every top-level step under a watchdog) replayed on freshly generated mocks of seeded "
                       "interfaces under all 8 template-data combinations; evaluations = executed steps; non-trivial = some Calls() read returned "
                       ">= 2 records; distinct by (mock description, history)",
                       [describe(c, o) for c, o in list(zip(cases, outs))[:2]],
                       extra=dict(tstats, input_histogram=hist, histories=len(cases), model_mismatches=len(bad), oracle_failures=len(oracle_fail)),
                       assumptions=["the generator stays inside the class of interfaces whose matryer mock compiles: no parameter named mock/callInfo/sync/fmt, "
                                    "no two parameters of one method with the same exported name, generic interfaces only with skip-ensure (their ensure line "
                                    "does not compile); those are C01's findings",
                                    "values are tokens: drv_matryer builds a Go value of the parameter's type that carries a small number and decodes it back; "
                                    "func-typed values are identified by calling them"])


def replay(ctx, path):
    d = json.loads(open(path).read())
    cs = [d["case"]] if "case" in d else [e["case"] for e in d.get("examples", [])]
    check(ctx, only=cs)
