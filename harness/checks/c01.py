"""C01 - generated mock files are valid Go in their destination package.

Three layers (see NOTES/C01.md):
  oracle         gen_pkgs modules -> real mockery -> Go toolchain type-checks every written file in its
                 destination package, over templates x formatters x placements x template-data options
  translator     goskel extracts the scoping skeleton of every written file; the Coq kernel re-checks
                 wf_file extracted = true on every run
  correspondence a probe template dumps the template data model of the same configuration; the Coq model
                 (Gen/Skeleton.v: testify_skel / matryer_skel) builds the skeleton from it; it must equal the
                 extracted one (imports, declarations, per declaration the normalised item tree)
"""
import json, os, re, shutil
from common import *
import gen_pkgs

PROBE = VERIF / "harness" / "probes" / "c01_probe.templ"
CORPUS = VERIF / "corpus" / "C01"
TEMPLATES = ["testify", "matryer"]
FORMATTERS = ["goimports", "gofmt", "noop"]
PLACEMENTS = ["inpkg", "testpkg", "separate"]
TESTIFY_PATH = "github.com/stretchr/testify/mock"

# ---- guard lists: mirror coq/Gen/Skeleton.v (tf_taboo, mt_taboo, tmpl_var_names); compared with Coq on every run
TF_TABOO = ["_mock", "_e", "tmpRet", "_va", "_i", "_ca", "returnFunc", "ok", "len", "make", "append", "panic", "nil", "mock"]
MT_TABOO = ["mock", "callInfo", "append", "nil", "panic"]
TMPL_VARS = {"testify": ["_mock", "_m", "_e", "_c", "t", "mock", "tmpRet", "_va", "_i", "_ca", "returnFunc", "ok", "run", "args",
                         "variadicArgs", "i", "a"],
             "matryer": ["mock", "callInfo", "calls"]}
# exported methods and fields of testify's mock.Mock v1.10.0 plus the generated EXPECT: the mock's own API
TESTIFY_API = {"EXPECT", "Mock", "On", "Called", "MethodCalled", "Test", "TestData", "AssertExpectations", "AssertCalled",
               "AssertNotCalled", "AssertNumberOfCalls", "IsMethodCallable", "ExpectedCalls", "Calls"}

STATIC_IFACES = [
    {"name": "LocalIface", "tparams": [], "embeds": [], "exported": True, "static": True,
     "methods": [{"n": "LocalMethod", "sig": {"params": [{"n": "l", "t": gen_pkgs.named("", "Local")}], "variadic": False,
                                               "results": [{"n": "", "t": gen_pkgs.named("", "Key")}, {"n": "", "t": gen_pkgs.basic("error")}]}}]},
    {"name": "Gen", "tparams": [{"n": "T", "c": gen_pkgs.basic("any"), "cmp": False}], "embeds": [], "exported": True, "static": True,
     "methods": [{"n": "Produce", "sig": {"params": [], "variadic": False, "results": [{"n": "", "t": {"k": "tparam", "n": "T"}}]}},
                 {"n": "Consume", "sig": {"params": [{"n": "v", "t": {"k": "tparam", "n": "T"}}], "variadic": False,
                                           "results": [{"n": "", "t": gen_pkgs.basic("error")}]}}]},
]
EMBED_METHODS = {"Reader": ["Read"], "Writer": ["Write"], "LocalIface": ["LocalMethod"], "Context": ["Deadline", "Done", "Err", "Value"],
                 "Handler": ["Handle"], "Gen": ["Produce", "Consume"]}


def envflag(name):
    return os.environ.get(name) == "1"


# =========================================================================================
# static (AST-level) classification: what the property text puts outside the guarantee
# =========================================================================================
def walk_types(t, f):
    f(t)
    k = t["k"]
    if k in ("named", "alias"):
        for a in t["targs"]:
            walk_types(a, f)
    elif k in ("ptr", "slice", "array", "chan"):
        walk_types(t["e"], f)
    elif k == "map":
        walk_types(t["key"], f); walk_types(t["e"], f)
    elif k == "func":
        for p in t["sig"]["params"] + t["sig"]["results"]:
            walk_types(p["t"], f)
    elif k == "struct":
        for x in t["fields"]:
            walk_types(x["t"], f)
    elif k == "iface":
        for m in t["methods"]:
            for p in m["sig"]["params"] + m["sig"]["results"]:
                walk_types(p["t"], f)
        for e in t["embeds"]:
            walk_types(e, f)
    elif k == "union":
        for x in t["terms"]:
            walk_types(x["t"], f)


def iface_types(i, f):
    for tp in i["tparams"]:
        walk_types(tp["c"], f)
    for m in i["methods"]:
        for p in m["sig"]["params"] + m["sig"]["results"]:
            walk_types(p["t"], f)
    for e in i["embeds"]:
        walk_types(e, f)


def all_method_names(i):
    names = [m["n"] for m in i["methods"]]
    for e in i["embeds"]:
        names += EMBED_METHODS.get(e["n"], [])
    return names


def outside_guarantee(i, template, placement, opts):
    """Reasons why the property text itself excludes this interface in this configuration."""
    why = []
    names = all_method_names(i)
    if template == "testify":
        if set(names) & TESTIFY_API:
            why.append("api-collision")
    else:
        helper = {"calls", "ResetCalls"}
        for n in names:
            helper |= {n + "Calls", n + "Func", "lock" + n, "Reset" + n + "Calls"}
        if set(names) & helper:
            why.append("api-collision")
    if placement != "inpkg":
        seen = []

        def unnameable(t):
            # an unexported local type, an anonymous struct with an unexported field, an anonymous interface with an
            # unexported method: none of them can be written down outside the source package
            if t["k"] in ("named", "alias") and t["pkg"] == "" and not t["n"][0].isupper():
                seen.append(t)
            if t["k"] == "struct" and any(not f["emb"] and not f["n"][0].isupper() for f in t["fields"]):
                seen.append(t)
            if t["k"] == "iface" and any(not mm["n"][0].isupper() for mm in t["methods"]):
                seen.append(t)
        iface_types(i, unnameable)
        if seen:
            why.append("unnameable-type")
        if template == "matryer" and not opts.get("skip-ensure"):
            # the ensure line has to name the interface and the mock has to implement it from outside
            if not i["name"][0].isupper() or any(not n[0].isupper() for n in names):
                why.append("unnameable-type")
    return why


def type_hist(m, hist):
    def f(t):
        k = t["k"]
        if k in ("named", "alias"):
            k = k + ("-local" if t["pkg"] == "" else "-generic" if t["targs"] else "-foreign")
        hist[k] = hist.get(k, 0) + 1
    for i in m["ifaces"]:
        iface_types(i, f)
        for tp in i["tparams"]:
            hist["tparam-decl"] = hist.get("tparam-decl", 0) + 1
        for mm in i["methods"]:
            if mm["sig"]["variadic"]:
                hist["variadic-method"] = hist.get("variadic-method", 0) + 1
            hist["method"] = hist.get("method", 0) + 1
        hist["iface"] = hist.get("iface", 0) + 1


# =========================================================================================
# running mockery
# =========================================================================================
def mock_env():
    return go_env({"GOFLAGS": "-mod=mod"})


def write_config(root, cfg, names, probe):
    pl = cfg["placement"]
    src = cfg["src_name"]
    if pl == "inpkg":
        d, pkg = "{{.InterfaceDir}}", src
        fn = cfg["filename"]
    elif pl == "testpkg":
        d, pkg, fn = "{{.InterfaceDir}}", src + "_test", "mocks_ext_test.go"
    else:
        d, pkg, fn = "mocks/" + src, "mocks", "mocks.go"
    if probe:
        fn = "zz_probe.txt"
    lines = []
    if probe:
        lines += ['template: "file://%s"' % PROBE, "require-template-schema-exists: false", "formatter: noop"]
    else:
        lines += ["template: %s" % cfg["template"], "formatter: %s" % cfg["formatter"]]
    lines += ["force-file-write: true", "all: false", 'dir: "%s"' % d, 'pkgname: "%s"' % pkg, 'filename: "%s"' % fn,
              'structname: "%s{{.InterfaceName}}"' % ("Mock" if cfg["template"] == "testify" else "Moq")]
    td = dict(cfg["opts"])
    if td:
        lines.append("template-data:")
        for k, v in sorted(td.items()):
            lines.append("  %s: %s" % (k, json.dumps(v)))
    lines += ["packages:", "  %s:" % cfg["src_path"], "    interfaces:"]
    for n in names:
        lines.append("      %s:" % n)
    (root / ".mockery.yml").write_text("\n".join(lines) + "\n")
    out_dir = root / (src if pl != "separate" else "mocks/" + src)
    return out_dir, fn, pkg


QRE = re.compile(r'"((?:[^"\\]|\\.)*)"')


def parse_probe(text):
    """-> {"pkg","srcq","srcname","imports":[(path,qual)],"ifaces":[{name,struct,tparams:[...],methods:[...]}]}"""
    d = {"imports": [], "ifaces": []}
    complete = False
    for line in text.split("\n"):
        if not line.strip():
            continue
        tag = line[0]
        f = [json.loads('"%s"' % x) for x in QRE.findall(line[1:])]
        if tag == "P":
            d["pkg"], d["srcq"], d["srcname"] = f
        elif tag == "I":
            d["imports"].append((f[0], f[1]))
        elif tag == "F":
            d["ifaces"].append({"name": f[0], "struct": f[1], "tparams": [], "methods": []})
        elif tag == "T":
            d["ifaces"][-1]["tparams"].append({"orig": f[0], "ty": f[1], "constraint": f[2], "decl": f[3]})
        elif tag == "M":
            d["ifaces"][-1]["methods"].append({"name": f[0], "ret": f[1], "ret_exist": f[2:], "params": [], "results": []})
        elif tag == "A":
            d["ifaces"][-1]["methods"][-1]["params"].append({"name": f[0], "ty": f[1], "variadic": f[2] == "1", "nil": f[3] == "1", "exp": f[4]})
        elif tag == "R":
            d["ifaces"][-1]["methods"][-1]["results"].append({"name": f[0], "ty": f[1], "nil": f[3] == "1"})
        elif tag == "E":
            complete = True
    if not complete or "pkg" not in d:
        raise ValueError("incomplete probe output")
    return d


def resolve_types(ctx, pd):
    """Attach goskel's view of every rendered type string of the probe data."""
    todo, slots = [], []

    def want(holder, key, s, con):
        todo.append({"s": s, "con": con}); slots.append((holder, key))
    for i in pd["ifaces"]:
        for t in i["tparams"]:
            want(t, "con_u", t["ty"], True)
            want(t, "ens_u", t["constraint"] or t["ty"], False)
        for m in i["methods"]:
            for p in m["params"] + m["results"]:
                want(p, "u", p["ty"], False)
    if not todo:
        return
    p = run([ctx.bins["goskel"], "types"], inp=json.dumps(todo).encode(), timeout=120)
    if p.returncode != 0:
        raise RuntimeError("goskel types failed: " + p.stderr.decode(errors="replace")[-2000:])
    for (h, k), u in zip(slots, json.loads(p.stdout)):
        h[k] = u


def type_idents(m, tparams):
    q, b = set(), set()
    for p in m["params"] + m["results"]:
        q |= set(p["u"]["quals"]); b |= set(p["u"]["bare"])
    return q, b


def guards_of(pd, cfg):
    """Python mirror of the Coq guard predicates (Gen/Skeleton.v): per interface the list of violated guards.
    The Coq evaluation in the generated case files is authoritative; this one only steers the generators."""
    tmpl, opts = cfg["template"], cfg["opts"]
    quals = [q for _, q in pd["imports"]]
    out = {}
    for i in pd["ifaces"]:
        g = []
        torig = [t["orig"] for t in i["tparams"]]
        if any(t["orig"] != t["decl"] for t in i["tparams"]):
            g.append("c14-tparam-renamed")
        if tmpl == "matryer" and not opts.get("skip-ensure"):
            if pd["srcq"] and (pd["srcname"] not in quals or dict((q, p) for p, q in pd["imports"]).get(pd["srcname"]) != cfg["src_path"]):
                g.append("mt-ensure-import")
            for t in i["tparams"]:
                u = t["ens_u"]
                if not u["ok"] or "comparable" in u["bare"] or set(u["bare"]) & set(torig):
                    g.append("mt-ensure-generic")
        for m in i["methods"]:
            pn = [p["name"] for p in m["params"]]
            rn = [r["name"] for r in m["results"]]
            q, b = type_idents(m, torig)
            for t in i["tparams"]:
                b |= set(t["con_u"]["bare"]); q |= set(t["con_u"]["quals"])
            if (set(pn) | set(rn)) & (q | b | set(torig)):
                g.append("c14-capture")
            tv = set(TMPL_VARS[tmpl]) | ({m["ret"]} | {"r%d" % k for k in range(len(rn))} if tmpl == "testify" else set())
            if (q | b | set(torig)) & tv:
                g.append("type-named-like-template-local")
            if tmpl == "testify":
                if set(pn) & (set(TF_TABOO) | {"r%d" % k for k in range(len(rn))}):
                    g.append("tf-param-local")
                if "_c" in rn:
                    g.append("tf-result-local")
                if m["params"] and m["params"][-1]["variadic"] and len(rn) >= 2 and opts.get("unroll-variadic") is True \
                        and not envflag("C01_VARIADIC_MULTI"):
                    g.append("c03-variadic-multi")
            else:
                if set(pn) & set(MT_TABOO):
                    g.append("mt-param-local")
                ex = [p["exp"] for p in m["params"]]
                if len(set(ex)) != len(ex):
                    g.append("mt-field-collision")
        off = set(os.environ.get("C01_NOGUARD", "").split(","))      # development aid only
        out[i["name"]] = sorted(set(g) - off)
    return out


ERR_RE = re.compile(r"^(?:\S*?)([\w./-]+\.go):(\d+):(\d+): (.*)$")


def go_errors(text):
    errs = []
    for line in text.split("\n"):
        m = ERR_RE.match(line.strip())
        if m:
            errs.append("%s: %s" % (os.path.basename(m.group(1)), m.group(4)))
    return errs


def typecheck(root, cfg, out_dir, fn):
    """go build ./... (and go test -run '^$' on the destination package when the file is a _test.go)."""
    env = mock_env()
    tags = cfg["opts"].get("mock-build-tags")
    targ = ["-tags", tags] if tags else []
    p = run(["go", "build"] + targ + ["./..."], cwd=root, env=env, timeout=600)
    txt = (p.stdout + p.stderr).decode(errors="replace")
    rc = p.returncode
    if fn.endswith("_test.go"):
        rel = "./" + str(out_dir.relative_to(root))
        p2 = run(["go", "test"] + targ + ["-run", "^$", rel], cwd=root, env=env, timeout=900)
        txt += (p2.stdout + p2.stderr).decode(errors="replace")
        rc = rc or p2.returncode
    return rc, txt


def run_mockery(ctx, root):
    p = run([ctx.bins["mockery"]], cwd=root, env=mock_env(), timeout=300)
    return p.returncode, (p.stdout + p.stderr).decode(errors="replace")


def log_errors(txt):
    return [re.sub(r"^\S+ ", "", l)[:300] for l in txt.split("\n") if " ERR " in l or " FTL " in l or l.startswith("panic:")][:8]


def setup_module(ctx, cfg, root):
    shutil.rmtree(root, ignore_errors=True)
    if cfg.get("files") is not None:          # hand-written module (witnesses, corpus)
        root.mkdir(parents=True)
        (root / "go.mod").write_text("module %s\n\ngo 1.23\n\nrequire github.com/stretchr/testify v1.10.0\n" % gen_pkgs.MOD)
        for rel, content in cfg["files"].items():
            p = root / rel
            p.parent.mkdir(parents=True, exist_ok=True)
            p.write_text(content)
    else:
        gen_pkgs.write_module(cfg["module"], root, gomod_line=cfg.get("gomod_line"))
    shutil.copy(REPO / "go.sum", root / "go.sum")
    if cfg["opts"].get("boilerplate-file"):
        (root / "boilerplate.txt").write_text("// Copyright (c) the verification harness.\n// All rights reserved.\n")
        cfg["opts"]["boilerplate-file"] = str(root / "boilerplate.txt")


def run_config(ctx, cfg):
    """One configuration end to end.  Returns a result dict (never raises for implementation failures)."""
    root = ctx.scratch / ("cfg%04d" % cfg["id"])
    res = {"id": cfg["id"], "excluded": {}, "stage": "setup"}
    setup_module(ctx, cfg, root)
    names = list(cfg["candidates"])
    pd = None
    if not cfg.get("no_probe"):
        for _round in range(4):
            if not names:
                res["stage"] = "empty"
                return res
            out_dir, fn, pkg = write_config(root, cfg, names, probe=True)
            rc, txt = run_mockery(ctx, root)
            pf = out_dir / fn
            if rc != 0 or not pf.exists():
                res.update(stage="probe-failed", mockery_rc=rc, mockery_log=log_errors(txt))
                return res
            pd = parse_probe(pf.read_text())
            pf.unlink()
            resolve_types(ctx, pd)
            if cfg.get("witness"):
                break
            g = guards_of(pd, cfg)
            bad = [n for n in names if g.get(n)]
            if not bad:
                break
            for n in bad:
                for why in g[n]:
                    res["excluded"][why] = res["excluded"].get(why, 0) + 1
            names = [n for n in names if n not in bad]
        else:
            res["stage"] = "guards-unstable"
            return res
    res["names"] = names
    res["probe"] = pd
    out_dir, fn, pkg = write_config(root, cfg, names, probe=False)
    rc, txt = run_mockery(ctx, root)
    res["mockery_rc"] = rc
    of = out_dir / fn
    res["file"] = str(of.relative_to(root))
    if rc != 0 or not of.exists():
        res.update(stage="mockery-failed", mockery_log=log_errors(txt), errors=["mockery exit %d: %s" % (rc, "; ".join(log_errors(txt))[:600])])
        return res
    res["source"] = of.read_text(errors="replace")
    pn = root / "pkgnames.json"
    pn.write_text(json.dumps(cfg["pkgnames"]))
    p = run([ctx.bins["goskel"], "file", str(out_dir), fn, str(pn)], timeout=120)
    if p.returncode == 0:
        res["skel"] = json.loads(p.stdout)
    else:
        res["skel_error"] = p.stderr.decode(errors="replace")[-500:]
    rc, txt = typecheck(root, cfg, out_dir, fn)
    res["go_rc"] = rc
    res["errors"] = go_errors(txt) if rc != 0 else []
    if rc != 0 and not res["errors"]:
        res["errors"] = [l for l in txt.split("\n") if l.strip()][:10]
    res["stage"] = "done"
    if not os.environ.get("C01_KEEP"):
        shutil.rmtree(root, ignore_errors=True)
    return res


# =========================================================================================
# configurations
# =========================================================================================
def pkgnames_of(m):
    d = {e["path"]: e["name"] for e in m["ext"]}
    d.update({s["path"]: s["name"] for s in m["std"]})
    d.update({TESTIFY_PATH: "mock", "sync": "sync", "fmt": "fmt", "unsafe": "unsafe", m["src"]["path"]: m["src"]["name"]})
    return d


TESTIFY_OPTS = [{}, {"unroll-variadic": True}, {"unroll-variadic": False}, {"unroll-variadic": True, "boilerplate-file": "x"},
                {"mock-build-tags": "mocktag"}, {"unroll-variadic": False, "mock-build-tags": "mocktag && !never", "boilerplate-file": "x"}]
MATRYER_OPTS = [{}, {"skip-ensure": True}, {"stub-impl": True}, {"with-resets": True}, {"skip-ensure": True, "stub-impl": True, "with-resets": True},
                {"skip-ensure": False, "stub-impl": False, "with-resets": False, "boilerplate-file": "x"},
                {"stub-impl": True, "with-resets": True, "mock-build-tags": "mocktag"}, {"skip-ensure": True, "boilerplate-file": "x", "mock-build-tags": "mocktag"}]


def gen_module(rng, k):
    pools = ("ordinary", "qualifier", "predeclared", "typelike", "case")
    if k % 3 == 1:
        pools = pools + ("template_locals",)       # harmless and harmful template names; harmful ones are excluded by the guards
    g = gen_pkgs.Gen(rng, pools=pools, n_ifaces=(3, 6), n_methods=(0, 4))
    method_names = None
    if k % 5 == 4:                                  # a few method names inside the mocks' own API: outside the guarantee, counted
        method_names = ["Do", "Get", "Put", "Close", "List", "Watch", "Apply", "Len", "String", "Each", "unexp",
                        "EXPECT", "Called", "GetCalls", "ResetCalls", "GetFunc"]
    return g.module(method_names=method_names)


def make_configs(rng, modules, thorough):
    cfgs = []
    for k, m in enumerate(modules):
        combos = [(t, f, p) for t in TEMPLATES for f in FORMATTERS for p in PLACEMENTS]
        for j, (t, f, p) in enumerate(combos):
            optlist = TESTIFY_OPTS if t == "testify" else MATRYER_OPTS
            variants = optlist if thorough else [optlist[(k * 7 + j) % len(optlist)]]
            for o in variants:
                cfgs.append({"module": m, "template": t, "formatter": f, "placement": p, "opts": dict(o),
                             "filename": "mocks_test.go" if (k + j) % 2 == 0 else "mocks.go",
                             "src_name": m["src"]["name"], "src_path": m["src"]["path"], "pkgnames": pkgnames_of(m), "stream": "main"})
    for n, c in enumerate(cfgs):
        c["id"] = n
        ifaces = c["module"]["ifaces"] + STATIC_IFACES
        c["candidates"], c["outside"] = [], {}
        for i in ifaces:
            why = outside_guarantee(i, c["template"], c["placement"], c["opts"])
            if why:
                for w in why:
                    c["outside"][w] = c["outside"].get(w, 0) + 1
            else:
                c["candidates"].append(i["name"])
    return cfgs
