"""C01 - generated mock files are valid Go in their destination package.

Three layers (see NOTES/C01.md):
  oracle         gen_pkgs modules -> real mockery -> Go toolchain type-checks every written file in its
                 destination package, over templates x formatters x placements x template-data options
  translator     goscope extracts the scoping skeleton of every written file; the Coq kernel re-checks
                 wf_file extracted = true on every run
  correspondence a probe template dumps the template data model of the same configuration; the Coq model
                 (Gen/Skeleton.v: testify_skel / matryer_skel) builds the skeleton from it; it must equal the
                 extracted one (imports, declarations, per declaration the normalised item tree)
"""
import json, os, re, shutil
from common import *
import gen_pkgs

PROBE = VERIF / "harness" / "probes" / "c01_probe.templ"
CORPUS = VERIF / "corpus" / "C01"
TEMPLATES = ["testify", "matryer"]
FORMATTERS = ["goimports", "gofmt", "noop"]
PLACEMENTS = ["inpkg", "testpkg", "separate"]
TESTIFY_PATH = "github.com/stretchr/testify/mock"

# ---- guard lists: mirror coq/Gen/Skeleton.v (tf_taboo, mt_taboo, tmpl_var_names); compared with Coq on every run
TF_TABOO = ["_mock", "_e", "tmpRet", "_va", "_i", "_ca", "len", "make", "append", "panic", "nil", "mock"]
MT_TABOO = ["mock", "callInfo", "append", "nil", "panic"]
BUILTINS = ["len", "make", "append", "panic", "nil"]
TMPL_VARS = {"testify": ["_mock", "_m", "_e", "_c", "t", "mock", "tmpRet", "_va", "_i", "_ca", "run", "args", "variadicArgs", "i", "a"],
             "matryer": ["mock", "callInfo", "calls"]}
# exported methods and fields of testify's mock.Mock v1.10.0 plus the generated EXPECT: the mock's own API
TESTIFY_API = {"EXPECT", "Mock", "On", "Called", "MethodCalled", "Test", "TestData", "AssertExpectations", "AssertCalled",
               "AssertNotCalled", "AssertNumberOfCalls", "IsMethodCallable", "ExpectedCalls", "Calls"}

STATIC_IFACES = [
    {"name": "LocalIface", "tparams": [], "embeds": [], "exported": True, "static": True,
     "methods": [{"n": "LocalMethod", "sig": {"params": [{"n": "l", "t": gen_pkgs.named("", "Local")}], "variadic": False,
                                               "results": [{"n": "", "t": gen_pkgs.named("", "Key")}, {"n": "", "t": gen_pkgs.basic("error")}]}}]},
    {"name": "Gen", "tparams": [{"n": "T", "c": gen_pkgs.basic("any"), "cmp": False}], "embeds": [], "exported": True, "static": True,
     "methods": [{"n": "Produce", "sig": {"params": [], "variadic": False, "results": [{"n": "", "t": {"k": "tparam", "n": "T"}}]}},
                 {"n": "Consume", "sig": {"params": [{"n": "v", "t": {"k": "tparam", "n": "T"}}], "variadic": False,
                                           "results": [{"n": "", "t": gen_pkgs.basic("error")}]}}]},
]
EMBED_METHODS = {"Reader": ["Read"], "Writer": ["Write"], "LocalIface": ["LocalMethod"], "Context": ["Deadline", "Done", "Err", "Value"],
                 "Handler": ["Handle"], "Gen": ["Produce", "Consume"]}


SWITCH_DEFAULT = {"C01_VARIADIC_MULTI": "1", "C01_C03_LOCALS": "1", "C01_GOMOD_SPELLINGS": "1"}


def envflag(name):
    """Classes owned by C03 / C09 are part of the main stream since their fixes are committed in /repo
    (C01_VARIADIC_MULTI=0, C01_C03_LOCALS=0, C01_GOMOD_SPELLINGS=0 take them out again)."""
    return os.environ.get(name, SWITCH_DEFAULT.get(name, "0")) == "1"


# =========================================================================================
# static (AST-level) classification: what the property text puts outside the guarantee
# =========================================================================================
def walk_types(t, f):
    f(t)
    k = t["k"]
    if k in ("named", "alias"):
        for a in t["targs"]:
            walk_types(a, f)
    elif k in ("ptr", "slice", "array", "chan"):
        walk_types(t["e"], f)
    elif k == "map":
        walk_types(t["key"], f); walk_types(t["e"], f)
    elif k == "func":
        for p in t["sig"]["params"] + t["sig"]["results"]:
            walk_types(p["t"], f)
    elif k == "struct":
        for x in t["fields"]:
            walk_types(x["t"], f)
    elif k == "iface":
        for m in t["methods"]:
            for p in m["sig"]["params"] + m["sig"]["results"]:
                walk_types(p["t"], f)
        for e in t["embeds"]:
            walk_types(e, f)
    elif k == "union":
        for x in t["terms"]:
            walk_types(x["t"], f)


def iface_types(i, f):
    for tp in i["tparams"]:
        walk_types(tp["c"], f)
    for m in i["methods"]:
        for p in m["sig"]["params"] + m["sig"]["results"]:
            walk_types(p["t"], f)
    for e in i["embeds"]:
        walk_types(e, f)


def all_method_names(i):
    names = [m["n"] for m in i["methods"]]
    for e in i["embeds"]:
        names += EMBED_METHODS.get(e["n"], [])
    return names


def outside_guarantee(i, template, placement, opts):
    """Reasons why the property text itself excludes this interface in this configuration."""
    why = []
    names = all_method_names(i)
    if template == "testify":
        if set(names) & TESTIFY_API:
            why.append("api-collision")
    else:
        helper = {"calls", "ResetCalls"}
        for n in names:
            helper |= {n + "Calls", n + "Func", "lock" + n, "Reset" + n + "Calls"}
        if set(names) & helper:
            why.append("api-collision")
    if placement != "inpkg":
        seen = []

        def unnameable(t):
            # an unexported local type, an anonymous struct with an unexported field, an anonymous interface with an
            # unexported method: none of them can be written down outside the source package
            if t["k"] in ("named", "alias") and t["pkg"] == "" and not t["n"][0].isupper():
                seen.append(t)
            if t["k"] == "struct" and any(not f["emb"] and not f["n"][0].isupper() for f in t["fields"]):
                seen.append(t)
            if t["k"] == "iface" and any(not mm["n"][0].isupper() for mm in t["methods"]):
                seen.append(t)
        iface_types(i, unnameable)
        if seen:
            why.append("unnameable-type")
        if template == "matryer" and not opts.get("skip-ensure"):
            # the ensure line has to name the interface and the mock has to implement it from outside
            if not i["name"][0].isupper() or any(not n[0].isupper() for n in names):
                why.append("unnameable-type")
    return why


def type_hist(m, hist):
    if m.get("corpus"):
        hist["corpus-module"] = hist.get("corpus-module", 0) + 1
        return
    def f(t):
        k = t["k"]
        if k in ("named", "alias"):
            k = k + ("-local" if t["pkg"] == "" else "-generic" if t["targs"] else "-foreign")
        hist[k] = hist.get(k, 0) + 1
    for i in m["ifaces"]:
        iface_types(i, f)
        for tp in i["tparams"]:
            hist["tparam-decl"] = hist.get("tparam-decl", 0) + 1
        for mm in i["methods"]:
            if mm["sig"]["variadic"]:
                hist["variadic-method"] = hist.get("variadic-method", 0) + 1
            hist["method"] = hist.get("method", 0) + 1
        hist["iface"] = hist.get("iface", 0) + 1


# =========================================================================================
# running mockery
# =========================================================================================
def mock_env():
    return go_env({"GOFLAGS": "-mod=mod"})


def write_config(root, cfg, names, probe):
    pl = cfg["placement"]
    src = cfg["src_name"]
    if pl == "inpkg":
        d, pkg = "{{.InterfaceDir}}", src
        fn = cfg["filename"]
    elif pl == "testpkg":
        d, pkg, fn = "{{.InterfaceDir}}", src + "_test", "mocks_ext_test.go"
    else:
        d, pkg, fn = "mocks/" + src, "mocks", "mocks.go"
    if cfg.get("multi"):                    # one output file per interface, all in the same destination package
        fn = "mock_{{.InterfaceName}}_test.go" if fn.endswith("_test.go") else "mock_{{.InterfaceName}}.go"
    if probe:
        fn = "zz_probe_{{.InterfaceName}}.txt" if cfg.get("multi") else "zz_probe.txt"
    lines = []
    if probe:
        lines += ['template: "file://%s"' % PROBE, "require-template-schema-exists: false", "formatter: noop"]
    else:
        lines += ["template: %s" % cfg["template"], "formatter: %s" % cfg["formatter"]]
    lines += ["force-file-write: true", "all: false", 'dir: "%s"' % d, 'pkgname: "%s"' % pkg, 'filename: "%s"' % fn,
              'structname: "%s{{.InterfaceName}}"' % ("Mock" if cfg["template"] == "testify" else "Moq")]
    td = dict(cfg["opts"])
    if td:
        lines.append("template-data:")
        for k, v in sorted(td.items()):
            lines.append("  %s: %s" % (k, json.dumps(v)))
    rep = cfg.get("replace") or {}

    def rep_lines(rules, ind):
        out = [ind + "replace-type:"]
        last = None
        for opath, otype, npath, ntype in sorted(rules):
            if opath != last:
                out.append(ind + "  %s:" % opath)
                last = opath
            out += [ind + "    %s:" % otype, ind + "      pkg-path: %s" % npath, ind + "      type-name: %s" % ntype]
        return out
    lines += ["packages:", "  %s:" % cfg["src_path"]]
    if rep.get("package"):
        lines += ["    config:"] + rep_lines(rep["package"], "      ")
    lines += ["    interfaces:"]
    for n in names:
        lines.append("      %s:" % n)
        if rep.get("interface", {}).get(n):
            lines += ["        config:"] + rep_lines(rep["interface"][n], "          ")
    (root / ".mockery.yml").write_text("\n".join(lines) + "\n")
    out_dir = root / (src if pl != "separate" else "mocks/" + src)
    return out_dir, fn, pkg


QRE = re.compile(r'"((?:[^"\\]|\\.)*)"')


def parse_probe(text):
    """-> {"pkg","srcq","srcname","imports":[(path,qual)],"ifaces":[{name,struct,tparams:[...],methods:[...]}]}"""
    d = {"imports": [], "ifaces": []}
    complete = False
    for line in text.split("\n"):
        if not line.strip():
            continue
        tag = line[0]
        f = [json.loads('"%s"' % x) for x in QRE.findall(line[1:])]
        if tag == "P":
            d["pkg"], d["srcq"], d["srcname"] = f
        elif tag == "I":
            d["imports"].append((f[0], f[1]))
        elif tag == "F":
            d["ifaces"].append({"name": f[0], "struct": f[1], "tparams": [], "methods": []})
        elif tag == "T":
            d["ifaces"][-1]["tparams"].append({"orig": f[0], "ty": f[1], "constraint": f[2], "decl": f[3]})
        elif tag == "M":
            d["ifaces"][-1]["methods"].append({"name": f[0], "ret": f[1], "ret_exist": f[2:], "params": [], "results": []})
        elif tag == "A":
            d["ifaces"][-1]["methods"][-1]["params"].append({"name": f[0], "ty": f[1], "variadic": f[2] == "1", "nil": f[3] == "1", "exp": f[4]})
        elif tag == "R":
            d["ifaces"][-1]["methods"][-1]["results"].append({"name": f[0], "ty": f[1], "nil": f[3] == "1"})
        elif tag == "E":
            complete = True
    if not complete or "pkg" not in d:
        raise ValueError("incomplete probe output")
    return d


def resolve_types(ctx, pd):
    """Attach goscope's view of every rendered type string of the probe data."""
    todo, slots = [], []

    def want(holder, key, s, con):
        todo.append({"s": s, "con": con}); slots.append((holder, key))
    for i in pd["ifaces"]:
        for t in i["tparams"]:
            want(t, "con_u", t["ty"], True)
            want(t, "ens_u", t["constraint"] or t["ty"], False)
        for m in i["methods"]:
            for p in m["params"] + m["results"]:
                want(p, "u", p["ty"], False)
    if not todo:
        return
    p = run([ctx.bins["goscope"], "types"], inp=json.dumps(todo).encode(), timeout=120)
    if p.returncode != 0:
        raise RuntimeError("goscope types failed: " + p.stderr.decode(errors="replace")[-2000:])
    for (h, k), u in zip(slots, json.loads(p.stdout)):
        h[k] = u


GOLINT_INITIALISMS = ["ACL", "API", "ASCII", "CPU", "CSS", "DNS", "EOF", "GUID", "HTML", "HTTP", "HTTPS", "ID", "IP", "JSON", "LHS", "QPS", "RAM",
                      "RHS", "RPC", "SLA", "SMTP", "SQL", "SSH", "TCP", "TLS", "TTL", "UDP", "UI", "UID", "UUID", "URI", "URL", "UTF8", "VM",
                      "XML", "XMPP", "XSRF", "XSS"]


def exported_py(s):
    """template_funcs.Exported as specified (pinned): a name that IS an initialism is upper-cased, otherwise the first letter."""
    if not s:
        return s
    if s.upper() in GOLINT_INITIALISMS:
        return s.upper()
    return s[0].upper() + s[1:]


IDENT_RE = re.compile(r"^[A-Za-z_][A-Za-z0-9_]*$")


def suggest(visible, prefix):
    """MethodScope.SuggestName"""
    k, s = 0, prefix
    while s in visible:
        k += 1
        s = "%s%d" % (prefix, k)
    return s


def method_visible(pd, m):
    """Over-approximation of the method scope's visible names that is exact on every name the template allocates:
    resolved variable names, rendered type strings, import qualifiers."""
    return [p["name"] for p in m["params"] + m["results"]] + [p["ty"] for p in m["params"] + m["results"]] + [q for _, q in pd["imports"]]


def testify_allocated(pd, m):
    """Names the (fixed) testify template allocates in the method scope, in template order."""
    vis = list(method_visible(pd, m))
    out = {"ret": None, "rf": None, "ok": None, "args": []}
    if m["results"]:
        for k, pre in (("ret", "ret"), ("rf", "returnFunc"), ("ok", "ok")):
            out[k] = suggest(vis, pre); vis.append(out[k])
    ps = m["params"][:-1] if (m["params"] and m["params"][-1]["variadic"]) else m["params"]
    for i, p in enumerate(ps):
        if p["nil"]:
            a = suggest(vis, "arg%d" % i); vis.append(a); out["args"].append(a)
    return out


def guards_of(pd, cfg):
    """Python mirror of the Coq guard predicates (Gen/Skeleton.v): per interface the list of violated guards.
    The Coq evaluation in the generated case files is authoritative; this one only steers the generators."""
    tmpl, opts = cfg["template"], cfg["opts"]
    quals = [q for _, q in pd["imports"]]
    off = set(os.environ.get("C01_NOGUARD", "").split(","))      # development aid only
    out = {}
    for i in pd["ifaces"]:
        g = []
        torig = [t["orig"] for t in i["tparams"]]
        tdecl = [t["decl"] for t in i["tparams"]]
        # decided on the SOURCE name and the specified Exported (whole-name initialism or first letter), not on what the tree
        # under test declares: a tree that starts renaming KeyId to KeyID must face the oracle
        if any(exported_py(n) != n for n in torig):
            g.append("c14-tparam-renamed")
        cq, cb = set(), set()
        for t in i["tparams"]:
            cb |= set(t["con_u"]["bare"]); cq |= set(t["con_u"]["quals"])
        if tmpl == "matryer" and not opts.get("skip-ensure"):
            if pd["srcq"] and pd["srcname"] not in quals:
                g.append("mt-ensure-import")
            for t in i["tparams"]:
                u = t["ens_u"]
                if not u["ok"] or set(u["bare"]) & (set(torig) | {"comparable"}):
                    g.append("mt-ensure-generic")
        gen = {i["struct"]} | ({i["struct"] + "_Expecter"} | {"%s_%s_Call" % (i["struct"], mm["name"]) for mm in i["methods"]} if tmpl == "testify" else set())
        tvars = set(TMPL_VARS[tmpl]) | set(BUILTINS) | gen
        if (cq | cb | set(tdecl)) & tvars:
            g.append("type-named-like-template-local")
        for m in i["methods"]:
            pn = [p["name"] for p in m["params"]]
            rn = [r["name"] for r in m["results"]]
            if not all(IDENT_RE.match(n) for n in pn + rn):
                g.append("c14-invalid-varname")
            q, b = set(cq), set(cb)
            for p in m["params"] + m["results"]:
                q |= set(p["u"]["quals"]); b |= set(p["u"]["bare"])
            idents = q | b | set(tdecl)
            if (set(pn) | set(rn)) & idents:
                g.append("c14-capture")
            rnames = {"r%d" % k for k in range(len(rn))}
            if tmpl == "testify":
                al = testify_allocated(pd, m)
                tv = tvars | rnames | {al["ret"], al["rf"], al["ok"]} | set(al["args"])
                if idents & tv:
                    g.append("type-named-like-template-local")
                if set(pn) & (set(TF_TABOO) | rnames):
                    g.append("tf-param-local")
                if "_c" in rn:
                    g.append("tf-result-local")
                variadic = bool(m["params"]) and m["params"][-1]["variadic"]
                if variadic and opts.get("unroll-variadic") is True and len(rn) != 1 and not envflag("C01_VARIADIC_MULTI"):
                    g.append("c03-variadic")          # >= 2 results (row 13) or 0 results (glued statement)
                if set(pn) & {"ok", "returnFunc"} and not envflag("C01_C03_LOCALS"):
                    g.append("c03-param-local")
            else:
                if idents & tvars:
                    g.append("type-named-like-template-local")
                if set(pn) & set(MT_TABOO):
                    g.append("mt-param-local")
                ex = [p["exp"] for p in m["params"]]
                if len(set(ex)) != len(ex):
                    g.append("mt-field-collision")
        if cfg.get("static_param_guards"):       # decided on the source for these inputs (gen_class)
            g = [x for x in g if x not in ("tf-param-local", "mt-param-local", "tf-result-local")]
        if cfg.get("inside_all_guards"):         # hand-written corpus: inside every guard BY CONSTRUCTION; a tree whose data model
            # moves them into a name class (e.g. stops renaming `http`) must face the oracle; classes that are decided by the
            # source and the options alone (ensure line) stay
            g = [x for x in g if x in ("mt-ensure-generic", "mt-ensure-import", "c14-tparam-renamed")]
        out[i["name"]] = sorted(set(g) - off)
    return out


ERR_RE = re.compile(r"^(?:\S*?)([\w./-]+\.go):(\d+):(\d+): (.*)$")


def go_errors(text):
    errs = []
    for line in text.split("\n"):
        m = ERR_RE.match(line.strip())
        if m:
            errs.append("%s: %s" % (os.path.basename(m.group(1)), m.group(4)))
    return errs


def typecheck(root, cfg, out_dir, fn):
    """go build ./... (and go test -run '^$' on the destination package when the file is a _test.go)."""
    env = mock_env()
    tags = cfg["opts"].get("mock-build-tags")
    targ = ["-tags", tags] if tags else []
    p = run(["go", "build"] + targ + ["./..."], cwd=root, env=env, timeout=600)
    txt = (p.stdout + p.stderr).decode(errors="replace")
    rc = p.returncode
    if fn.endswith("_test.go"):
        rel = "./" + str(out_dir.relative_to(root))
        p2 = run(["go", "test"] + targ + ["-run", "^$", rel], cwd=root, env=env, timeout=900)
        txt += (p2.stdout + p2.stderr).decode(errors="replace")
        rc = rc or p2.returncode
    return rc, txt


def run_mockery(ctx, root):
    p = run([ctx.bins["mockery"]], cwd=root, env=mock_env(), timeout=300)
    return p.returncode, (p.stdout + p.stderr).decode(errors="replace")


def log_errors(txt):
    return [re.sub(r"^\S+ ", "", l)[:300] for l in txt.split("\n") if " ERR " in l or " FTL " in l or l.startswith("panic:")][:8]


def setup_module(ctx, cfg, root):
    shutil.rmtree(root, ignore_errors=True)
    if cfg.get("files") is not None:          # hand-written module (witnesses, corpus)
        root.mkdir(parents=True)
        (root / "go.mod").write_text("module %s\n\ngo 1.23\n\nrequire github.com/stretchr/testify v1.10.0\n" % gen_pkgs.MOD)
        for rel, content in cfg["files"].items():
            p = root / rel
            p.parent.mkdir(parents=True, exist_ok=True)
            p.write_text(content)
    else:
        gen_pkgs.write_module(cfg["module"], root, gomod_line=cfg.get("gomod_line"))
    shutil.copy(REPO / "go.sum", root / "go.sum")
    if cfg["opts"].get("boilerplate-file"):
        (root / "boilerplate.txt").write_text("// Copyright (c) the verification harness.\n// All rights reserved.\n")
        cfg["opts"]["boilerplate-file"] = str(root / "boilerplate.txt")


def probe_view(pd):
    """What a probe dump says, without the goscope annotations (for comparing two dumps)."""
    return json.loads(json.dumps({"pkg": pd["pkg"], "srcq": pd["srcq"], "imports": pd["imports"],
                                  "ifaces": [{"name": i["name"], "struct": i["struct"],
                                              "tparams": [[t["orig"], t["ty"], t["constraint"], t["decl"]] for t in i["tparams"]],
                                              "methods": [[m["name"], m["ret"], [[p["name"], p["ty"], p["variadic"]] for p in m["params"]],
                                                           [[r["name"], r["ty"]] for r in m["results"]]] for m in i["methods"]]}
                                             for i in pd["ifaces"]]}))


def run_multi(ctx, cfg):
    """One mockery run that writes one file PER INTERFACE into the same destination package.  Per file: probe dump, written
    source, extracted skeleton; the whole package is type-checked once.  Frame check: the probe dump of every file must be
    what a run that writes this file alone produces (a file's imports depend only on its own interfaces)."""
    root = ctx.scratch / ("cfg%04d" % cfg["id"])
    res = {"id": cfg["id"], "excluded": {}, "stage": "setup", "files": [], "frame_diff": []}
    setup_module(ctx, cfg, root)
    names = list(cfg["candidates"])
    res["names"] = names

    def probes(ns, tag):
        out_dir, fn, pkg = write_config(root, cfg, ns, probe=True)
        rc, txt = run_mockery(ctx, root)
        got = {}
        for n in ns:
            pf = out_dir / fn.replace("{{.InterfaceName}}", n)
            if rc != 0 or not pf.exists():
                return None, rc, txt
            got[n] = parse_probe(pf.read_text())
            pf.unlink()
        return got, rc, txt
    pds, rc, txt = (None, 0, "") if cfg.get("no_probe") else probes(names, "all")
    if pds is None and not cfg.get("no_probe"):
        res.update(stage="probe-failed", mockery_rc=rc, mockery_log=log_errors(txt))
        return res
    if pds:
        for n in names:
            resolve_types(ctx, pds[n])
            solo, rc1, txt1 = probes([n], "solo")
            if solo is None:
                res["frame_diff"].append({"interface": n, "what": "the run that writes this file alone failed", "log": log_errors(txt1)})
            elif probe_view(solo[n]) != probe_view(pds[n]):
                res["frame_diff"].append({"interface": n, "alone": probe_view(solo[n])["imports"], "with_the_others": probe_view(pds[n])["imports"]})
    out_dir, fn, pkg = write_config(root, cfg, names, probe=False)
    rc, txt = run_mockery(ctx, root)
    res["mockery_rc"] = rc
    pn = root / "pkgnames.json"
    pn.write_text(json.dumps(cfg["pkgnames"]))
    written = {n: out_dir / fn.replace("{{.InterfaceName}}", n) for n in names}
    res["file"] = str((out_dir / fn).relative_to(root))
    if rc != 0 or not all(f.exists() for f in written.values()):
        res.update(stage="mockery-failed", mockery_log=log_errors(txt), errors=["mockery exit %d: %s" % (rc, "; ".join(log_errors(txt))[:600])])
        return res
    rc, txt = typecheck(root, cfg, out_dir, fn)
    res["go_rc"] = rc
    res["errors"] = go_errors(txt) if rc != 0 else []
    if rc != 0 and not res["errors"]:
        res["errors"] = [l for l in txt.split("\n") if l.strip()][:10]
    res["source"] = ""
    for n in names:
        f = written[n]
        sub = {"id": cfg["id"], "excluded": {}, "stage": "done", "names": [n], "file": str(f.relative_to(root)), "probe": pds.get(n) if pds else None,
               "source": f.read_text(errors="replace"), "errors": [e for e in res["errors"] if e.startswith(f.name + ":")], "go_rc": rc}
        p = run([ctx.bins["goscope"], "file", str(out_dir), f.name, str(pn)], timeout=120)
        if p.returncode == 0:
            sub["skel"] = json.loads(p.stdout)
        else:
            sub["skel_error"] = p.stderr.decode(errors="replace")[-500:]
        res["files"].append(sub)
        res["source"] += "// ---- %s\n%s\n" % (f.name, sub["source"][:6000])
    res["stage"] = "done"
    if not os.environ.get("C01_KEEP"):
        shutil.rmtree(root, ignore_errors=True)
    return res


def run_config(ctx, cfg):
    """One configuration end to end.  Returns a result dict (never raises for implementation failures)."""
    if cfg.get("multi"):
        return run_multi(ctx, cfg)
    root = ctx.scratch / ("cfg%04d" % cfg["id"])
    res = {"id": cfg["id"], "excluded": {}, "stage": "setup"}
    setup_module(ctx, cfg, root)
    names = list(cfg["candidates"])
    pd = None
    if not cfg.get("no_probe"):
        for _round in range(4):
            if not names:
                res["stage"] = "empty"
                return res
            out_dir, fn, pkg = write_config(root, cfg, names, probe=True)
            rc, txt = run_mockery(ctx, root)
            pf = out_dir / fn
            if rc != 0 or not pf.exists():
                res.update(stage="probe-failed", mockery_rc=rc, mockery_log=log_errors(txt))
                return res
            pd = parse_probe(pf.read_text())
            pf.unlink()
            resolve_types(ctx, pd)
            if cfg.get("witness"):
                break
            g = guards_of(pd, cfg)
            bad = [n for n in names if g.get(n)]
            if not bad:
                break
            for n in bad:
                for why in g[n]:
                    res["excluded"][why] = res["excluded"].get(why, 0) + 1
            names = [n for n in names if n not in bad]
        else:
            res["stage"] = "guards-unstable"
            return res
    res["names"] = names
    res["probe"] = pd
    out_dir, fn, pkg = write_config(root, cfg, names, probe=False)
    rc, txt = run_mockery(ctx, root)
    res["mockery_rc"] = rc
    of = out_dir / fn
    res["file"] = str(of.relative_to(root))
    if rc != 0 or not of.exists():
        res.update(stage="mockery-failed", mockery_log=log_errors(txt), errors=["mockery exit %d: %s" % (rc, "; ".join(log_errors(txt))[:600])])
        return res
    res["source"] = of.read_text(errors="replace")
    pn = root / "pkgnames.json"
    pn.write_text(json.dumps(cfg["pkgnames"]))
    p = run([ctx.bins["goscope"], "file", str(out_dir), fn, str(pn)], timeout=120)
    if p.returncode == 0:
        res["skel"] = json.loads(p.stdout)
    else:
        res["skel_error"] = p.stderr.decode(errors="replace")[-500:]
    rc, txt = typecheck(root, cfg, out_dir, fn)
    res["go_rc"] = rc
    res["errors"] = go_errors(txt) if rc != 0 else []
    if rc != 0 and not res["errors"]:
        res["errors"] = [l for l in txt.split("\n") if l.strip()][:10]
    res["stage"] = "done"
    if not os.environ.get("C01_KEEP"):
        shutil.rmtree(root, ignore_errors=True)
    return res


# =========================================================================================
# configurations
# =========================================================================================
def pkgnames_of(m):
    d = {e["path"]: e["name"] for e in m["ext"]}
    d.update({s["path"]: s["name"] for s in m["std"]})
    d.update({TESTIFY_PATH: "mock", "sync": "sync", "fmt": "fmt", "unsafe": "unsafe", m["src"]["path"]: m["src"]["name"]})
    return d


TESTIFY_OPTS = [{}, {"unroll-variadic": True}, {"unroll-variadic": False}, {"unroll-variadic": True, "boilerplate-file": "x"},
                {"unroll-variadic": True, "mock-build-tags": "mocktag"},
                {"unroll-variadic": False, "mock-build-tags": "mocktag && !never", "boilerplate-file": "x"}]
# (every window of three consecutive sets contains unroll-variadic: true - the corpus sees three consecutive sets per combination)
MATRYER_OPTS = [{}, {"skip-ensure": True}, {"stub-impl": True}, {"with-resets": True}, {"skip-ensure": True, "stub-impl": True, "with-resets": True},
                {"skip-ensure": False, "stub-impl": False, "with-resets": False, "boilerplate-file": "x"},
                {"stub-impl": True, "with-resets": True, "mock-build-tags": "mocktag"}, {"skip-ensure": True, "boilerplate-file": "x", "mock-build-tags": "mocktag"}]


class C01Gen(gen_pkgs.DenseGen):
    """DenseGen plus anonymous interface literals that embed an interface and declare own methods whose names sort after
    (Zz*, Use*) or before (Aa*) the embedded methods (Read, Write, Handle, Deadline...), the own methods mentioning named types
    of one or two other packages: the import walk has to visit every EXPLICIT method of the literal."""
    anon = 0.06

    def ty(self, tparams, depth=0):
        if self.anon and depth < self.max_depth and self.rng.random() < self.anon:
            return self.anon_iface(tparams)
        if self.ext and self.rng.random() < 0.04:      # the local alias of a foreign type (type AliasC = h1.Client)
            return {"k": "alias", "pkg": "", "n": "AliasC", "targs": []}
        return super().ty(tparams, depth)

    def anon_iface(self, tparams):
        rng = self.rng
        emb = [gen_pkgs.named("io", "Reader"), gen_pkgs.named("io", "Writer"), gen_pkgs.named("context", "Context")]
        emb += [gen_pkgs.named(e["path"], "Handler") for e in self.ext]
        embeds = rng.sample(emb, rng.choice([1, 1, 2]))
        if sum(1 for e in embeds if e["n"] == "Handler") > 1:
            embeds = embeds[:1]

        def foreign():
            if self.ext and rng.random() < 0.7:
                return gen_pkgs.named(rng.choice(self.ext)["path"], rng.choice(["Client", "Key"]))
            return gen_pkgs.named("time", rng.choice(["Duration", "Time"]))
        ms = []
        for name in rng.sample(["Zz", "Use", "Aa", "Via"], rng.choice([1, 1, 2])):
            ps = [{"n": rng.choice(["", "x"]), "t": {"k": "ptr", "e": foreign()}}]
            if rng.random() < 0.4:
                ps.append({"n": ps[0]["n"] and "y", "t": foreign()})
            ms.append({"n": name, "sig": {"params": ps, "variadic": False,
                                          "results": [{"n": "", "t": foreign()}] if rng.random() < 0.5 else []}})
        return {"k": "iface", "methods": ms, "embeds": embeds}

    def constraint(self, prev):
        if self.anon and self.rng.random() < self.anon:
            return self.anon_iface(prev), False
        return super().constraint(prev)

    anylike = 0.3
    TP_NAMES = {"T": "KeyId", "K": "ApiKey", "V": "HttpReq", "E": "XmlT"}

    def iface(self, name, method_names, lower_tparams=False):
        """Bias: 40 % of the generic interfaces get type-parameter names with a mixed-case golint initialism (KeyId, ApiKey,
        HttpReq, XmlT) instead of T / K / V / E."""
        i = super().iface(name, method_names, lower_tparams)
        if i["tparams"] and not lower_tparams and self.rng.random() < 0.4:
            ren = self.TP_NAMES

            def walk(x):
                if isinstance(x, dict):
                    if x.get("k") == "tparam" and x.get("n") in ren:
                        x["n"] = ren[x["n"]]
                    for v in x.values():
                        walk(v)
                elif isinstance(x, list):
                    for v in x:
                        walk(v)
            walk(i["methods"]); walk(i["embeds"])
            for tp in i["tparams"]:
                walk(tp["c"])
                tp["n"] = ren.get(tp["n"], tp["n"])
        return i

    def sig(self, tparams, depth, max_params=4, max_results=3, allow_variadic=True):
        """Bias: variadic parameters whose element type merely contains / ends with any or interface{} ([]any, map[string]any,
        <-chan any, *any, func() any, []interface{}, map[string]interface{}), and the exact ones as controls."""
        s_ = super().sig(tparams, depth, max_params, max_results, allow_variadic)
        rng = self.rng
        if depth == 0 and allow_variadic and s_["params"] and (s_["variadic"] or rng.random() < 0.1) and rng.random() < self.anylike:
            any_ = gen_pkgs.basic("any")
            empty = {"k": "iface", "methods": [], "embeds": []}
            elem = rng.choice([
                {"k": "slice", "e": any_}, {"k": "map", "key": gen_pkgs.basic("string"), "e": any_},
                {"k": "chan", "dir": "recv", "e": any_}, {"k": "ptr", "e": any_},
                {"k": "func", "sig": {"params": [], "variadic": False, "results": [{"n": "", "t": any_}]}},
                {"k": "slice", "e": empty}, {"k": "map", "key": gen_pkgs.basic("string"), "e": empty}, any_, empty])
            s_["variadic"] = True
            s_["params"][-1]["t"] = {"k": "slice", "e": elem}
        return s_


def gen_module(rng, k):
    pools = ("ordinary", "qualifier", "predeclared", "typelike", "case")
    if k % 3 == 1:
        pools = pools + ("template_locals",)       # harmless and harmful template names; harmful ones are excluded by the guards
    # DenseGen: a fifth of the types mention one package several times through 1- and 2-argument generic instantiations in
    # every position (map[box.Key]box.Box[unit.Meters]): a package reached only through type arguments must still be
    # imported and qualified.  name_tuples=0: the X / X1 parameter-name tuples belong to C14's classes.
    g = C01Gen(rng, dense=0.2, name_tuples=0.0, pools=pools, n_ifaces=(3, 6), n_methods=(0, 4))
    method_names = None
    if k % 5 == 4:                                  # a few method names inside the mocks' own API: outside the guarantee, counted
        method_names = ["Do", "Get", "Put", "Close", "List", "Watch", "Apply", "Len", "String", "Each", "unexp",
                        "EXPECT", "Called", "GetCalls", "ResetCalls", "GetFunc"]
    return g.module(method_names=method_names)


SHAPES = ["ShapesPlain", "ShapesVariadic1", "ShapesVariadic0", "ShapesVariadic2", "ShapesAllocated", "ShapesGeneric", "ShapesConstraint",
          "ShapesEmbedded", "ShapesLongUnnamed", "ShapesLongNamed", "ShapesAnonIface", "ShapesAnonConstraint", "ShapesVariadicAnyLike", "ShapesAlias", "ShapesInitialismParams", "ShapesInitialismParams2", "ShapesEmpty"]


def corpus_module():
    """corpus/C01/shapes.go as a module: every branch of both templates (variadic x unroll x 0/1/2 results, interface{}
    variadics, nillable parameters, generic interfaces, embedded interfaces, an empty interface)."""
    f = CORPUS / "shapes.go"
    if not f.exists():
        return None
    e = gen_pkgs.EXT[0]
    files = {"ext/http/types.go": gen_pkgs.ext_source(e), "ext/http/company.go": "package http\n\ntype Company struct{ N int }\n",
             "ext/wire/types.go": "package wire\n\ntype Frame struct{ N int }\n",
             "ext/pairs/types.go": "package pairs\n\ntype Pair[K comparable, V any] struct {\n\tKey K\n\tVal V\n}\n",
             "ext/inner/types.go": "package inner\n\ntype Thing struct{ N int }\n",
             "ext/fwd/types.go": "package fwd\n\nimport \"%s/ext/inner\"\n\n// an alias declared in an ext package\ntype Thing = inner.Thing\n" % gen_pkgs.MOD,
             "src/src.go": f.read_text()}
    more = [{"path": gen_pkgs.MOD + "/ext/" + n, "name": n, "alias": ""} for n in ("wire", "pairs", "inner", "fwd")]
    return {"files": files, "ifaces": [], "static_names": SHAPES, "ext": [e] + more, "std": gen_pkgs.STD, "mod": gen_pkgs.MOD,
            "src": {"path": gen_pkgs.MOD + "/src", "name": "src"}, "corpus": True}


MULTI_SHAPES = [   # (methods; which same-named packages the file mentions, in which order)
    "Get(l Local, r *nethttp.Request) error",                                   # only net/http
    "Get(l Local, c h1.Client) error",                                          # only ext/http
    "Get(l Local, c h1.Client, r *nethttp.Request) h2.Key",                     # ext/http, net/http, ext2/http
    "Get(l Local, r *nethttp.Request, c h1.Client) error",                      # net/http, ext/http
    "Get(l Local, k h2.Key) (h1.Key, error)\n\tLock(m xsync.Client) nethttp.Handler",   # ext2/http, ext/http, ext6/sync, net/http
    "Lock(l Local, m xsync.Key, more ...h2.Box[h1.Key]) error",                  # ext6/sync (next to matryer's own sync), ext2, ext
]


def multi_module(rng, nfiles=6):
    """Several output FILES in one destination package in one run (filename per interface): same-named packages
    (net/http, ext/http, ext2/http; ext6/sync next to the sync the matryer template adds) split across the files.  The files
    are written in some order of the interface names, so the shapes get the names in a seeded permutation."""
    exts = [e for e in gen_pkgs.EXT if e["alias"] in ("h1", "h2", "xsync")]
    names = ["FA", "FB", "FC", "FD", "FE", "FF"]
    perm = list(range(len(MULTI_SHAPES)))
    rng.shuffle(perm)
    if nfiles < len(perm):      # quick tier: the two one-package files and the first mixed one always stay
        keep = [0, 1, 2] + rng.sample([3, 4, 5], nfiles - 3)
        perm = [k for k in perm if k in keep]
    names = names[:len(perm)]
    used = " ".join(MULTI_SHAPES[k] for k in perm)
    out = ["package src\n", "import ("]
    for e in exts:
        if e["alias"] + "." in used:          # Go rejects an unused import in the SOURCE package
            out.append('\t%s "%s"' % (e["alias"], e["path"]))
    out += ['\tnethttp "net/http"', ")\n", "type Local struct{ X int }\n"]
    for n, k in zip(names, perm):
        out.append("type %s interface {\n\t%s\n}\n" % (n, MULTI_SHAPES[k]))
    files = {"src/src.go": "\n".join(out)}
    for e in exts:
        files[e["path"][len(gen_pkgs.MOD) + 1:] + "/types.go"] = gen_pkgs.ext_source(e)
    return {"files": files, "ifaces": [], "static_names": names, "ext": exts, "std": [s_ for s_ in gen_pkgs.STD if s_["path"] == "net/http"],
            "mod": gen_pkgs.MOD, "src": {"path": gen_pkgs.MOD + "/src", "name": "src"}, "corpus": True, "multi": True,
            "order": [MULTI_SHAPES[k].split("#")[0][:40] for k in perm]}


def replace_module():
    """The replace-type parameter: a foreign named type that is the ONLY use of its package in the output file, and one
    whose package is used elsewhere too, mapped to a type of another package and to a local type."""
    orig, repl = gen_pkgs.MOD + "/ext/orig", gen_pkgs.MOD + "/ext/repl"
    files = {
        "ext/orig/types.go": "package orig\n\ntype Only struct{ A int }\ntype Shared struct{ B int }\ntype Other struct{ C int }\n",
        "ext/repl/types.go": "package repl\n\ntype New struct{ A int }\ntype New2 struct{ B int }\n",
        "src/src.go": "package src\n\nimport \"%s\"\n\ntype Local struct{ X int }\n\n"
                      "type RSole interface {\n\tGet(o orig.Only, n int) error\n\tEach(os ...int) (orig.Only, error)\n}\n\n"
                      "type RResult interface {\n\tMake() orig.Only\n\tTake(orig.Only)\n}\n\n"
                      "type RShared interface {\n\tPut(s orig.Shared, o orig.Other) (orig.Shared, error)\n}\n" % orig}
    src = gen_pkgs.MOD + "/src"
    variants = [
        {"names": ["RSole", "RResult"], "replace": {"package": [[orig, "Only", repl, "New"]]}, "what": "only use -> foreign, package level"},
        {"names": ["RSole"], "replace": {"interface": {"RSole": [[orig, "Only", src, "Local"]]}}, "what": "only use -> local, interface level"},
        {"names": ["RShared", "RSole"], "replace": {"interface": {"RShared": [[orig, "Shared", repl, "New2"]]}}, "what": "used elsewhere -> foreign, interface level"},
        {"names": ["RSole", "RResult"], "replace": {"interface": {"RSole": [[orig, "Only", repl, "New"]], "RResult": [[orig, "Only", src, "Local"]]}},
         "what": "only use -> foreign and local, interface level"},
        {"names": ["RShared"], "replace": {"package": [[orig, "Shared", src, "Local"], [orig, "Other", repl, "New"]]}, "what": "all uses -> local and foreign, package level"},
    ]
    return {"files": files, "ifaces": [], "static_names": ["RSole", "RResult", "RShared"], "std": [], "mod": gen_pkgs.MOD,
            "ext": [{"path": orig, "name": "orig", "alias": ""}, {"path": repl, "name": "repl", "alias": ""}],
            "src": {"path": src, "name": "src"}, "corpus": True, "replace_variants": variants}


GO_KEYWORDS = ["break", "default", "func", "interface", "select", "case", "defer", "go", "map", "struct", "chan", "else", "goto", "package",
               "switch", "const", "fallthrough", "if", "range", "type", "continue", "for", "import", "return", "var"]
# the reserved list of template/var.go on the pinned tree = coq/Gen/Skeleton.v reserved_names (the specification)
RESERVED_PINNED = ["mock", "callInfo"] + GO_KEYWORDS + ["string", "bool", "byte", "rune", "uintptr", "int", "int8", "int16", "int32", "int64",
                                                       "uint", "uint8", "uint16", "uint32", "uint64", "float32", "float64", "complex64", "complex128"]


def reserved_from_code(tree):
    """The string literals of the `switch name { case ... }` in varName, parsed from template/var.go of THIS tree,
    so that the generator follows the code.  [] if there is no such switch any more."""
    try:
        src = (tree / "template" / "var.go").read_text()
    except OSError:
        return []
    m = re.search(r"func varName\(.*?\n}\n", src, re.S)
    if not m:
        return []
    body = m.group(0)
    sw = re.search(r"switch name \{(.*?)\n\t\t?name \+= \"Param\"", body, re.S)
    if not sw:
        return []
    return re.findall(r'"([A-Za-z0-9_]+)"', sw.group(1))


def cap(x):
    return x[0].upper() + x[1:]


def template_identifiers():
    """Every identifier the two built-in templates declare or use themselves that a decapitalised type name can spell."""
    ids = set(TMPL_VARS["testify"]) | set(TMPL_VARS["matryer"]) | set(TF_TABOO) | set(MT_TABOO) | set(BUILTINS)
    ids |= {"ret", "ret1", "returnFunc", "ok", "arg0", "arg1", "r0", "r1", "stub", "calls", "sync", "fmt"}
    return sorted(x for x in ids if x[0].isalpha() and x[0].islower())


def gen_name_py(T):
    """Mirror of Gen/Skeleton.v gen_name (the specification of varName for an unnamed parameter of named type T)."""
    if T == "error":
        n = "err"
    else:
        d = T[0].lower() + T[1:]
        n = d + "MoqParam" if d == T else d
    return n + "Param" if n in RESERVED_PINNED else n


def gen_class(iface_name, template):
    """Known-finding class of a gennames interface, decided on the SOURCE (type name -> specified generated name), not on
    what the data model of the tree under test reports: a tree that starts generating `mock` for a type Mock must fail
    the oracle, not be filed under the parameter-named-like-a-template-local finding."""
    n = gen_name_py(iface_name[1:])
    if template == "testify":
        return "tf-param-local" if n in TF_TABOO or re.fullmatch(r"r\d+", n) else None
    return "mt-param-local" if n in MT_TABOO else None


def gennames_module(reserved):
    """Unnamed and `_` parameters whose TYPE NAME decapitalises to an identifier of the templates or to an entry of
    varName's reserved list (from the code of this run, united with the pinned list), directly and behind pointer /
    slice / map / chan wrappers, local and foreign."""
    tmpl_ids = template_identifiers()
    allids = sorted(set(tmpl_ids) | set(reserved) | set(RESERVED_PINNED))
    allids = [x for x in allids if x[0].isalpha() and x[0].islower()]
    tn = gen_pkgs.MOD + "/ext/tnames"
    ext = "package tnames\n\n" + "".join("type %s struct{ V int }\n" % cap(x) for x in tmpl_ids)
    out = ["package src\n", 'import tn "%s"\n' % tn]
    names, gen_expect = [], []
    for x in allids:
        T = cap(x)
        out.append("type %s struct{ V int }" % T)
    out.append("")
    for x in allids:
        T = cap(x)
        full = x in tmpl_ids or x in ("string", "func", "map", "go", "int")
        out.append("type G%s interface {" % T)
        out.append("\tU(%s) error" % T)
        out.append("\tB(_ %s, _ []%s) (int, error)" % (T, T))
        if full:
            out.append("\tV(string, ...%s) error" % T)
            out.append("\tV2(%s, ...int) (int, error)" % T)
            out.append("\tW(map[string]%s, chan %s, *%s)" % (T, T, T))
        out.append("}\n")
        names.append("G" + T)
        gen_expect.append(("G" + T, "U", T))
    for x in tmpl_ids:
        T = cap(x)
        out.append("type F%s interface {\n\tU(tn.%s) error\n\tV2(*tn.%s, ...tn.%s) (bool, error)\n}\n" % (T, T, T, T))
        names.append("F" + T)
        gen_expect.append(("F" + T, "U", T))
    files = {"ext/tnames/types.go": ext, "src/src.go": "\n".join(out)}
    return {"files": files, "ifaces": [], "static_names": names, "ext": [{"path": tn, "name": "tnames", "alias": "tn"}], "std": [],
            "mod": gen_pkgs.MOD, "src": {"path": gen_pkgs.MOD + "/src", "name": "src"}, "corpus": True, "gennames": True,
            "gen_expect": gen_expect}


def make_configs(rng, modules, thorough):
    cfgs = []
    for k, m in enumerate(modules):
        combos = [(t, f, p) for t in TEMPLATES for f in FORMATTERS for p in PLACEMENTS]
        if m.get("multi"):
            # both templates x all placements (x two file-name kinds in package), formatters and option sets rotating
            n = 0
            for t in TEMPLATES:
                for p in PLACEMENTS:
                    for fn_ in (["mocks_test.go", "mocks.go"] if p == "inpkg" and thorough else ["mocks_test.go" if n % 2 else "mocks.go"]):
                        n += 1
                        optlist = TESTIFY_OPTS if t == "testify" else MATRYER_OPTS
                        cfgs.append({"module": m, "files": m["files"], "template": t, "formatter": FORMATTERS[n % 3], "placement": p,
                                     "opts": dict(optlist[(n + k) % len(optlist)]), "filename": fn_, "src_name": m["src"]["name"],
                                     "src_path": m["src"]["path"], "pkgnames": pkgnames_of(m), "stream": "main", "multi": True})
            continue
        if m.get("replace_variants"):
            # replace-type: both templates x all three formatters; variants and placements rotate (thorough: everything).
            # A replaced mock does not implement the interface any more, so matryer runs with skip-ensure.
            vs = m["replace_variants"]
            off = rng.randrange(len(vs))
            n = 0
            for ti, t in enumerate(TEMPLATES):
                for fi, f in enumerate(FORMATTERS):
                    picks = range(len(vs)) if thorough else [(off + ti + 2 * fi) % len(vs), (off + ti + 2 * fi + 2) % len(vs)]
                    for vi in picks:
                        for p in (PLACEMENTS if thorough else [PLACEMENTS[(n + off) % 3]]):
                            n += 1
                            o = ({"unroll-variadic": bool(n % 2)} if t == "testify"
                                 else {"skip-ensure": True, "stub-impl": bool(n % 2), "with-resets": bool(n % 3 == 0)})
                            cfgs.append({"module": m, "files": m["files"], "template": t, "formatter": f, "placement": p, "opts": o,
                                         "filename": "mocks_test.go" if n % 2 else "mocks.go", "src_name": m["src"]["name"],
                                         "src_path": m["src"]["path"], "pkgnames": pkgnames_of(m), "stream": "main",
                                         "only_names": list(vs[vi]["names"]), "replace": vs[vi]["replace"], "replace_what": vs[vi]["what"]})
            continue
        if m.get("gennames"):
            # one output file per chunk of interfaces (the Coq evaluation is quadratic in the size of a file); every type
            # name meets both templates; placements, formatters and option sets rotate over the chunks (thorough: all
            # placements)
            names = m["static_names"]
            chunks = [names[q:q + 12] for q in range(0, len(names), 12)]
            off = rng.randrange(3)
            for q, chunk in enumerate(chunks):
                for ti, t in enumerate(TEMPLATES):
                    vs = ([{"unroll-variadic": False}, {"unroll-variadic": True}] if t == "testify"
                          else [{}, {"skip-ensure": True, "stub-impl": True, "with-resets": True}])
                    keep = [n for n in chunk if not gen_class(n, t)]
                    sx = {}
                    for n in chunk:
                        if gen_class(n, t):
                            sx[gen_class(n, t)] = sx.get(gen_class(n, t), 0) + 1
                    for p, o_ in ([(p_, o) for p_ in PLACEMENTS for o in vs] if thorough else [(PLACEMENTS[(q + ti + off) % 3], vs[(q + off) % 2])]):
                        cfgs.append({"module": m, "files": m.get("files"), "template": t, "formatter": ["gofmt", "noop"][(q + ti) % 2],
                                     "static_param_guards": True, "static_excluded": sx,
                                     "placement": p, "opts": dict(o_), "filename": "mocks_test.go" if q % 2 else "mocks.go",
                                     "src_name": m["src"]["name"], "src_path": m["src"]["path"], "pkgnames": pkgnames_of(m),
                                     "stream": "main", "only_names": keep})
            continue
        for j, (t, f, p) in enumerate(combos):
            optlist = TESTIFY_OPTS if t == "testify" else MATRYER_OPTS
            variants = [optlist[(k * 7 + j) % len(optlist)]]
            if m.get("corpus"):                       # the corpus sees every option set (quick: three per combination)
                variants = optlist if thorough else [optlist[(j + d) % len(optlist)] for d in range(3)]
            for vi, o in enumerate(variants):
                only = None
                if m.get("corpus") and m.get("static_names") is SHAPES and not thorough:
                    # the corpus file is split in two halves that alternate over the option sets and combinations: the Coq
                    # evaluation is superlinear in the size of a file; every interface still meets every combination
                    only = SHAPES[(j + vi) % 2::2]
                cfgs.append({"module": m, "files": m.get("files"), "template": t, "formatter": f, "placement": p, "opts": dict(o),
                             "inside_all_guards": bool(m.get("corpus")), "only_names": only,
                             "filename": "mocks_test.go" if (k + j) % 2 == 0 else "mocks.go",
                             "src_name": m["src"]["name"], "src_path": m["src"]["path"], "pkgnames": pkgnames_of(m), "stream": "main"})
    for n, c in enumerate(cfgs):
        c["id"] = n
        ifaces = c["module"]["ifaces"] + (STATIC_IFACES if not c["module"].get("corpus") else [])
        c["candidates"], c["outside"] = list(c.get("only_names") or c["module"].get("static_names", [])), {}
        for i in ifaces:
            why = outside_guarantee(i, c["template"], c["placement"], c["opts"])
            if why:
                for w in why:
                    c["outside"][w] = c["outside"].get(w, 0) + 1
            else:
                c["candidates"].append(i["name"])
    return cfgs


def witness_configs(start_id):
    f = CORPUS / "witnesses.json"
    if not f.exists():
        return []
    cfgs = []
    for k, w in enumerate(json.loads(f.read_text())):
        pk = {gen_pkgs.MOD + "/ext5/mock": "mock", TESTIFY_PATH: "mock", "sync": "sync", "fmt": "fmt", "unsafe": "unsafe",
              gen_pkgs.MOD + "/src": "src"}
        cfgs.append({"id": start_id + k, "files": w["files"], "template": w["template"], "formatter": "gofmt", "placement": w["placement"],
                     "opts": dict(w["opts"]), "filename": "mocks_test.go", "src_name": "src", "src_path": gen_pkgs.MOD + "/src",
                     "pkgnames": pk, "stream": "witness", "witness": w, "candidates": list(w["interfaces"]), "outside": {}})
    return cfgs


# =========================================================================================
# Gallina terms
# =========================================================================================
KIND = {"Q": "KQual", "T": "KType", "C": "KCon", "V": "KVal"}
MODS = "Gen.Alloc Gen.Skeleton Harness.C01"


def item_term(it):
    if it[0] == "u":
        return "IUse %s %s" % (KIND[it[1]], coq_bytes(it[2]))
    if it[0] == "d":
        return "IDecl %s %s" % ("true" if it[1] == "t" else "false", coq_bytes(it[2]))
    return "IBlock %s" % items_term(it[1])


def items_term(l):
    return coq_list(item_term(i) for i in l)


def strs(l):
    return coq_list(coq_bytes(x) for x in l)


TK = {"type": "TType", "var": "TVar", "func": "TFunc", "method": "TMethod"}


def skel_term(sk):
    tops = coq_list("mk_top %s %s %s %s" % (TK[t["kind"]], coq_bytes(t["name"]), coq_bytes(t["recv"]), items_term(t["items"])) for t in sk["tops"])
    return "{| s_imports := %s; s_other_types := %s; s_other_vals := %s; s_tops := %s |}" % (
        coq_list("(%s, %s)" % (coq_bytes(i["path"]), coq_bytes(i["qual"])) for i in sk["imports"]),
        strs(sk["other_types"]), strs(sk["other_values"]), tops)


def ty_term(u):
    return items_term(u["items"])


def fdata_term(pd, sk, template="matryer"):
    ifs = []
    for i in pd["ifaces"]:
        tps = coq_list("{| tdecl := %s; torig := %s; tcon := %s; tens := %s |}" % (
            coq_bytes(t["decl"]), coq_bytes(t["orig"]),
            ty_term(t["con_u"]) if t["con_u"]["ok"] else '[IUse KCon (B "<not a type>")]',
            coq_opt(t["ens_u"] if t["ens_u"]["ok"] else None, ty_term)) for t in i["tparams"])
        ms = []
        for m in i["methods"]:
            ps = coq_list("{| pn := %s; pexp := %s; pty := %s; pvariadic := %s; pany := %s; pnil := %s |}" % (
                # pexp (exported name = matryer record field) is not used by the testify model: its distinctness is no obligation there
                coq_bytes(p["name"]), coq_bytes(p["exp"] if template == "matryer" else p["name"]), ty_term(p["u"]), coq_bool(p["variadic"]),
                coq_bool(p["variadic"] and p["ty"] in ("[]interface{}", "[]any")), coq_bool(p["nil"])) for p in m["params"])
            rs = coq_list("{| rn := %s; rty := %s; riserr := %s; rnil := %s |}" % (
                coq_bytes(r["name"]), ty_term(r["u"]), coq_bool(r["ty"] == "error"), coq_bool(r["nil"])) for r in m["results"])
            ms.append("{| mn := %s; mps := %s; mrs := %s; mvisible := %s |}" % (coq_bytes(m["name"]), ps, rs, strs(method_visible(pd, m))))
        ifs.append("{| ifname := %s; ifstruct := %s; iftps := %s; ifms := %s |}" % (coq_bytes(i["name"]), coq_bytes(i["struct"]), tps, coq_list(ms)))
    return "{| f_inpkg := %s; f_srcname := %s; f_imports := %s; f_ifaces := %s; f_other_types := %s; f_other_vals := %s |}" % (
        coq_bool(pd["srcq"] == ""), coq_bytes(pd["srcname"]),
        coq_list("(%s, %s)" % (coq_bytes(p), coq_bytes(q)) for p, q in pd["imports"]), coq_list(ifs),
        strs(sk["other_types"]), strs(sk["other_values"]))


def tmpl_term(cfg):
    o = cfg["opts"]
    if cfg["template"] == "testify":
        return "Testify {| unroll := %s |}" % coq_bool(o.get("unroll-variadic") is True)
    return "Matryer {| skip_ensure := %s; stub_impl := %s; with_resets := %s |}" % (
        coq_bool(bool(o.get("skip-ensure"))), coq_bool(bool(o.get("stub-impl"))), coq_bool(bool(o.get("with-resets"))))


def case_term(cfg, res):
    return "{| c_tmpl := %s; c_data := %s; c_ext := %s |}" % (tmpl_term(cfg), fdata_term(res["probe"], res["skel"], cfg["template"]), skel_term(res["skel"]))


def coq_verdict(ctx, term, name):
    """check_case on one case, parsed."""
    flat = coq_show(ctx, MODS, "check_case (%s)" % term, name=name)
    v = {}
    for k in ("v_guards", "v_data", "v_names", "v_wf_model", "v_wf_ext"):
        m = re.search(k + r" := (true|false)", flat)
        v[k] = (m.group(1) == "true") if m else None
    for k in ("v_model_fail", "v_ext_fail", "v_diff", "v_data_fail"):
        m = re.search(k + r" := \[(.*?)\]", flat)
        v[k] = [int(x.replace("%nat", "")) for x in m.group(1).split(";") if x.strip()] if m else None
    if any(x is None for x in v.values()):
        v["raw"] = flat[:1500]
    return v


# =========================================================================================
# check
# =========================================================================================
def describe(cfg, res=None):
    d = {"template": cfg["template"], "formatter": cfg["formatter"], "placement": cfg["placement"], "template-data": cfg["opts"],
         "filename": cfg.get("filename"), "stream": cfg["stream"]}
    if cfg.get("replace"):
        d["replace-type"] = cfg.get("replace_what")
    if res is not None:
        d.update(interfaces=res.get("names"), stage=res.get("stage"), errors=res.get("errors", [])[:8], excluded=res.get("excluded"))
    return d


def sources_of(cfg):
    if cfg.get("files") is not None:
        return cfg["files"]
    return gen_pkgs.src_files(cfg["module"])


def shrink_interfaces(ctx, cfg, res):
    """Smallest set of interfaces (then of methods is not attempted: the AST is kept intact) that still fails."""
    names = list(res.get("names") or [])
    k = 0

    def norm(errs):
        return {re.sub(r"\d+", "N", e) for e in errs}
    orig = norm(res.get("errors", []))

    def fails(ns):
        # still failing, and with nothing but (a subset of) the original messages: a smaller input must not leave
        # the class of the original failure
        nonlocal k
        k += 1
        c = dict(cfg, candidates=ns, id=900000 + cfg["id"] * 100 + k, no_probe=True, opts=dict(cfg["opts"]))
        r = run_config(ctx, c)
        bad = bool(r.get("errors")) or r["stage"] == "mockery-failed"
        return bad and (norm(r.get("errors", [])) <= orig or r["stage"] == "mockery-failed" == res["stage"]), r
    best = res
    i = 0
    while i < len(names) and len(names) > 1:
        cand = names[:i] + names[i + 1:]
        bad, r = fails(cand)
        if bad:
            names, best = cand, r
        else:
            i += 1
    return names, best


def check(ctx, only=None):
    import time as _t
    phases, _t0 = {}, _t.time()

    def mark(name):
        nonlocal _t0
        phases[name] = round(_t.time() - _t0, 1); _t0 = _t.time()
    known = load_known("C01")
    gate = proof_gate(ctx)
    mark("proof_gate")
    if not ctx.build_tree(drivers=["goscope"]):
        ctx.write_evidence(gate, 0, 0, "build failed", [])
        return
    thorough = ctx.thorough()
    reserved_code = []
    if only is not None:
        cfgs = only
    else:
        nmod = int(os.environ.get("C01_MODULES", "60" if thorough else "5"))
        modules = [gen_module(ctx.rng, k) for k in range(nmod)]
        cm = corpus_module()
        if cm:
            modules.insert(0, cm)
        reserved_code = reserved_from_code(ctx.tree)
        modules.insert(1 if cm else 0, gennames_module(reserved_code))
        modules.insert(1 if cm else 0, replace_module())
        modules.insert(1 if cm else 0, multi_module(ctx.rng, 6 if thorough else 4))
        if thorough:
            modules.insert(1 if cm else 0, multi_module(ctx.rng))
            modules.insert(1 if cm else 0, multi_module(ctx.rng))
        cfgs = make_configs(ctx.rng, modules, thorough)
        if envflag("C01_GOMOD_SPELLINGS"):           # owned by C09 (DESIGN row 3); off by default
            for k, c in enumerate(cfgs):
                if c["placement"] == "inpkg" and k % 4 == 0 and c.get("files") is None:
                    c["gomod_line"] = ['module "%s"' % gen_pkgs.MOD, "module %s // comment" % gen_pkgs.MOD, "module (\n\t%s\n)" % gen_pkgs.MOD][k % 3]
        cfgs += witness_configs(len(cfgs))
    mark("build_and_generate")
    results = pmap(lambda c: run_config(ctx, c), cfgs)
    mark("mockery_and_typecheck")
    main = [(c, r) for c, r in zip(cfgs, results) if c["stream"] == "main"]
    wit = [(c, r) for c, r in zip(cfgs, results) if c["stream"] == "witness"]

    # ---------------- oracle: every written file type-checks in its destination package
    oracle_fail = [(c, r) for c, r in main if r["stage"] in ("mockery-failed", "probe-failed", "guards-unstable") or r.get("errors") or (r["stage"] == "done" and r.get("go_rc"))]
    for c, r in oracle_fail[:3]:
        names, small = (r.get("names"), r)
        if r["stage"] in ("done", "mockery-failed") and r.get("names"):
            names, small = shrink_interfaces(ctx, c, r)
        rp = ctx.write_replay("oracle-%d" % c["id"], {
            "what": "a file written by mockery does not type-check in its destination package (or mockery failed to write it)",
            "config": describe(c, r), "interfaces": names, "errors": small.get("errors", [])[:12], "mockery_log": small.get("mockery_log"),
            "sources": sources_of(c), "generated": (small.get("source") or "")[:20000],
            "case": {"files": sources_of(c), "template": c["template"], "formatter": c["formatter"], "placement": c["placement"], "opts": c["opts"],
                     "filename": c.get("filename"), "src_name": c["src_name"], "src_path": c["src_path"], "pkgnames": c["pkgnames"], "interfaces": names,
                     "replace": c.get("replace"), "multi": c.get("multi", False)}})
        ctx.violation(rp)

    # ---------------- translator + correspondence inside Coq
    expanded = []
    for c, r in main:
        if c.get("multi"):
            expanded += [(dict(c, one_file=sub["names"][0]), sub) for sub in r.get("files", [])]
        else:
            expanded.append((c, r))
    done = [(c, r) for c, r in expanded if r["stage"] == "done" and not r.get("errors") and r.get("skel") and r.get("probe")]
    frame = [(c, r) for c, r in main if r.get("frame_diff")]
    if frame and not oracle_fail:
        rp = ctx.write_replay("frame", {
            "what": "a file's data model (imports, qualifiers, names) differs between the run that writes it alone and the run that "
                    "writes it together with other files of the same destination package; all written files type-check",
            "obligation": "frame property: the imports / skeleton of a file depend only on its own interfaces (Properties/C01.v C01_files_independent is about the model)",
            "examples": [{"config": describe(c, r), "differences": r["frame_diff"][:4], "sources": sources_of(c)} for c, r in frame[:2]]})
        ctx.violation(rp, nofail=True)
    terms = [case_term(c, r) for c, r in done]
    mark("oracle_classification")
    # balanced shards: the big corpus cases come first in the list, so deal the cases out round robin
    nsh = max(1, min(JOBS, len(terms) // 6 or 1))
    perm = [i for k in range(nsh) for i in range(k, len(terms), nsh)]
    bad_p, errs = coq_mismatches(ctx, MODS, [terms[i] for i in perm], shard=max(6, -(-len(terms) // nsh))) if terms else ([], [])
    bad = sorted(perm[b] for b in bad_p)
    mark("coq_cases")
    skel_errors = [(c, r) for c, r in expanded if r["stage"] == "done" and not r.get("skel")]
    # generated names: template/var.go's varName against the model gen_name (Gen/Skeleton.v), and its reserved list
    # (parsed from the source text of this tree) against reserved_names
    gen_pairs, gen_info = [], {}
    for c, r in main:
        m = c.get("module") or {}
        if m.get("gennames") and r.get("probe"):
            byname = {i["name"]: i for i in r["probe"]["ifaces"]}
            for iname, mname, T in m["gen_expect"]:
                i = byname.get(iname)
                if i:
                    for mm in i["methods"]:
                        if mm["name"] == mname and mm["params"]:
                            gen_pairs.append((T, mm["params"][0]["name"]))
    gen_pairs = sorted(set(gen_pairs))
    gen_bad, gen_res_ok = [], None
    if only is None:
        rc, out, err = coq_eval(ctx, "gen_names", "From Mk Require Import Lib.Bytes %s." % MODS,
                                "Definition pairs := %s.\nDefinition code_list := %s." % (
                                    coq_list("(%s, %s)" % (coq_bytes(a), coq_bytes(b)) for a, b in gen_pairs), strs(reserved_code)),
                                "Definition G := Eval vm_compute in (gen_mismatches pairs, reserved_agrees code_list).\nPrint G.")
        flat = " ".join(out.split())
        mm_ = re.search(r"G = \(\[(.*?)\], (true|false)\)", flat)
        if rc != 0 or not mm_:
            errs.append("gen_names: " + (err[-600:] or flat[:300]))
        else:
            gen_bad = [gen_pairs[int(x.replace("%nat", ""))] for x in mm_.group(1).split(";") if x.strip()]
            gen_res_ok = mm_.group(2) == "true"
        gen_info = {"pairs_checked": len(gen_pairs), "mismatches": gen_bad[:10], "reserved_list_from_code": reserved_code,
                    "reserved_list_agrees_with_model": gen_res_ok}
        if (gen_bad or gen_res_ok is False) and not oracle_fail:
            rp = ctx.write_replay("generated-names", {
                "what": "template/var.go varName no longer agrees with the model gen_name / reserved_names (Gen/Skeleton.v); "
                        "no written file failed to type-check",
                "obligation": "Harness/C01.v gen_mismatches, reserved_agrees; theorem C01_generated_names_avoid_reserved is about the model",
                "type_name_vs_reported_parameter_name": gen_bad[:20], "reserved_list_parsed_from_var.go": reserved_code,
                "reserved_list_of_the_model": RESERVED_PINNED})
            ctx.violation(rp, nofail=True)
    if not gate["ok"] and not oracle_fail:
        ctx.violation(gate["replay"], nofail=True)
    if (bad or errs or skel_errors) and not oracle_fail:
        detail = []
        for k in bad[:3]:
            c, r = done[k]
            detail.append({"config": describe(c, r), "verdict": coq_verdict(ctx, terms[k], "verdict_%d" % k), "sources": sources_of(c),
                           "generated": r.get("source", "")[:20000]})
        rp = ctx.write_replay("correspondence", {
            "what": "the model skeleton (Gen/Skeleton.v) or the scoping judgement disagrees with the files the templates wrote; "
                    "the Go type checker accepted all %d written files" % len(done),
            "obligation": "Harness/C01.v case_ok: guards, data_ok, file_names_ok, wf_file model, wf_file extracted (translator lemma), skel_diff = []",
            "mismatching_cases": len(bad), "coq_errors": errs, "goscope_errors": [r.get("skel_error") for _, r in skel_errors][:3], "examples": detail})
        ctx.violation(rp, nofail=True)

    # ---------------- witness stream: every known-finding class still fails with its listed symptom
    kf_ids = {k["id"]: k for k in known}
    wit_report = []
    wterms, wdone = [], []
    for c, r in wit:
        w = c["witness"]
        entry = kf_ids.get(w["class"])
        text = "\n".join(r.get("errors", []))
        ok = entry is not None and bool(r.get("errors")) and re.search(w["symptom"], text) and re.search(entry["symptom"], text)
        wit_report.append({"id": w["id"], "class": w["class"], "symptom_seen": r.get("errors", [])[:3], "as_listed": bool(ok)})
        if ok:
            ctx.known("%s witness=%s: %s" % (w["class"], w["id"], r["errors"][0][:160]))
        else:
            rp = ctx.write_replay("known-finding-changed-%s" % w["id"], {
                "what": "known finding %s: the listed symptom no longer appears for its witness (fixed, or fails differently)" % w["class"],
                "expected_symptom": w["symptom"], "observed": r.get("errors", [])[:8], "stage": r.get("stage"), "mockery_log": r.get("mockery_log"),
                "config": describe(c, r), "sources": c["files"], "obligation": "known/C01.json entry %s" % w["class"]})
            ctx.violation(rp, nofail=not r.get("errors"))
        if r.get("probe") and r.get("skel") and w.get("skeleton_visible"):
            wterms.append(case_term(c, r)); wdone.append(w)
    # the Coq guards must put every witness inside its class (guards = false), and where the failure is a scoping
    # failure the judgement must see it on the extracted skeleton as well
    wbad = []
    if wterms:
        rc, out, err = coq_eval(ctx, "witness_guards", "From Mk Require Import Lib.Bytes %s." % MODS,
                                "Definition cases := [\n%s\n]." % ";\n".join(wterms),
                                "Definition G := Eval vm_compute in (map (fun c => (guards c, wf_file (model c), wf_file (c_ext c))) cases).\nPrint G.")
        flat = " ".join(out.split())
        trip = re.findall(r"\((true|false), (true|false), (true|false)\)", flat)
        if rc != 0 or len(trip) != len(wterms):
            wbad.append("coqc failed on the witness cases: " + (err[-800:] or flat[:300]))
        else:
            for w, (g, wm, we) in zip(wdone, trip):
                if g == "true":
                    wbad.append("witness %s is outside the Coq guards (guards = true)" % w["id"])
            for rep in wit_report:
                for w, (g, wm, we) in zip(wdone, trip):
                    if w["id"] == rep["id"]:
                        rep.update(coq_guards=g, coq_wf_model=wm, coq_wf_extracted=we)
    if wbad and not oracle_fail:
        rp = ctx.write_replay("witness-guards", {"what": "Coq guard predicates and the witness stream disagree", "problems": wbad,
                                                 "obligation": "Harness/C01.v guards on corpus/C01/witnesses.json"})
        ctx.violation(rp, nofail=True)

    # ---------------- evidence
    hist = {"template": {}, "formatter": {}, "placement": {}, "option": {}, "filename": {}, "excluded_by_guard": {}, "outside_guarantee": {},
            "stage": {}, "types": {}, "method_shape": {}}
    seen_mod = set()
    n_ifaces = n_methods = 0
    for c, r in main:
        for k in ("template", "formatter", "placement"):
            hist[k][c[k]] = hist[k].get(c[k], 0) + 1
        for o, v in c["opts"].items():
            key = "%s=%s" % (o, v if isinstance(v, bool) else "set")
            hist["option"][key] = hist["option"].get(key, 0) + 1
        if c["placement"] == "inpkg":
            hist["filename"][c["filename"]] = hist["filename"].get(c["filename"], 0) + 1
        for k, v in list(r["excluded"].items()) + list(c.get("static_excluded", {}).items()):
            hist["excluded_by_guard"][k] = hist["excluded_by_guard"].get(k, 0) + v
        for k, v in c["outside"].items():
            hist["outside_guarantee"][k] = hist["outside_guarantee"].get(k, 0) + v
        hist["stage"][r["stage"]] = hist["stage"].get(r["stage"], 0) + 1
        if c.get("module") is not None and id(c["module"]) not in seen_mod:
            seen_mod.add(id(c["module"])); type_hist(c["module"], hist["types"])
        if c.get("multi"):
            hist["multi_file_runs"] = hist.get("multi_file_runs", 0) + 1
            hist["files_in_multi_file_runs"] = hist.get("files_in_multi_file_runs", 0) + len(r.get("files", []))
        if r.get("probe"):
            n_ifaces += len(r["probe"]["ifaces"]); n_methods += sum(len(i["methods"]) for i in r["probe"]["ifaces"])
            for i in r["probe"]["ifaces"]:
                for mm in i["methods"]:
                    var = bool(mm["params"]) and mm["params"][-1]["variadic"]
                    key = "%s variadic=%s results=%s%s%s" % (c["template"], var, min(len(mm["results"]), 2),
                                                           " unroll=%s" % (c["opts"].get("unroll-variadic") is True) if c["template"] == "testify" and var else "",
                                                           " generic" if i["tparams"] else "")
                    hist["method_shape"][key] = hist["method_shape"].get(key, 0) + 1
    distinct = len({json.dumps([c["template"], c["formatter"], c["placement"], c["opts"], r.get("names"), sorted(sources_of(c).items())], sort_keys=True, default=str)
                    for c, r in done if sum(len(i["methods"]) for i in r["probe"]["ifaces"]) > 0})
    gate = dict(gate)
    gate["obligations"] += len(terms)
    gate["discharged"] += (len(terms) - len(bad)) if gate["ok"] and not errs else 0
    gate["trusted_extra"] = [
        "Go toolchain (go build / go test -run '^$') as the oracle for expression typing inside template bodies, which the skeleton judgement does not formalise",
        "harness/go/goscope (stdlib go/parser) as translator from written Go files to skeleton terms; harness/probes/c01_probe.templ as the dump of the template data model",
        "the template data model itself (names after collision resolution, rendered types, imports) is an INPUT of the skeleton models: its faithfulness is C14/C15's claim"]
    samples = [dict(describe(c, r), first_lines=(r.get("source") or "").split("\n")[:12]) for c, r in done[:2]]
    ctx.write_evidence(gate, len(main) + len(wit), distinct,
                       "one evaluation = one mockery configuration (module x template x formatter x placement x template-data) run through "
                       "probe, real template, Go type checker, goscope and the Coq case check; non-trivial = at least one method mocked; "
                       "distinct by (configuration, selected interfaces, source files)",
                       samples,
                       extra={"histogram": hist, "mocked_interfaces": n_ifaces, "mocked_methods": n_methods, "oracle_failures": len(oracle_fail),
                              "model_mismatches": len(bad), "translator_lemmas_checked": len(terms), "witnesses": wit_report,
                              "generated_names": gen_info, "phase_seconds": phases,
                              "switches": {k: envflag(k) for k in ("C01_VARIADIC_MULTI", "C01_C03_LOCALS", "C01_GOMOD_SPELLINGS")}},
                       assumptions=["go.mod is written in the plain spelling `module example.com/m` (other spellings: property C09, switch C01_GOMOD_SPELLINGS=1)",
                                    "template-data is set at the top level of the configuration (per-level inheritance: property C08)"])


def replay(ctx, path):
    d = json.loads(open(path).read())
    if "case" not in d:
        check(ctx)
        return
    k = d["case"]
    cfg = {"id": 0, "files": k["files"], "template": k["template"], "formatter": k["formatter"], "placement": k["placement"], "opts": dict(k["opts"]),
           "filename": k.get("filename") or "mocks_test.go", "src_name": k["src_name"], "src_path": k["src_path"], "pkgnames": k["pkgnames"],
           "stream": "main", "candidates": list(k["interfaces"] or []), "outside": {}, "no_probe": True, "replace": k.get("replace"), "multi": k.get("multi", False)}
    check(ctx, only=[cfg])
