"""C20 - release tagger: dry-run mutates nothing; only strictly newer versions are tagged.

Implementation side: scratch git repositories built with the git CLI (the ground truth for
the repository state before and after), `tools tag` run inside them.  Model side:
Misc/Tag.v [decide] evaluated inside Coq on the observed state before the run.  Oracle: the
property text evaluated directly on (state before, flag, state after, exit status) with an
independent semver.org implementation (no Coq involved)."""
import hashlib, json, os, re, shutil, subprocess
from common import *

HM = "Misc.Semver Misc.Tag Harness.C20"
U64 = 1 << 64

# ------------------------------------------------------------------ git helpers
def git_env(ctx):
    home = ctx.scratch / "home"
    home.mkdir(exist_ok=True)
    env = {"PATH": os.environ.get("PATH", "/usr/bin:/bin"), "HOME": str(home),
           "GIT_CONFIG_GLOBAL": "/dev/null", "GIT_CONFIG_SYSTEM": "/dev/null", "GIT_CONFIG_NOSYSTEM": "1",
           "GIT_AUTHOR_NAME": "a", "GIT_AUTHOR_EMAIL": "a@x", "GIT_COMMITTER_NAME": "a", "GIT_COMMITTER_EMAIL": "a@x",
           "GIT_AUTHOR_DATE": "2020-01-01T00:00:00Z", "GIT_COMMITTER_DATE": "2020-01-01T00:00:00Z",
           "LC_ALL": "C", "TZ": "UTC", "XDG_CONFIG_HOME": str(home / "xdg")}
    return env


class Git:
    def __init__(self, env, cwd, log=None):
        self.env, self.cwd, self.log = env, str(cwd), log if log is not None else []

    def __call__(self, *args, inp=None, ok=False, quiet=False):
        if not quiet:
            self.log.append("git " + " ".join(a if re.fullmatch(r"[\w@%+=:,./^{}~-]+", a) else "'%s'" % a.replace("'", "'\\''") for a in args)
                        + ("  <<< %r" % inp.decode(errors="replace") if inp else ""))
        p = subprocess.run(["git", "-c", "advice.nestedTag=false", "-c", "advice.detachedHead=false"] + list(args), cwd=self.cwd, env=self.env,
                           input=inp, stdout=subprocess.PIPE, stderr=subprocess.PIPE, timeout=120)
        self.err = p.stderr.decode(errors="replace").strip()
        if p.returncode != 0 and not ok:
            self.log.append("  # failed (%d): %s" % (p.returncode, self.err[:200]))
        return p.returncode, p.stdout

    def must(self, *args, inp=None):
        rc, out = self(*args, inp=inp, quiet=True)
        if rc != 0:
            raise RuntimeError("git %s failed (%d) in %s: %s" % (" ".join(args), rc, self.cwd, self.err[:500]))
        return out


# ------------------------------------------------------------------ independent semver (semver.org 2.0.0)
STRICT = re.compile(rb"^v?(0|[1-9][0-9]*)\.(0|[1-9][0-9]*)\.(0|[1-9][0-9]*)"
                    rb"(?:-((?:0|[1-9][0-9]*|[0-9]*[a-zA-Z-][0-9a-zA-Z-]*)(?:\.(?:0|[1-9][0-9]*|[0-9]*[a-zA-Z-][0-9a-zA-Z-]*))*))?"
                    rb"(?:\+([0-9a-zA-Z-]+(?:\.[0-9a-zA-Z-]+)*))?$")


def sv_parse(name):
    """strict semantic version (optional leading v) -> (major, minor, patch, [pre ids], meta) or None"""
    m = STRICT.match(name)
    if not m:
        return None
    return (int(m.group(1)), int(m.group(2)), int(m.group(3)), m.group(4).split(b".") if m.group(4) else [], m.group(5) or b"")


def sv_cmp(a, b):
    """semver.org precedence: -1, 0, 1 (build metadata ignored)"""
    for x, y in zip(a[:3], b[:3]):
        if x != y:
            return -1 if x < y else 1
    pa, pb = a[3], b[3]
    if not pa or not pb:
        return 0 if (not pa and not pb) else (1 if not pa else -1)
    for x, y in zip(pa, pb):
        if x == y:
            continue
        nx, ny = x.isdigit(), y.isdigit()
        if nx and ny:
            return -1 if int(x) < int(y) else 1
        if nx != ny:
            return -1 if nx else 1
        return -1 if x < y else 1
    return (len(pa) > len(pb)) - (len(pa) < len(pb))


def sv_huge(v):
    """a numeric identifier or segment at or above 2^64 (outside the library's range)"""
    return any(x >= U64 for x in v[:3]) or any(p.isdigit() and int(p) >= U64 for p in v[3])


# ------------------------------------------------------------------ generators
PRES = [b"rc.1", b"rc.2", b"rc.10", b"alpha", b"alpha.1", b"alpha.beta", b"beta", b"beta.2", b"beta.11", b"0", b"1", b"2",
        b"rc-1", b"x.7.z.92", b"-", b"0a", b"a0", b"lock", b"rc.lock", b"0.3.7", b"RC.1", b"1.a", b"a.1"]
METAS = [b"b1", b"b.2", b"001", b"exp.sha.5114f85", b"a.lock", b"-"]
MAJORS = [0, 1, 2, 3, 3, 3, 4, 10]
NONSEMVER = [b"nightly", b"latest", b"release-2024", b"foo/bar", b"v", b"vNext", b"nightly-\xc3\xa9", b"3", b"v3", b"v4", b"v1", b"v0", b"v10",
             b"v3.1", b"v3.0", b"3.2", b"v3-rc", b"v3.1-beta", b"release/3", b"rel/v3.1"]
# names with >= 3 dot-separated parts that NewVersion rejects: they abort the tool
ABORTING = [b"a.b.c", b"v3.1.0.0", b"v3.x.0", b"tools/v1.2.3", b"release.2024.01", b"v3.0.18446744073709551616", b"v3.1.0-01",
            b"v3.1.0_1", b"V3.1.0", b"v3.1.0-rc..1", b"v3.1.0-rc.1.", b"x.y.z.w", b"v3.1.0+a+b.c", b"v3.1.0-a.b/c", b"vv3.1.0"]
# accepted by NewVersion with >= 3 parts although not (or not obviously) full versions
COERCED = [b"v1.2-rc.1.x", b"v3-a.b.c", b"v03.00.9", b"v3.01.2", b"3.0.9", b"v3.0.18446744073709551615", b"v3.5-x.y.z", b"v3+a.b.c", b"v3.1+b.c"]
BAD_VERSIONS = [b"", b"abc", b"v", b"v3.", b"v3.1.0.0", b"v3.1.0-", b"v3.1.0-01", b"v3.1.0+", b"v3.1.0-a..b", b"v99999999999999999999.0.0",
                b"v3.1.0_1", b"V3.1.0", b"vv3.1.0", b"v-3.1.0", b"v3.1.0-rc.1+", b"v3..0", b"3.1.0.", b"v3.1.0+a+b", b"v3.18446744073709551616.0"]
COERCED_VERSIONS = [b"v3", b"v3.1", b"3", b"4.2", b"v03.1.0", b"v3.01.00", b"v3-rc.1", b"v3.2-beta", b"v3+meta", b"v0", b"v3.0.18446744073709551615"]
FLAGS = [None, None, ["--dry-run=true"], ["--dry-run=false"], ["--dry-run=false"], ["--dry-run=false"], ["--dry-run"], ["--dry-run=0"], ["--dry-run=1"]]
DIRTY = ["clean"] * 14 + ["untracked", "modified", "staged_new", "staged_mod", "deleted", "ignored_only", "emptydir",
         "mode", "untracked_subdir", "env_uncommitted"]


def flag_is_dry(flag):
    return flag is None or flag[0] in ("--dry-run", "--dry-run=true", "--dry-run=1")


def gen_semver(rng, major=None, small=True):
    mj = rng.choice(MAJORS) if major is None else major
    hi = 3 if small else 30
    s = b"%d.%d.%d" % (mj, rng.randint(0, hi), rng.randint(0, hi))
    if rng.random() < 0.3:
        s += b"-" + rng.choice(PRES)
    if rng.random() < 0.12:
        s += b"+" + rng.choice(METAS)
    return (b"v" if rng.random() < 0.9 else b"") + s


def gen_repo(rng, malformed=False):
    ncommits = rng.choice([1, 1, 2, 3, 4])
    focus = rng.choice(MAJORS)
    tags, names = [], set()
    for _ in range(rng.choice([0, 1, 2, 3, 4, 5, 6, 8, 10])):
        r = rng.random()
        if r < 0.62:
            name = gen_semver(rng, focus if rng.random() < 0.7 else None)
        elif r < 0.88:
            name = rng.choice(NONSEMVER)
        else:
            name = rng.choice(COERCED)
        if name in names:
            continue
        names.add(name)
        k = rng.random()
        kind = "light" if k < 0.5 else "annot" if k < 0.8 else "alias" if k < 0.86 else "renamed" if k < 0.92 else "nested" if k < 0.95 else "blob" if k < 0.975 else "tree"
        t = {"name": name, "kind": kind, "at": rng.randrange(ncommits)}
        if kind == "renamed":
            t["objname"] = rng.choice([b"a.b.c", b"v9.9.9", b"other", gen_semver(rng, focus), b"v3.1.0.0"])
        tags.append(t)
    if malformed:
        for _ in range(rng.choice([1, 1, 2])):
            name = rng.choice(ABORTING)
            if name not in names:
                names.add(name)
                tags.insert(rng.randrange(len(tags) + 1), {"name": name, "kind": rng.choice(["light", "annot"]), "at": rng.randrange(ncommits)})
    head = "branch"
    r = rng.random()
    if r < 0.12 and ncommits > 1:
        head = "detached:%d" % rng.randrange(ncommits - 1)
    elif r < 0.15:
        head = "unborn"
    return {"commits": ncommits, "tags": tags, "head": head, "packed": rng.choice(["none", "none", "all", "mixed"]),
            "branches": rng.random() < 0.4, "focus": focus}


def existing_versions(repo):
    out = []
    for t in repo["tags"]:
        v = sv_parse(t["name"])
        if v:
            out.append((t["name"], v))
    return out


def gen_runs(rng, repo, n):
    """requested versions biased to the boundary of the existing tags of one major"""
    ex = existing_versions(repo)
    runs = []
    for _ in range(n):
        r = rng.random()
        same = [x for x in ex if x[1][0] == repo["focus"]] or ex
        if r < 0.07:
            ver = rng.choice(BAD_VERSIONS)
        elif r < 0.14:
            ver = rng.choice(COERCED_VERSIONS)
        elif r < 0.62 and same:
            name, v = rng.choice(same) if rng.random() < 0.4 else max(same, key=lambda x: _key(x[1]))
            mj, mn, pt, pre, meta = v
            m = rng.random()
            if m < 0.2:
                ver = name                                                  # equal: nothing to do
            elif m < 0.3:
                ver = b"v%d.%d.%d" % (mj, mn, pt) + (b"-" + b".".join(pre) if pre else b"") + b"+" + rng.choice(METAS)   # same precedence
            elif m < 0.55:
                ver = b"v%d.%d.%d" % (mj, mn, pt + 1)
            elif m < 0.65:
                ver = b"v%d.%d.%d" % (mj, mn + 1, 0)
            elif m < 0.8:
                ver = b"v%d.%d.%d-%s" % (mj, mn, pt, rng.choice(PRES))       # a pre-release of an existing release
            elif m < 0.9 and pre:
                ver = b"v%d.%d.%d" % (mj, mn, pt)                            # the release of an existing pre-release
            else:
                ver = b"v%d.%d.%d" % (mj, mn, max(pt - 1, 0)) if pt else b"v%d.%d.%d" % (mj, max(mn - 1, 0), 9)
        else:
            ver = gen_semver(rng, repo["focus"] if rng.random() < 0.6 else None)
        runs.append({"version": ver, "flag": rng.choice(FLAGS), "dirty": rng.choice(DIRTY), "env": rng.choice(["parent", "parent", "tracked"])})
    for x in runs:
        if x["dirty"] == "env_uncommitted":
            x["env"] = "tracked"
    return runs


def _key(v):
    import functools
    return functools.cmp_to_key(sv_cmp)(v)


# ------------------------------------------------------------------ building repositories
def build_base(ctx, env, repo, path):
    path.mkdir(parents=True)
    g = Git(env, path)
    g("init", "-q", "-b", "main", ".")
    shas = []
    if repo["head"] != "unborn":
        (path / ".gitignore").write_text("ignored.tmp\n")
        for k in range(repo["commits"]):
            (path / "a.txt").write_text("content %d\n" % k)
            g.log.append("echo 'content %d' > a.txt%s" % (k, "; echo ignored.tmp > .gitignore" if k == 0 else ""))
            g("add", ".")
            g("commit", "-q", "-m", "c%d" % k)
            shas.append(g("rev-parse", "HEAD", quiet=True)[1].decode().strip())
    annotated = []
    packed_at = len(repo["tags"]) // 2 if repo["packed"] == "mixed" else None
    for idx, t in enumerate(repo["tags"]):
        if not shas:
            break
        if packed_at is not None and idx == packed_at:
            g("pack-refs", "--all")
        name, sha = t["name"].decode("utf-8", "surrogateescape"), shas[min(t["at"], len(shas) - 1)]
        kind = t["kind"]
        if kind in ("alias", "nested") and not annotated:
            kind = "annot"
        if kind == "light":
            g("tag", name, sha)
        elif kind == "annot":
            if g("tag", "-a", "-m", "msg " + name, name, sha)[0] == 0:
                annotated.append(name)
        elif kind == "alias":          # a second ref to an existing tag object (its recorded name differs)
            g("tag", name, annotated[idx % len(annotated)])
        elif kind == "nested":
            g("tag", "-a", "-m", "nested", name, annotated[idx % len(annotated)])
        elif kind == "renamed":        # tag object whose "tag" header is not the ref name
            body = b"object %s\ntype commit\ntag %s\ntagger a <a@x> 1577836800 +0000\n\nmsg\n" % (sha.encode(), t["objname"])
            rc, out = g("hash-object", "-t", "tag", "-w", "--stdin", inp=body)
            if rc == 0:
                g("update-ref", "refs/tags/" + name, out.decode().strip())
        elif kind == "blob":
            g("tag", name, g("rev-parse", sha + ":a.txt", quiet=True)[1].decode().strip())
        elif kind == "tree":
            g("tag", name, g("rev-parse", sha + "^{tree}", quiet=True)[1].decode().strip())
    if repo["branches"] and shas:
        g("branch", "dev", shas[0])
        g("update-ref", "refs/remotes/origin/main", shas[-1])
        g("update-ref", "refs/notes/x", shas[0])
    if repo["packed"] == "all":
        g("pack-refs", "--all")
    if repo["head"].startswith("detached") and shas:
        g("checkout", "-q", "--detach", shas[int(repo["head"].split(":")[1])])
    return g.log


def prepare_run(ctx, env, base, rdir, run):
    """copy the base repository and put it into the state of this run; returns the git log"""
    repo = rdir / "repo"
    rdir.mkdir(parents=True)
    subprocess.run(["cp", "-a", str(base), str(repo)], check=True)
    g = Git(env, repo)
    unborn = g("rev-parse", "-q", "--verify", "HEAD", ok=True, quiet=True)[0] != 0
    line = b"VERSION=" + run["version"] + b"\n"
    if run["env"] == "tracked" and not unborn:
        if run["dirty"] == "env_uncommitted":
            (repo / "mockery-tools.env").write_bytes(b"VERSION=v0.0.1\n")
            g("add", "mockery-tools.env"); g("commit", "-q", "-m", "env")
            (repo / "mockery-tools.env").write_bytes(line)
            g.log.append("echo %r > mockery-tools.env   # not committed" % line.decode(errors="replace").strip())
        else:
            (repo / "mockery-tools.env").write_bytes(line)
            g.log.append("echo %r > mockery-tools.env" % line.decode(errors="replace").strip())
            g("add", "mockery-tools.env"); g("commit", "-q", "-m", "env")
    else:
        (rdir / "mockery-tools.env").write_bytes(line)
        g.log.append("echo %r > ../mockery-tools.env" % line.decode(errors="replace").strip())
    d = run["dirty"]
    if unborn and d in ("modified", "staged_mod", "deleted", "mode"):
        d = "untracked"
    if d == "untracked":
        (repo / "new.txt").write_text("x\n")
    elif d == "untracked_subdir":
        (repo / "sub").mkdir(); (repo / "sub" / "new.txt").write_text("x\n")
    elif d == "modified":
        (repo / "a.txt").write_text("changed\n")
    elif d == "staged_new":
        (repo / "new.txt").write_text("x\n"); g("add", "new.txt")
    elif d == "staged_mod":
        (repo / "a.txt").write_text("changed\n"); g("add", "a.txt")
    elif d == "deleted":
        (repo / "a.txt").unlink()
    elif d == "ignored_only":
        (repo / "ignored.tmp").write_text("x\n")
    elif d == "emptydir":
        (repo / "emptydir").mkdir()
    elif d == "mode":
        os.chmod(repo / "a.txt", 0o755)
    if d not in ("clean", "env_uncommitted"):
        g.log.append("# work tree: %s" % d)
    return g.log


def snapshot(root):
    """every path under root with type, mode and content hash"""
    h = hashlib.sha256()
    for dp, dns, fns in os.walk(root):
        dns.sort()
        rel = os.path.relpath(dp, root)
        h.update(("D %s\n" % rel).encode("utf-8", "surrogateescape"))
        for f in sorted(fns):
            p = os.path.join(dp, f)
            st = os.lstat(p)
            data = os.readlink(p).encode() if os.path.islink(p) else open(p, "rb").read()
            h.update(("F %s/%s %o " % (rel, f, st.st_mode)).encode("utf-8", "surrogateescape") + hashlib.sha256(data).digest() + b"\n")
    return h.hexdigest()


def observe(env, repo):
    """state of the repository as the git CLI reports it; {"broken": msg} if git cannot read it"""
    try:
        return observe_(env, repo)
    except RuntimeError as e:
        return {"broken": str(e), "refs": [], "head": None, "head_sym": "", "status": "", "snap": snapshot(repo), "deref": {}}


def observe_(env, repo):
    g = Git(env, repo)
    out = g.must("for-each-ref", "--format=%(refname)%00%(objecttype)%00%(objectname)%00%(tag)%00%(symref)")
    refs = []
    for ln in out.split(b"\n"):
        if ln:
            name, typ, obj, tagname, symref = ln.split(b"\x00")
            refs.append({"name": name, "type": typ.decode(), "obj": obj.decode(), "tagname": tagname, "symref": symref.decode()})
    if refs:
        out = g.must("cat-file", "--batch-check", inp=b"".join(b"%s^{}\n" % r["obj"].encode() for r in refs))
        for r, ln in zip(refs, out.split(b"\n")):
            f = ln.split()
            r["peeled"], r["peeled_type"] = (f[0].decode(), f[1].decode()) if len(f) >= 2 and f[1] != b"missing" else (r["obj"], "?")
    rc, head = g("rev-parse", "-q", "--verify", "HEAD", ok=True)
    head = head.decode().strip() if rc == 0 else None
    symh = g("symbolic-ref", "-q", "HEAD", ok=True)[1].decode().strip()
    status = g.must("status", "--porcelain").decode(errors="replace")
    # `git show-ref -d` answers from the peeled values cached in .git/packed-refs
    rc, out = g("show-ref", "-d", ok=True, quiet=True)
    deref = {}
    for ln in out.split(b"\n"):
        if ln.endswith(b"^{}"):
            sha, name = ln.split(b" ", 1)
            deref[name[:-3]] = sha.decode()
    return {"deref": deref, "refs": refs, "head": head, "head_sym": symh, "status": status, "snap": snapshot(repo)}


def run_tool(ctx, env, repo, flag):
    p = subprocess.run([ctx.bins["tools"], "tag"] + (flag or []), cwd=str(repo), env=dict(env, NO_COLOR="1"),
                       stdout=subprocess.PIPE, stderr=subprocess.PIPE, timeout=120)
    return p.returncode, p.stdout, p.stderr


EXIT = {0: "ExitOk", 8: "ExitNothing", 1: "ExitError"}


def execute(ctx, env, base, rdir, run):
    shutil.rmtree(rdir, ignore_errors=True)
    log = prepare_run(ctx, env, base, rdir, run)
    repo = rdir / "repo"
    before = observe(env, repo)
    rc, out, err = run_tool(ctx, env, repo, run["flag"])
    after = observe(env, repo)
    env_file_after = (rdir / "mockery-tools.env").read_bytes() if (rdir / "mockery-tools.env").exists() else None
    res = {"log": log, "before": before, "after": after, "exit": rc, "stdout": out, "stderr_tail": err.decode(errors="replace")[-1500:]}
    shutil.rmtree(rdir, ignore_errors=True)
    return res


# ------------------------------------------------------------------ oracle: the property text, directly
def refmap(st):
    return {r["name"]: r for r in st["refs"]}


def short(name):
    return name[len(b"refs/tags/"):] if name.startswith(b"refs/tags/") else None


def oracle(run, res):
    errs = []
    b, a, rc = res["before"], res["after"], res["exit"]
    dry = flag_is_dry(run["flag"])
    rb, ra = refmap(b), refmap(a)
    key = lambda r: (r["type"], r["obj"], r["peeled"], r["tagname"])
    changed = sorted(n for n in set(rb) | set(ra) if n not in rb or n not in ra or key(rb[n]) != key(ra[n]))
    if b.get("broken"):
        raise RuntimeError("harness: repository unreadable before the run: " + b["broken"])
    if a.get("broken"):
        return ["repository damaged: git cannot read it after the run: " + a["broken"].split(": ", 1)[-1][-200:]], True, False
    if rc not in EXIT:
        errs.append("crash: exit status %d: %s" % (rc, res["stderr_tail"][-300:]))
    for n in sorted(set(rb) & set(ra)):
        if n not in changed and b["deref"].get(n) != a["deref"].get(n):
            errs.append("repository damaged: `git show-ref -d` of the untouched %s changed: %s -> %s (peeled values in .git/packed-refs)" % (
                n.decode(errors="replace"), b["deref"].get(n), a["deref"].get(n)))
    if (a["head"], a["head_sym"]) != (b["head"], b["head_sym"]):
        errs.append("HEAD changed")
    if a["status"] != b["status"]:
        errs.append("work tree / index status changed: %r -> %r" % (b["status"], a["status"]))
    if dry and changed:
        errs.append("dry-run changed refs: %s" % [n.decode(errors="replace") for n in changed])
    if dry and not changed and a["snap"] != b["snap"]:
        errs.append("dry-run mutated files of the repository (refs unchanged)")
    tags_before = [(short(n), sv_parse(short(n))) for n in rb if short(n) is not None]
    strict_before = [(n, v) for n, v in tags_before if v]
    if changed:
        if b["status"].strip():
            errs.append("tagged on a dirty work tree: %r" % b["status"])
        if rc != 0:
            errs.append("refs changed but exit status is %d" % rc)
        removed = [n for n in changed if n not in ra]
        if removed:
            errs.append("refs removed: %s" % removed)
        new = [n for n in changed if n not in rb and short(n) is not None]
        fulls = [n for n in new if sv_parse(short(n))]
        if len(fulls) != 1:
            errs.append("expected exactly one new full version tag, got %s (changed: %s)" % (fulls, changed))
        else:
            F = fulls[0]
            fv = sv_parse(short(F))
            M = b"refs/tags/v%d" % fv[0]
            if not short(F).startswith(b"v"):
                errs.append("new tag %r has no v prefix" % F)
            extra = [n for n in changed if n not in (F, M)]
            if extra:
                errs.append("refs other than the full tag and the major tag changed: %s" % extra)
            for n in (F, M):
                r = ra.get(n)
                if r is None:
                    errs.append("%s missing after tagging" % n.decode())
                elif r["peeled"] != b["head"]:
                    errs.append("%s does not point at HEAD (%s, HEAD %s)" % (n.decode(), r["peeled"], b["head"]))
            q = sv_parse(run["version"])
            if q and not sv_huge(q):
                want = b"v" + (run["version"][1:] if run["version"].startswith(b"v") else run["version"])
                if short(F) != want:
                    errs.append("requested %r but tagged %r" % (run["version"], short(F)))
            if not sv_huge(fv):
                for n, v in strict_before:
                    if v[0] == fv[0] and not sv_huge(v) and sv_cmp(fv, v) <= 0:
                        errs.append("tagged %s although the existing tag %s of the same major is not older" % (short(F).decode(), n.decode(errors="replace")))
    else:
        if a["snap"] != b["snap"] and not dry:
            errs.append("no ref changed but files of the repository were mutated")
        if not dry and rc == 0:
            errs.append("--dry-run=false: nothing was tagged but exit status is 0")
    # converse direction, on plain inputs only: every tag name with >= 3 dot parts is a strict version,
    # VERSION is a strict version, nothing at or above 2^64, acceptable ref name
    q = sv_parse(run["version"])
    plain = (q is not None and not sv_huge(q) and all(v is not None and not sv_huge(v) for n, v in tags_before if n.count(b".") >= 2)
             and not run["version"].endswith(b".lock") and b["head"] is not None)
    if plain and rc in EXIT:
        newer = sv_cmp(q, (0, 0, 0, [], b"")) > 0 and all(sv_cmp(q, v) > 0 for n, v in strict_before if v[0] == q[0])
        clean = not b["status"].strip()
        if not newer and rc != 8:
            errs.append("requested version is not newer than the existing tags: exit status %d, expected 8" % rc)
        if newer and not clean and rc != 1:
            errs.append("newer version on a dirty tree: exit status %d, expected 1" % rc)
        if newer and clean and rc != 0:
            errs.append("newer version on a clean tree: exit status %d, expected 0" % rc)
        if newer and clean and not dry and not changed:
            errs.append("--dry-run=false, clean tree, newer version: nothing was tagged")
    return errs, bool(changed), plain


# ------------------------------------------------------------------ Coq terms
def state_terms(res, run):
    b, a = res["before"], res["after"]
    ids = {}
    for st in (b, a):
        for r in st["refs"]:
            ids.setdefault(r["peeled"], len(ids))
        if st["head"]:
            ids.setdefault(st["head"], len(ids))

    def ref_term(r):
        kind = "Annot %s" % coq_bytes(r["tagname"]) if r["type"] == "tag" else "Light"
        return "{| r_name := %s; r_kind := %s; r_target := %d |}" % (coq_bytes(r["name"]), kind, ids[r["peeled"]])
    dirty = bool(b["status"].strip())
    inp = "{| i_refs := %s; i_version := %s; i_dirty := %s; i_dry := %s; i_head := %s |}" % (
        coq_list(ref_term(r) for r in b["refs"]), coq_bytes(run["version"]), coq_bool(dirty), coq_bool(flag_is_dry(run["flag"])),
        coq_opt(ids.get(b["head"]) if b["head"] else None, str))
    out = res["stdout"].split(b"\n")[-1]      # on a dirty tree go-git's status listing is printed first (not modelled)
    m = re.fullmatch(rb"v([^,]*),v([^,]*)", out)
    if out == b"":
        o = "None"
    elif m:
        o = "(Some (%s, %s))" % (coq_bytes(m.group(1)), coq_bytes(m.group(2)))
    else:
        o = "(Some (%s, %s))" % (coq_bytes(b"<unparsable stdout>"), coq_bytes(out[:60]))
    return inp, "{| c_in := %s; c_exit := %s; c_refs := %s; c_out := %s |}" % (
        inp, EXIT.get(res["exit"], "ExitOk") if res["exit"] in EXIT else "ExitNothing", coq_list(ref_term(r) for r in a["refs"]), o)


# ------------------------------------------------------------------ descriptions
def jbytes(b):
    return b.decode("utf-8", "backslashreplace")


def repo_json(repo):
    return dict(repo, tags=[dict(t, name=hx(t["name"]), **({"objname": hx(t["objname"])} if "objname" in t else {})) for t in repo["tags"]])


def repo_from_json(j):
    return dict(j, tags=[dict(t, name=bytes.fromhex(t["name"]), **({"objname": bytes.fromhex(t["objname"])} if "objname" in t else {})) for t in j["tags"]])


def run_json(run):
    return dict(run, version=hx(run["version"]))


def run_from_json(j):
    return dict(j, version=bytes.fromhex(j["version"]))


def describe(repo, run, res=None, base_log=None):
    d = {"tags": ["%s (%s%s @c%d)" % (jbytes(t["name"]), t["kind"], " objname=" + jbytes(t["objname"]) if "objname" in t else "", t["at"]) for t in repo["tags"]],
         "commits": repo["commits"], "head": repo["head"], "packed": repo["packed"],
         "VERSION": jbytes(run["version"]), "flag": " ".join(run["flag"]) if run["flag"] else "(default)", "work_tree": run["dirty"], "env_file": run["env"]}
    if res is not None:
        fmt = lambda st: ["%s %s%s -> %s" % (jbytes(r["name"]), r["type"], "(" + jbytes(r["tagname"]) + ")" if r["type"] == "tag" else "", r["peeled"][:10]) for r in st["refs"]]
        d.update({"exit_status": res["exit"], "stdout": jbytes(res["stdout"]), "refs_before": fmt(res["before"]), "refs_after": fmt(res["after"]),
                  "HEAD": (res["before"]["head"] or "unborn")[:10], "git_status_before": res["before"]["status"],
                  "history_commands": (base_log or []) + res["log"] + ["tools tag " + (" ".join(run["flag"]) if run["flag"] else "")]})
    return d


# ------------------------------------------------------------------ the check
def corpus():
    f = VERIF / "corpus" / "C20" / "cases.json"
    if not f.exists():
        return []
    return [(repo_from_json(c["repo"]), [run_from_json(r) for r in c["runs"]]) for c in json.loads(f.read_text())]


def shrink(ctx, env, repo, run, fails):
    """greedy: drop tags, simplify the repository and the run, keeping the failure"""
    k = [0]

    def attempt(r2, run2):
        k[0] += 1
        d = ctx.scratch / "shrink" / str(k[0])
        base = d / "base"
        log = build_base(ctx, env, r2, base)
        res = execute(ctx, env, base, d / "run", run2)
        shutil.rmtree(d, ignore_errors=True)
        return (res, log) if fails(run2, res) else None
    best = attempt(repo, run)
    if best is None:
        return repo, run, None, None
    i = 0
    while i < len(repo["tags"]):
        cand = dict(repo, tags=repo["tags"][:i] + repo["tags"][i + 1:])
        got = attempt(cand, run)
        if got:
            repo, best = cand, got
        else:
            i += 1
    for change in ({"packed": "none"}, {"branches": False}, {"head": "branch"}, {"commits": 1}):
        cand = dict(repo, **change)
        if cand != repo:
            got = attempt(cand, run)
            if got:
                repo, best = cand, got
    for change in ({"env": "parent"}, {"dirty": "clean"}):
        cand = dict(run, **change)
        if cand != run:
            got = attempt(repo, cand)
            if got:
                run, best = cand, got
    return repo, run, best[0], best[1]


def check(ctx, only=None):
    gate = proof_gate(ctx)
    if not ctx.build_tree(tools=True):
        ctx.write_evidence(gate, 0, 0, "build failed", [])
        return
    env = git_env(ctx)
    known = load_known("C20")
    if only is not None:
        work = only
    else:
        for old in (VERIF / "replays" / "C20").glob("*.json"):      # stale replays of earlier runs of this check
            old.unlink()
        nrep = 2600 if ctx.thorough() else 170
        work = corpus()
        for i in range(nrep):
            repo = gen_repo(ctx.rng, malformed=(i % 8 == 7))
            work.append((repo, gen_runs(ctx.rng, repo, ctx.rng.choice([3, 4, 5]))))
        witnesses = witness_work(known)
        wstart = len(work)
        work += [(repo, runs) for _, _, repo, runs in witnesses]

    def one(item):
        idx, (repo, runs) = item
        d = ctx.scratch / "w" / str(idx)
        base = d / "base"
        base_log = build_base(ctx, env, repo, base)
        out = [execute(ctx, env, base, d / ("run%d" % k), run) for k, run in enumerate(runs)]
        shutil.rmtree(d, ignore_errors=True)
        return base_log, out
    results = pmap(one, list(enumerate(work)))

    flat = []          # (repo, run, res, base_log)
    for (repo, runs), (base_log, outs) in zip(work, results):
        for run, res in zip(runs, outs):
            flat.append((repo, run, res, base_log))
    oracle_fail, stats = {}, {"tagged": 0, "plain": 0}
    for i, (repo, run, res, _) in enumerate(flat):
        errs, changed, plain = oracle(run, res)
        stats["tagged"] += changed
        stats["plain"] += plain
        if errs:
            oracle_fail[i] = errs
    terms = [state_terms(res, run)[1] for repo, run, res, _ in flat]
    bad, cerrs = coq_mismatches(ctx, HM, terms, shard=120)

    # ---- witness stream of the known findings: the listed symptom must still appear
    if only is None:
        for j, (k, listed, repo, runs) in enumerate(witnesses):
            res = results[wstart + j][1][0]
            got = witness_symptom(runs[0], res)
            if got == listed and re.fullmatch(k["symptom"], got):
                ctx.known("%s: %s (tags %s, VERSION %s)" % (k["id"], got, [jbytes(t["name"]) for t in repo["tags"]], jbytes(runs[0]["version"])))
            else:
                rp = ctx.write_replay("known-finding-changed-%d" % j, {
                    "what": "known finding %s: listed symptom %r, observed %r - the finding changed or disappeared; update known/C20.json and the guard [small]" % (k["id"], listed, got),
                    "obligation": "known/C20.json witness stream", "cases": [{"repo": repo_json(repo), "runs": [run_json(runs[0])]}],
                    "readable": describe(repo, runs[0], res, results[wstart + j][0])})
                ctx.violation(rp, nofail=True)

    # ---- classification
    reported = set()
    for i in sorted(oracle_fail, key=lambda i: (0 if oracle_fail[i][0].startswith(("dry-run", "repository damaged")) else 1, i)):
        sig = re.sub(r"[0-9a-f]{7,}|'[^']*'|\[[^\]]*\]", "_", oracle_fail[i][0])[:60]
        if sig in reported or len(reported) >= 5:
            continue
        reported.add(sig)
        repo, run, res, base_log = flat[i]
        first = oracle_fail[i][0]

        def fails(run2, res2, first=first):
            e = oracle(run2, res2)[0]
            return any(x.split(":")[0] == first.split(":")[0] for x in e)
        r2, run2, res2, log2 = shrink(ctx, env, repo, run, fails)
        if res2 is None:
            r2, run2, res2, log2 = repo, run, res, base_log
        rp = ctx.write_replay("oracle-%d" % i, {
            "what": oracle(run2, res2)[0] or oracle_fail[i], "cases": [{"repo": repo_json(r2), "runs": [run_json(run2)]}],
            "readable": describe(r2, run2, res2, log2), "failing_cases_in_this_run": len(oracle_fail)})
        ctx.violation(rp)
    if not gate["ok"] and not oracle_fail:
        ctx.violation(gate["replay"], nofail=True)
    if (bad or cerrs) and not oracle_fail:
        detail = []
        for i in bad[:3]:
            repo, run, res, base_log = flat[i]

            def fails(run2, res2):
                b2, e2 = coq_mismatches(ctx, HM, [state_terms(res2, run2)[1]])
                return bool(b2 or e2)
            r2, run2, res2, log2 = shrink(ctx, env, repo, run, fails)
            if res2 is None:
                r2, run2, res2, log2 = repo, run, res, base_log
            inp = state_terms(res2, run2)[0]
            exp = coq_show(ctx, HM, "let o := decide (%s) in (o_exit o, o_refs o, o_stdout o)" % inp)
            detail.append({"repo": repo_json(r2), "runs": [run_json(run2)], "readable": describe(r2, run2, res2, log2), "model_expected": exp[:3000]})
        rp = ctx.write_replay("correspondence", {
            "what": "model Misc/Tag.v [decide] and `tools tag` disagree; the property oracle found no failing history among %d runs" % len(flat),
            "obligation": "correspondence Harness/C20.v check_case (exit class, refs after the run as a finite map name -> (kind, peeled target), stdout)",
            "mismatching_cases": len(bad), "coq_errors": cerrs, "cases": [{"repo": d["repo"], "runs": d["runs"]} for d in detail], "examples": detail})
        ctx.violation(rp, nofail=True)

    # ---- evidence
    hist = {"tag_kind": {}, "flag": {}, "work_tree": {}, "env_file": {}, "exit": {}, "head": {}, "packed": {}, "version_class": {}, "tags_per_repo": {}}

    def bump(k, v):
        hist[k][v] = hist[k].get(v, 0) + 1
    for repo, runs in work:
        bump("tags_per_repo", str(len(repo["tags"])))
        bump("head", repo["head"].split(":")[0]); bump("packed", repo["packed"])
        for t in repo["tags"]:
            bump("tag_kind", t["kind"])
    distinct = set()
    for repo, run, res, _ in flat:
        bump("flag", " ".join(run["flag"]) if run["flag"] else "(default)"); bump("work_tree", run["dirty"]); bump("env_file", run["env"])
        bump("exit", str(res["exit"]))
        q = sv_parse(run["version"])
        bump("version_class", "strict" if q else "bad" if run["version"] in BAD_VERSIONS else "coerced/other")
        if any(short(r["name"]) is not None for r in res["before"]["refs"]):
            distinct.add(json.dumps([sorted((jbytes(r["name"]), r["type"]) for r in res["before"]["refs"]), jbytes(run["version"]),
                                     flag_is_dry(run["flag"]), bool(res["before"]["status"].strip())]))
    ctx.write_evidence(gate, len(flat), len(distinct),
                       "seeded scratch repositories built with the git CLI (0-10 tags: lightweight, annotated, second refs to tag objects, tag objects with a different recorded name, nested, blob/tree tags; major-only, non-semver, other majors, pre-release and build-metadata names; loose/packed refs; branch/detached/unborn HEAD) x requested versions biased to the boundary of the existing tags x flag settings x work-tree states; every 8th repository has a tag name the version parser rejects; non-trivial = the repository has at least one tag; distinct by (set of refs with kinds, VERSION, effective dry-run, dirty)",
                       [describe(r, u, s) for r, u, s, _ in flat[:2]],
                       extra={"histogram": hist, "repositories": len(work), "runs_that_tagged": stats["tagged"], "runs_in_plain_class_with_converse_oracle": stats["plain"],
                              "model_mismatches": len(bad), "oracle_failures": len(oracle_fail)},
                       assumptions=["the state of a repository before and after a run is what the git CLI (2.39) reports: for-each-ref, cat-file, status --porcelain, plus a hash of every file under the work tree and .git",
                                    "mockery-tools.env is written as a single line VERSION=<v> with <v> free of quotes, blanks, '#', '$' and backslashes (viper/gotenv syntax is not modelled)",
                                    "go-git's Worktree.Status agrees with `git status --porcelain` on the generated work-tree states (checked: the model takes dirty from git status)"])


def witness_work(known):
    """repositories of the known-finding witnesses: (finding id, listed symptom, repo, runs)"""
    out = []
    for k in known:
        for c in k.get("witness", {}).get("cases", []):
            repo = {"commits": 1, "tags": [{"name": t.encode(), "kind": "light", "at": 0} for t in c["tags"]], "head": "branch",
                    "packed": "none", "branches": False, "focus": 3, "witness": k["id"]}
            run = {"version": c["VERSION"].encode(), "flag": [c["flag"]] if c.get("flag") else None, "dirty": "clean", "env": "parent"}
            out.append((k, c["symptom"], repo, [run]))
    return out


def witness_symptom(run, res):
    """how the outcome relates to semver.org precedence with unbounded numeric identifiers"""
    q = sv_parse(run["version"])
    rb, ra = refmap(res["before"]), refmap(res["after"])
    changed = set(rb) != set(ra)
    same = [sv_parse(short(n)) for n in rb if short(n) is not None and sv_parse(short(n)) and q and sv_parse(short(n))[0] == q[0]]
    newer = q is not None and all(sv_cmp(q, v) > 0 for v in same)
    if changed:
        return "ok-tagged" if newer else "tagged-older-than-existing"
    return "refused-newer" if newer and res["exit"] == 8 else "ok-refused(exit %d)" % res["exit"]


def replay(ctx, path):
    d = json.loads(open(path).read())
    cases = d.get("cases", [])
    check(ctx, only=[(repo_from_json(c["repo"]), [run_from_json(r) for r in c["runs"]]) for c in cases])
