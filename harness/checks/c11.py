"""C11 - templated config values resolve correctly, to a fixpoint, and always terminate.

Two implementation streams, both compared with the Coq model (Harness/C11.v) and judged by
an independent Python oracle written from the documentation:
  * driver stream: config.(*Config).ParseTemplates called directly (harness/go/drv_tmpl),
    all five resolved values or the error class;
  * binary stream: the real mockery binary in scratch modules with generated layouts
    (config next to / above the working directory, found by search, --config,
    MOCKERY_CONFIG), observing the files it writes.
All strings are handled as latin-1 decoded byte strings (1 char = 1 byte)."""
import json, os, re, shutil, subprocess, sys, time
from common import *

VARS = ["ConfigDir", "InterfaceDir", "InterfaceDirRelative", "InterfaceFile", "InterfaceName", "Mock",
        "StructName", "SrcPackageName", "SrcPackagePath", "Template"]
FUNCS = {"lower": 1, "upper": 1, "trimPrefix": 2, "trimSuffix": 2, "base": 1, "dir": 1, "clean": 1}
OTHER_FUNCS = set("""contains hasPrefix hasSuffix join replace replaceAll split splitAfter splitAfterN trim trimLeft
trimRight trimSpace camelcase snakecase kebabcase firstIsLower firstLower firstUpper exported matchString quoteMeta
readFile expandEnv getenv add decr div incr min mod mul sub ceil floor round randInt and call html index slice js len
not or print printf println urlquery eq ge gt le lt ne block break continue define else end if range nil template
with true false""".split())
PARAMS = ["dir", "filename", "pkgname", "structname", "template-schema"]
DEFAULTS = {"dir": "{{.InterfaceDir}}", "filename": "mocks_test.go", "pkgname": "{{.SrcPackageName}}",
            "structname": "{{.Mock}}{{.InterfaceName}}", "template-schema": "{{.Template}}.schema.json"}
CAP = 20
MODH = "Cfg.Tmpl Harness.C11"


def U(s):
    return s.encode("latin-1")


def dbg(*a):
    if os.environ.get("VERIF_DEBUG"):
        print("[c11 %s]" % time.strftime("%H:%M:%S"), *a, file=sys.stderr, flush=True)


def real(s):
    return U(s).decode("utf-8", errors="replace")


# ------------------------------------------------------------------ oracle: Go path functions (from their docs)
def go_clean(p):
    if p == "":
        return "."
    rooted = p.startswith("/")
    out = []
    for c in p.split("/"):
        if c in ("", "."):
            continue
        if c == "..":
            if out and out[-1] != "..":
                out.pop()
            elif not rooted:
                out.append("..")
        else:
            out.append(c)
    s = "/".join(out)
    return "/" + s if rooted else (s or ".")


def go_dir(p):
    return go_clean(p[:p.rfind("/") + 1])


def go_base(p):
    if p == "":
        return "."
    p = p.rstrip("/")
    if p == "":
        return "/"
    return p[p.rfind("/") + 1:]


def ascii_only(s):
    return all(ord(c) < 128 for c in s)


# ------------------------------------------------------------------ oracle: text/template subset
class TParse(Exception):
    pass


class TExec(Exception):
    pass


class TUnsup(Exception):
    pass


class TDiverge(Exception):
    pass


TOK = re.compile(r'\.[A-Za-z_][A-Za-z0-9_]*|[A-Za-z_][A-Za-z0-9_]*|\|')
WS = " \t\r\n"


def o_parse(text):
    out, i, n = [], 0, len(text)
    while True:
        j = text.find("{{", i)
        if j < 0:
            out.append(("lit", text[i:]))
            return out
        out.append(("lit", text[i:j]))
        k, toks = j + 2, []
        while True:
            while k < n and text[k] in WS:
                k += 1
            if k >= n:
                raise TParse("unclosed action")
            if text.startswith("}}", k):
                k += 2
                break
            if text[k] == "}":
                raise TParse("bad character }")
            if text[k] == '"':
                e = k + 1
                while True:
                    if e >= n or text[e] == "\n":
                        raise TParse("unterminated quoted string")
                    if text[e] == '"':
                        break
                    if text[e] == "\\" or not (32 <= ord(text[e]) < 127):
                        raise TUnsup("string escape")
                    e += 1
                toks.append(("str", text[k + 1:e]))
                k = e + 1
            else:
                m = TOK.match(text, k)
                if not m:
                    if text[k] == "." and k + 1 >= n:
                        raise TParse("unclosed action")
                    raise TUnsup("character %r in action" % text[k])
                w = m.group(0)
                toks.append(("pipe",) if w == "|" else (("field", w[1:]) if w[0] == "." else ("ident", w)))
                k = m.end()
                if w == "|":
                    continue
            if k < n and not (text[k] in WS or text[k] == "|" or text.startswith("}}", k)):
                if text[k] == "}":
                    raise TParse("bad character }")
                raise TUnsup("operand not followed by a separator")
        out.append(("act", o_pipeline(toks)))
        i = k


def o_pipeline(toks):
    cmds, cur = [], None
    for t in toks:
        if t[0] == "pipe":
            if cur is None:
                raise TParse("unexpected |")
            cmds.append(cur)
            cur = None
            continue
        if cur is None:
            if t[0] == "ident":
                if t[1] in FUNCS:
                    cur = (("fn", t[1]), [])
                elif t[1] in OTHER_FUNCS:
                    raise TUnsup("function " + t[1])
                else:
                    raise TParse("function %s not defined" % t[1])
            else:
                if t[0] == "str" and cmds:
                    raise TParse("non executable command in pipeline")
                cur = (t, [])
        else:
            if t[0] == "ident":
                raise TUnsup("function as argument")
            cur[1].append(t)
    if cur is not None:
        cmds.append(cur)
    if not cmds:
        raise TParse("missing value for command")
    return cmds


def o_arg(a, vars):
    if a[0] == "str":
        return a[1]
    if a[1] not in vars:
        raise TExec("can't evaluate field " + a[1])
    return vars[a[1]]


def o_call(fn, args):
    if len(args) != FUNCS[fn]:
        raise TExec("wrong number of args for " + fn)
    if fn in ("lower", "upper"):
        if not ascii_only(args[0]):
            raise TUnsup("case mapping of non-ASCII text")
        return args[0].lower() if fn == "lower" else args[0].upper()
    if fn == "trimPrefix":
        return args[1][len(args[0]):] if args[1].startswith(args[0]) else args[1]
    if fn == "trimSuffix":
        return args[1][:len(args[1]) - len(args[0])] if args[0] and args[1].endswith(args[0]) else args[1]
    return {"base": go_base, "dir": go_dir, "clean": go_clean}[fn](args[0])


def o_exec(tpl, vars):
    out = []
    for p in tpl:
        if p[0] == "lit":
            out.append(p[1])
            continue
        val = None
        for head, args in p[1]:
            if head[0] == "fn":
                a = [o_arg(x, vars) for x in args]
                if val is not None:
                    a.append(val)
                val = o_call(head[1], a)
            else:
                if args or val is not None:
                    raise TExec("argument given to a non-function")
                val = o_arg(head, vars)
        out.append(val)
    return "".join(out)


def o_render(text, vars):
    return o_exec(o_parse(text), vars)


def o_expand(text, vars, limit=64):
    """(full expansion, number of changing passes) | ('err', pass, kind) ; raises TDiverge/TUnsup"""
    n = 0
    while True:
        try:
            nxt = o_render(text, vars)
        except TParse:
            return ("err", n, "parse")
        except TExec:
            return ("err", n, "exec")
        except TUnsup:
            if n >= CAP:                 # far beyond any pass the resolver makes: only "no success" is known
                raise TDiverge()
            raise
        if nxt == text:
            return ("ok", text, n)
        text, n = nxt, n + 1
        if n > limit or len(text) > 20000:
            raise TDiverge()


def o_judge(vars, params):
    """What the documentation demands of one resolver call.
    -> ('ok', {param: value}) | ('error', allowed classes) | ('either', values)  (deeper than any
    reasonable cap but convergent: an error or the full values, never something else)"""
    res, div = {}, False
    for k in PARAMS:
        try:
            res[k] = o_expand(params[k], vars)
        except TDiverge:
            res[k] = ("div",)
            div = True
    errs = [(r[1], r[2]) for r in res.values() if r[0] == "err"]
    deep = [r for r in res.values() if r[0] == "ok" and r[2] >= CAP]
    if errs:
        # a template error surfaces in the pass in which the first failing value fails
        first = min(e[0] for e in errs)
        kinds = {e[1] for e in errs if e[0] == first}
        return ("error", kinds if first < CAP else kinds | {"infinite"})
    if div:
        return ("error", {"infinite"})
    vals = {k: res[k][1] for k in PARAMS}
    return ("either", vals) if deep else ("ok", vals)


def exported_doc(name):
    """'exported' = the first character is an upper-case letter (Go spec)"""
    r = real(name)
    return bool(r) and r[0].isupper()


def doc_vars(iface, file, pkgname, pkgpath, structname, template, config_path, abs_config_dir, cwd):
    """The documented meaning of every variable (doc comments of config.TemplateData).
    InterfaceDirRelative: relative to the directory of the config file; None when the
    documentation does not determine it (interface not below that directory)."""
    v = {"ConfigDir": go_dir(config_path), "StructName": structname, "SrcPackageName": pkgname,
         "SrcPackagePath": pkgpath, "Template": template}
    if iface is None:
        v.update(InterfaceDir="", InterfaceDirRelative="", InterfaceFile="", InterfaceName="", Mock="")
        return v
    idir = go_dir(file)
    v.update(InterfaceDir=idir, InterfaceFile=file, InterfaceName=iface, Mock="Mock" if exported_doc(iface) else "mock")
    base = abs_config_dir
    if not idir.startswith("/") or not base.startswith("/"):
        rel = None
    elif idir == base:
        rel = "."
    elif base == "/":
        rel = idir[1:]
    elif idir.startswith(base + "/"):
        rel = idir[len(base) + 1:]
    else:
        rel = None
    v["InterfaceDirRelative"] = rel
    return v


def uses_idr(params):
    return any("InterfaceDirRelative" in params[k] for k in PARAMS)


# ------------------------------------------------------------------ generator: expressions
def quote1(w):
    return "".join('{{"{"}}' if (c == "{" and w[i + 1:i + 2] == "{") else c for i, c in enumerate(w))


def quote_n(w, n):
    for _ in range(n):
        w = quote1(w)
    return w


STRPOOL = ["I", "F", "Foo", "oo", "mock", "Mock", "_", "", "/", ".go", "a/b", "x", "{{", "}}", "{{.Mock}}", "{{.",
           "example.com/", "sub", "{", "p/", "/w"]
LITPOOL = ["", "x", "mock_", "/", "_", ".go", "a b", "{", "}", "}}", "{x}", "\xc3\xa9", "/out/", "..", "./", "-", "M",
           "mocks", ".schema.json", "{ {", "{}", "}}{", "pkg"]


def pr_arg(a):
    return "." + a[1] if a[0] == "field" else '"%s"' % a[1]


def pr_action(rng, cmds):
    sp = lambda: rng.choice(["", "", " ", "  ", "\t", "\n"])
    parts = []
    for head, args in cmds:
        h = head[1] if head[0] == "fn" else pr_arg(head)
        parts.append(" ".join([h] + [pr_arg(a) for a in args]))
    bar = rng.choice([" | ", "|", " |", "| "])
    body = bar.join(parts)
    if rng.random() < 0.05:
        body += rng.choice([" |", "|", " | "])          # a trailing pipe is accepted by text/template
    return "{{" + sp() + body + sp() + "}}"


def gen_action(rng, vars_ok):
    var = lambda: ("field", rng.choice(vars_ok))
    s = lambda: ("str", rng.choice(STRPOOL))
    src = var() if rng.random() < 0.85 else s()

    def fn_stage(piped):
        f = rng.choice(list(FUNCS))
        need = FUNCS[f] - (1 if piped else 0)
        return (("fn", f), [s() if (FUNCS[f] == 2 and i == 0) else (var() if rng.random() < 0.8 else s()) for i in range(need)])
    r = rng.random()
    if r < 0.35:
        return [(src, [])]
    if r < 0.55:                                         # f a b
        return [fn_stage(False)]
    cmds = [(src, [])] if rng.random() < 0.8 else [fn_stage(False)]
    for _ in range(rng.randint(1, 3)):
        cmds.append(fn_stage(True))
    return cmds


MALFORMED = ["{{", "a{{.InterfaceName", "{{}}", "{{ }}", "{{nope}}", "{{.Nope}}", "{{ .InterfaceName | nope }}",
             "{{ .InterfaceName | lower \"x\" }}", "{{lower}}", "{{trimPrefix .Mock}}", "{{trimPrefix \"a\" \"b\" .Mock}}",
             "{{.InterfaceName | \"a\"}}", "{{.InterfaceName | .Mock}}", "{{\"a", "{{\"a\nb\"}}", "{{ | lower}}",
             "{{.Mock || lower}}", "{{.Mock}", "{{.Mock }x", "x{{.Mock\"}}", "{{.Mock \"a\"}}", "{{\"a\" \"b\"}}",
             "{{.mock}}", "{{._x}}", "{{_x}}", "{{.Mock9}}", "{{upper .Nope}}", "{{.StructName | upper}}",
             "{{.StructName | trimSuffix \"}}\"}}", "{{.StructName | trimPrefix \"{{\"}}"]


def gen_value(rng, vars_ok, kind=None):
    """-> (text, kind)"""
    kind = kind or rng.choices(["lit", "var", "pipe", "mixed", "ref", "chain", "malformed"], [8, 14, 22, 22, 12, 14, 8])[0]
    if kind == "lit":
        return "".join(rng.choice(LITPOOL) for _ in range(rng.randint(0, 3))), kind
    if kind == "var":
        return pr_action(rng, [(("field", rng.choice(vars_ok)), [])]), kind
    if kind == "pipe":
        return pr_action(rng, gen_action(rng, vars_ok)), kind
    if kind == "mixed":
        out = []
        for _ in range(rng.randint(2, 5)):
            out.append(rng.choice(LITPOOL) if rng.random() < 0.45 else pr_action(rng, gen_action(rng, vars_ok)))
        return "".join(out), kind
    if kind == "ref":
        pre, post = rng.choice(["", "x", "mock_", "/"]), rng.choice(["", "x", ".go", "_"])
        a = [(("field", "StructName"), [])]
        if rng.random() < 0.3:
            a.append((("fn", rng.choice(["base", "clean", "trimPrefix", "trimSuffix"])), []))
            if FUNCS[a[1][0][1]] == 2:
                a[1] = (a[1][0], [("str", rng.choice(STRPOOL))])
        return pre + pr_action(rng, a) + post, kind
    if kind == "chain":
        inner, _ = gen_value(rng, vars_ok, rng.choice(["var", "pipe", "mixed", "ref", "malformed"]))
        if "{{" not in inner:
            inner = "{{.Mock}}" + inner
        n = rng.choice([1, 2, 3, 5, 10, 15, 16, 17, 17, 18, 18, 18, 19, 19, 19, 20, 20, 21, 22, 25])
        return quote_n(inner, n), "chain%d" % n
    return rng.choice(MALFORMED), kind


def gen_structname(rng, vars_ok):
    r = rng.random()
    if r < 0.25:
        return DEFAULTS["structname"], "default"
    if r < 0.45:                                         # self reference
        return rng.choice(["{{.StructName}}x", "x{{.StructName}}", "{{.StructName}}", "{{ .StructName }}",
                           "a{{.StructName | lower}}", "{{.StructName | upper}}x",
                           "{{.StructName | base}}", "{{.StructName | trimSuffix \"x\"}}x", quote1("{{.StructName}}x")]), "self"
    return gen_value(rng, vars_ok)


# ------------------------------------------------------------------ driver stream
NAMES = ["Foo", "foo", "IFoo", "Reader", "x", "X", "_x", "\xc3\x89a", "\xc3\xa9a", "\xc3\x9cnit", "\xc3\x9fx", "\xc3\x9eorn",
         "\xc3\x97x", "\xc3\xb7x", "fooBar", "HTTPClient", "", "Z9", "a"]
DIRS = ["w", "w/m", "w/m/p", "w/m/p/sub"]


def gen_dcase(rng, root, witness=False):
    cwd = root + "/" + rng.choice(DIRS)
    weird = rng.random() < 0.12
    iface = rng.random() < 0.88
    name = rng.choice(NAMES)
    if weird:
        file = rng.choice(["a.go", "p/a.go", "./p/a.go", root + "/w/m/../m/p/a.go", root + "/w//m/p//a.go", root + "/w/m/p/", "", "/",
                           " " + root + "/w/m/a.go", root + "/w/m/p /a.go", root + "/w/m/ p/a.go", "/a.go", root + "/w/m/./a.go", "../a.go"])
    else:
        file = root + "/" + rng.choice(["w/m/p/a.go", "w/m/p/sub/deep/b.go", "w/a.go", "w/m/iface.go", "w/m/p/sub/x_y.go", "v/other/z.go"])
    cfgs = ["", ".mockery.yml", "./.mockery.yml", "../.mockery.yaml", "conf/x.yml", root + "/w/.mockery.yml", "/", "a//b/../c.yml",
            cwd + "/.mockery.yaml", root + "/w/m/.mockery.yml", "../../cfg.yaml", "./", "x/"]
    config = rng.choice(cfgs)
    cd = go_dir(config)
    abs_cd = cd if cd.startswith("/") else go_clean(cwd + "/" + cd)
    guard_free = (abs_cd == cwd) and not weird and iface
    pkgpath = rng.choice(["example.com/m/p", "example.com/m/p/sub", "m", "github.com/vektra/mockery/v3/internal", ""])
    pkgname = rng.choice(["p", "sub", "main", "srcpk", "internal", ""])
    template = rng.choice(["testify", "matryer", "file:///t/x.templ", "file://./my.templ", ""])
    vars_ok = [v for v in VARS if v != "InterfaceDirRelative"]
    if witness or guard_free:
        vars_ok = vars_ok + ["InterfaceDirRelative"] * (4 if witness else 1)
    params, kinds = {}, {}
    for k in PARAMS:
        if k == "structname":
            params[k], kinds[k] = gen_structname(rng, vars_ok)
        elif rng.random() < 0.2:
            params[k], kinds[k] = DEFAULTS[k], "default"
        else:
            params[k], kinds[k] = gen_value(rng, vars_ok)
    return {"iface": iface, "name": name, "file": file, "pkgname": pkgname, "pkgpath": pkgpath, "template": template,
            "config": config, "cwd": cwd, "params": params, "kinds": kinds, "abs_cd": abs_cd, "weird": weird}


def d_json(c):
    p = c["params"]
    return {"iface": c["iface"], "name": hx(U(c["name"])), "file": hx(U(c["file"])), "pkgname": hx(U(c["pkgname"])),
            "pkgpath": hx(U(c["pkgpath"])), "template": hx(U(c["template"])), "config": hx(U(c["config"])), "cwd": c["cwd"],
            "dir": hx(U(p["dir"])), "filename": hx(U(p["filename"])), "pkg": hx(U(p["pkgname"])),
            "structname": hx(U(p["structname"])), "schema": hx(U(p["template-schema"]))}


STALL = 10.0        # bound on one resolver call / one mockery run (wall clock): first stage
CONFIRM = 100.0     # second stage: exactly that case again, alone, with a 10x longer bound
MEM_KB = 4000000    # address-space limit of every implementation process (a spinning resolver may also grow)
MAX_CONFIRM = 3     # confirmations per run


class Timeouts:
    """Every timeout-derived verdict is two-stage: a case that exceeds the bound while everything else is
    running is run again alone with CONFIRM seconds; only a second timeout is a hang."""
    def __init__(self):
        self.retried = self.confirmed = self.skipped = 0
        self.notes = []

    def may_confirm(self):
        return self.retried < MAX_CONFIRM and self.confirmed == 0


def drv_batch(ctx, cases, stall, first_extra=30.0):
    """One driver process on [cases]. -> (results of the calls that returned, 'done' | 'stall' | 'crash: ..')"""
    import queue, threading
    p = subprocess.Popen(["bash", "-c", "ulimit -v %d; exec %s" % (MEM_KB, ctx.bins["drv_tmpl"])],
                         stdin=subprocess.PIPE, stdout=subprocess.PIPE, stderr=subprocess.PIPE)
    data = json.dumps([d_json(c) for c in cases]).encode()
    q, errbuf = queue.Queue(), []

    def feed():
        try:
            p.stdin.write(data)
            p.stdin.close()
        except OSError:
            pass

    def read():
        for line in p.stdout:
            q.put(line)
        q.put(None)
    ths = [threading.Thread(target=feed, daemon=True), threading.Thread(target=read, daemon=True),
           threading.Thread(target=lambda: errbuf.append(p.stderr.read()), daemon=True)]
    for t in ths:
        t.start()
    outs, status = [], "done"
    while len(outs) < len(cases):
        try:
            line = q.get(timeout=stall + (first_extra if not outs else 0))    # the first answer includes start-up and decoding the input
        except queue.Empty:
            status = "stall"
            break
        if line is None:
            p.wait()
            status = "crash: exit %s %s" % (p.returncode, (errbuf[0] if errbuf else b"").decode(errors="replace")[-300:])
            break
        o = json.loads(line)
        if o["k"] == "ok":
            o["v"] = [bytes.fromhex(x).decode("latin-1") for x in o["v"]]
        outs.append(o)
    if p.poll() is None:
        p.kill()
    p.wait()
    return outs, status


def run_driver(ctx, cases, tmo):
    """All resolver calls, in order. A call that does not answer within STALL seconds is run again alone
    (two-stage).  -> (one result per case, seconds); result kinds beyond the driver's own:
    'hang' (confirmed), 'skipped-timeout' (not confirmed: budget used), 'notrun' (stream stopped)."""
    t0 = time.time()
    outs, i = [None] * len(cases), 0
    while i < len(cases):
        got, status = drv_batch(ctx, cases[i:], STALL)
        outs[i:i + len(got)] = got
        i += len(got)
        if status == "done" or i >= len(cases):
            break
        if status == "stall":
            if tmo.may_confirm():
                tmo.retried += 1
                dbg("resolver call %d exceeded %.0f s; running it alone with %.0f s" % (i, STALL, CONFIRM))
                got2, st2 = drv_batch(ctx, [cases[i]], CONFIRM, first_extra=0)
                if got2:
                    outs[i] = dict(got2[0], retried=True)
                elif st2 == "stall":
                    tmo.confirmed += 1
                    outs[i] = {"k": "hang"}
                else:
                    outs[i] = {"k": "other", "m": "driver process ended while running this case alone: " + st2}
            else:
                tmo.skipped += 1
                outs[i] = {"k": "skipped-timeout"}
        else:
            outs[i] = {"k": "other", "m": "driver process ended in this call: " + status}
        stop = outs[i]["k"] == "hang" or tmo.skipped > 5
        i += 1
        if stop:                      # a confirmed hang (or a hopelessly slow machine): every further self reference would cost another bound
            tmo.notes.append("resolver stream stopped after call %d (%s); %d calls not run" % (i - 1, outs[i - 1]["k"], len(cases) - i))
            for j in range(i, len(cases)):
                outs[j] = {"k": "notrun"}
            break
    return outs, time.time() - t0


def b(s):
    return coq_bytes(U(s))


def params_term(p):
    return "{| p_dir := %s; p_file := %s; p_pkg := %s; p_struct := %s; p_schema := %s |}" % tuple(b(p[k]) for k in PARAMS)


def iface_term(name, file):
    return "{| i_name := %s; i_file := %s |}" % (b(name), b(file))


def dcase_term(c, o):
    env = "{| e_iface := %s; e_pkgname := %s; e_pkgpath := %s; e_template := %s; e_config := %s; e_cwd := %s |}" % (
        "Some " + iface_term(c["name"], c["file"]) if c["iface"] else "None", b(c["pkgname"]), b(c["pkgpath"]),
        b(c["template"]), b(c["config"]), b(c["cwd"]))
    if o["k"] == "ok":
        obs = "DOk " + params_term(dict(zip(PARAMS, o["v"])))
    else:
        obs = {"infinite": "DInfinite", "parse": "DParse", "exec": "DExec"}.get(o["k"], "DInfinite")
    return "{| d_env := %s; d_params := %s; d_obs := %s |}" % (env, params_term(c["params"]), obs)


def d_oracle(c, o):
    """The property on one observed resolver call. -> (failures, known-finding symptom or None)"""
    fails = []
    if o["k"] in ("panic", "other"):
        return ["resolver %s: %s" % (o["k"], o.get("m", ""))], None
    if o["k"] == "hang":
        return ["ParseTemplates did not return within %.0f s, and not within %.0f s when this call was run again alone" % (STALL, CONFIRM)], None
    vars = doc_vars(c["name"] if c["iface"] else None, c["file"], c["pkgname"], c["pkgpath"], c["params"]["structname"],
                    c["template"], c["config"], c["abs_cd"], c["cwd"])
    if uses_idr(c["params"]) and c["iface"] and vars["InterfaceDirRelative"] is None:
        return fails, None                                     # documentation does not determine the value
    try:
        want = o_judge(vars, c["params"])
    except TUnsup as e:
        return fails + ["generator left the modelled subset: %s" % e], None
    if o["k"] == "ok":
        vals = dict(zip(PARAMS, o["v"]))
        for k in PARAMS:                                        # no truncated result: every value is a fixpoint
            try:
                if o_render(vals[k], vars) != vals[k]:
                    fails.append("%s: returned value %r still changes when rendered again" % (k, vals[k]))
            except (TParse, TExec):
                fails.append("%s: returned value %r does not render" % (k, vals[k]))
            except TUnsup:
                pass
        if want[0] == "error":
            fails.append("expected an error (%s), got values %r" % (sorted(want[1]), vals))
        else:
            for k in PARAMS:
                if vals[k] != want[1][k]:
                    fails.append("%s: got %r, documented variables give %r" % (k, vals[k], want[1][k]))
    else:
        if want[0] == "ok":
            fails.append("expected values %r, got error %s %s" % (want[1], o["k"], o.get("m", "")))
        elif want[0] == "error" and o["k"] not in want[1]:
            fails.append("expected error class %s, got %s %s" % (sorted(want[1]), o["k"], o.get("m", "")))
    return fails, None


def self_refs(params):
    return params["structname"].count(".StructName")


def run_growth_witness(ctx, c, mem_kb=MEM_KB, timeout=150):
    """One resolver call in its own process under an address-space limit (the value would need tens of GB).
    -> normalised symptom.  Everything that is not a clean answer of the resolver is the listed symptom class
    (how the process dies depends on the machine): 'oom-crash' (Go runtime: out of memory), 'killed-by-limit'
    (any other abnormal end: signal, kernel OOM killer, allocation failure), 'timeout-at-limit' (still growing
    when the time is up).  A clean answer ('answer-infinite', 'answer-ok', ..) is a CHANGE of the symptom."""
    try:
        p = run(["bash", "-c", "ulimit -v %d; exec %s" % (mem_kb, ctx.bins["drv_tmpl"])],
                inp=json.dumps([d_json(c)]).encode(), timeout=timeout)
    except subprocess.TimeoutExpired:
        return "timeout-at-limit"
    err = p.stderr.decode(errors="replace")
    try:
        o = json.loads(p.stdout.decode(errors="replace").strip().split("\n")[0])
    except Exception:
        o = None
    if p.returncode != 0 or o is None:
        return "oom-crash" if "out of memory" in err else "killed-by-limit"
    if o["k"] == "panic":
        return "oom-crash" if "out of memory" in o.get("m", "") else "killed-by-limit"
    return "answer-" + o["k"]


# ------------------------------------------------------------------ binary stream
GO_MOD = "module example.com/m\n\ngo 1.23\n\nrequire github.com/stretchr/testify v1.10.0\n"
PROBE = "package {{.PkgName}}\n{{range .Interfaces}}\n// VERIF-MOCK {{.StructName}} {{.Name}}\ntype {{.StructName}} struct{}\n{{end}}\n"
SCHEMA = '{"$schema":"http://json-schema.org/draft-07/schema#","type":"object"}\n'
B_DIR = ["{{.ConfigDir}}/out", "{{.InterfaceDir}}/mocks", "{{.InterfaceDir}}", "mocks/{{.SrcPackagePath}}",
         "{{.ConfigDir}}/mocks/{{.SrcPackageName}}", "out/{{.InterfaceName | lower}}", "{{.ConfigDir}}/gen/{{.StructName}}",
         "{{.InterfaceFile | dir}}/gen", "{{.InterfaceFile | dir | base}}_mocks", "{{ .ConfigDir }}/{{ .SrcPackagePath | base }}/mk",
         "{{.ConfigDir | clean}}/a/../b", "{{.ConfigDir}}", "{{.ConfigDir}}/{{.InterfaceDir | base}}", "m_{{.Template}}",
         "{{.ConfigDir}}/m/gen", "{{.ConfigDir}}/m/{{.SrcPackageName}}/mocks"]
B_DIR_IDR = ["{{.InterfaceDirRelative}}/mk", "gen/{{.InterfaceDirRelative}}", "{{.ConfigDir}}/o/{{.InterfaceDirRelative}}"]
B_FILE = ["mock_{{.InterfaceName}}.go", "mocks_test.go", "{{.InterfaceName | lower}}_mock.go", "{{.StructName}}.go",
          "{{.InterfaceFile | base | trimSuffix \".go\"}}_{{.InterfaceName}}_mock.go", "{{.Mock}}s.go", "m_{{.SrcPackageName}}.go"]
B_PKG = ["{{.SrcPackageName}}", "mocks", "{{.SrcPackageName}}_mocks", "{{.SrcPackagePath | base}}", "{{.InterfaceDir | base}}x",
         "{{.Template}}mocks", "{{ .SrcPackageName | upper | lower }}"]
B_STRUCT = ["{{.Mock}}{{.InterfaceName}}", "{{.InterfaceName}}{{.Mock}}", "Fake{{.InterfaceName | upper}}",
            "{{.Mock}}{{.InterfaceName | trimPrefix \"I\"}}", "{{.SrcPackageName | upper}}{{.InterfaceName}}Mock",
            "{{.Mock}}_{{.InterfaceName}}", "{{.InterfaceName | trimSuffix \"er\"}}Double", "{{.Mock | upper}}{{.InterfaceName}}"]
B_SELF = ["{{.StructName}}x", "x{{.StructName}}", "M{{.StructName | base}}x", "{{.StructName | trimPrefix \"x\"}}_"]
B_NAMES_EXP = ["Foo", "IFoo", "Reader", "HTTPClient", "\xc3\x89clair"]
B_NAMES_UNEXP = ["foo", "bar", "reader", "iThing", "\xc3\xa9clair"]
IDENT = re.compile(r"^[^\W\d]\w*$")
SAFE_PATH = re.compile(r"^[A-Za-z0-9_./\-]+$")


def parents(rel):
    """'' and every prefix of a relative directory, nearest last"""
    out, cur = [""], ""
    for c in [x for x in rel.split("/") if x]:
        cur = (cur + "/" + c) if cur else c
        out.append(cur)
    return out


# //line directives (goyacc / ragel / cgo style): they fake position information; the file an interface is
# declared in is still the .go file that was parsed.  $D = directory of the package, $R = case root.
LINE_PRE = ["//line grammar/parser.y:2", "//line ../sibling/gen.go:7", "//line $R/m/zz/abs.go:1", "/*line x.go:1:1*/",
            "//line other.go:10", "//line $D/../sibling/gen.go:3", "/*line ../sibling/y.go:4:2*/"]
LINE_MID = ["//line other.go:10", "/*line gen/y.go:3:1*/", "//line $R/m/zz/abs.go:20", "//line ../sibling/gen.go:40",
            "//line grammar/parser.y:100"]


def b_srcfiles(c):
    """Source files of the package: [{'fname', 'names', 'pre' (directive before the package clause), 'mid'
    (directive before every declaration)}]; c['names'] decides which interfaces exist."""
    fs = c.get("srcfiles") or [{"fname": c["fname"], "names": list(c["names"]), "pre": "", "mid": ""}]
    out = []
    for f in fs:
        ns = [n for n in f["names"] if n in c["names"]]
        if ns:
            out.append(dict(f, names=ns))
    return out


def b_ifaces(c, R):
    """[(interface name, absolute path of the file that declares it)] in the order of c['names']"""
    where = {n: go_clean(R + "/m/" + c["pkgrel"] + "/" + f["fname"]) for f in b_srcfiles(c) for n in f["names"]}
    return [(n, where[n]) for n in c["names"]]


def src_text(c, f, R):
    D = go_clean(R + "/m/" + c["pkgrel"])
    sub = lambda t: t.replace("$D", D).replace("$R", R)
    out = []
    if f["pre"]:
        out.append(sub(f["pre"]))
    out.append("package %s\n" % c["srcname"])
    for n in f["names"]:
        if f["mid"]:
            out.append(sub(f["mid"]))
        out.append("type %s interface{ M() }\n" % real(n))
    return "\n".join(out)


def gen_bcase(rng, idx, want=None):
    """Abstract description; paths are relative to the case root '$R' (= .../top), module in $R/m."""
    want = want or {}
    pkgrel = rng.choice(["p", "p/sub", "p/sub/deep", "q/r"])
    srcname = pkgrel.split("/")[-1] if rng.random() < 0.75 else "srcpk"
    fname = rng.choice(["a.go", "iface_def.go", "x_y.go"])
    two = rng.random() < 0.3
    names = [rng.choice(B_NAMES_EXP if rng.random() < 0.5 else B_NAMES_UNEXP)]
    if two:
        names = [rng.choice(B_NAMES_EXP), rng.choice(B_NAMES_UNEXP)]
    srcfiles = None
    r = rng.random()
    if r < 0.3:          # one plain file and one or two files that carry //line directives, interfaces in each
        nf = rng.choice([2, 2, 3])
        pool = rng.sample(B_NAMES_EXP, 2) + rng.sample(B_NAMES_UNEXP, 2)
        rng.shuffle(pool)
        names = pool[:rng.randint(nf, 4)]
        fnames = [fname] + rng.sample(["parser.go", "lexer_gen.go", "y.go", "zz_cgo.go"], nf - 1)
        srcfiles = [{"fname": fn, "names": [], "pre": "", "mid": ""} for fn in fnames]
        for i, n in enumerate(names):
            srcfiles[i % nf]["names"].append(n)
        for f in srcfiles[1:]:
            f["pre"] = rng.choice(LINE_PRE) if rng.random() < 0.8 else ""
            f["mid"] = rng.choice(LINE_MID) if (rng.random() < 0.5 or not f["pre"]) else ""
    elif r < 0.38:       # a single file with directives
        srcfiles = [{"fname": fname, "names": list(names), "pre": rng.choice(LINE_PRE), "mid": rng.choice(LINE_MID + [""])}]
    cwd_rel = rng.choice(parents(pkgrel)) if rng.random() < 0.92 else "other"
    mode = want.get("mode") or rng.choices(["search", "flag_abs", "flag_rel", "env_abs", "env_rel", "env_and_flag", "none"],
                                          [38, 14, 16, 10, 8, 8, 3])[0]
    cwd = "m" + ("/" + cwd_rel if cwd_rel else "")                     # relative to $R
    anc = ["m" + ("/" + x if x else "") for x in parents(cwd_rel)] + []   # module root .. cwd
    anc = [""] + anc                                                  # '' = $R itself (above the module)
    decoys = []
    if mode == "search":
        cfgdir = cwd if want.get("samedir") else (want.get("cfgdir") or rng.choice(anc + [cwd, cwd]))
        cfgname = rng.choice([".mockery.yml", ".mockery.yaml"])
        if cfgname == ".mockery.yaml" and rng.random() < 0.4:
            decoys.append((cfgdir + "/.mockery.yml").lstrip("/"))
        farther = [a for a in anc if len(a) < len(cfgdir)]
        if farther and rng.random() < 0.4:
            decoys.append((rng.choice(farther) + "/" + rng.choice([".mockery.yml", ".mockery.yaml"])).lstrip("/"))
    elif mode == "none":
        cfgdir, cfgname = "", ""
    else:
        cfgdir = cwd if want.get("samedir") else (want.get("cfgdir") or rng.choice(anc + [cwd, "m/conf", "m/conf"]))
        cfgname = rng.choice([".mockery.yml", "cfg.yml", "my.mockery.yaml"])
        if rng.random() < 0.4 and not (cfgdir == cwd and cfgname.startswith(".mockery")):
            decoys.append(cwd + "/" + rng.choice([".mockery.yml", ".mockery.yaml"]))
    cfgpath = (cfgdir + "/" + cfgname).lstrip("/")
    decoys = [d for d in decoys if d != cfgpath]
    relspell = rng.choice(["plain", "dot"])
    probe = rng.random() < 0.3
    same_dir = (cfgdir == cwd)
    # parameters
    idr_ok = want.get("idr", False) or (mode != "none" and rng.random() < 0.12)   # outside the witness stream only kept when cwd = config dir
    params, kinds = {}, {}
    for k, pool in (("dir", B_DIR), ("filename", B_FILE), ("pkgname", B_PKG), ("structname", B_STRUCT)):
        r = rng.random()
        if k == "dir" and idr_ok:
            params[k], kinds[k] = rng.choice(B_DIR_IDR), "idr"
        elif srcfiles and k in ("dir", "filename") and r < 0.55:
            params[k], kinds[k] = rng.choice([x for x in pool if "InterfaceDir}}" in x or "InterfaceDir " in x or "InterfaceFile" in x] or pool), "ifacefile"
        elif k == "dir" and r < 0.45:
            params[k], kinds[k] = rng.choice([x for x in B_DIR if "ConfigDir" in x]), "configdir"
        elif r < 0.15:
            params[k], kinds[k] = DEFAULTS[k], "default"
        else:
            params[k], kinds[k] = rng.choice(pool), "expr"
        if rng.random() < 0.12 and "{{" in params[k]:
            n = rng.choice([1, 2, 5, 16, 17, 18, 19, 20, 25])
            params[k], kinds[k] = quote_n(params[k], n), "chain%d" % n
    if rng.random() < 0.06:
        params["structname"], kinds["structname"] = rng.choice(B_SELF), "self"
    if rng.random() < 0.05:
        k = rng.choice(PARAMS[:4])
        params[k], kinds[k] = rng.choice(["{{.Nope}}", "{{nope}}", "x{{.InterfaceName", "{{.InterfaceName | lower \"x\"}}"]), "malformed"
    if probe:
        params["template-schema"] = rng.choice(["file://{{.ConfigDir}}/schemas/{{.Template | base}}.json",
                                                "file://{{.ConfigDir}}/schemas/s_{{.SrcPackageName}}.json",
                                                "file://{{.Template | trimPrefix \"file://\" | dir}}/schemas/x.json"])
        kinds["template-schema"] = "probe"
    else:
        params["template-schema"], kinds["template-schema"] = DEFAULTS["template-schema"], "default"
    level = rng.choice(["root", "root", "package"])
    return {"idx": idx, "pkgrel": pkgrel, "srcname": srcname, "fname": fname, "names": names, "cwd": cwd, "mode": mode,
            "cfgpath": cfgpath, "decoys": decoys, "relspell": relspell, "probe": probe, "params": params, "kinds": kinds,
            "level": level, "listed": rng.random() < 0.4, **({"srcfiles": srcfiles} if srcfiles else {})}


def b_paths(c, R):
    """Concrete paths and the config value of the chosen mode."""
    cwd = go_clean(R + "/" + c["cwd"])
    cfg_abs = go_clean(R + "/" + c["cfgpath"]) if c["mode"] != "none" else ""
    envv = flagv = ""
    if c["mode"] in ("flag_rel", "env_rel"):
        rel = os.path.relpath(cfg_abs, cwd)
        if c["relspell"] == "dot" and not rel.startswith(".."):
            rel = "./" + rel
        used = rel
    else:
        used = cfg_abs
    if c["mode"] in ("flag_abs", "flag_rel"):
        flagv = used
    elif c["mode"] in ("env_abs", "env_rel"):
        envv = used
    elif c["mode"] == "env_and_flag":
        envv = used
        flagv = go_clean(R + "/" + c["decoys"][0]) if c["decoys"] else cfg_abs
    file = go_clean(R + "/m/" + c["pkgrel"] + "/" + c["fname"])
    return {"cwd": cwd, "cfg_abs": cfg_abs, "used": used, "env": envv, "flag": flagv, "file": file,
            "pkgpath": "example.com/m/" + c["pkgrel"], "template": ("file://" + R + "/m/probe.templ") if c["probe"] else "testify"}


def b_expect(c, R):
    """Oracle: what the documentation demands of this run.
    -> ('fail', why) | ('ok', [(abs file, pkg clause, struct, iface)], schema path or None) | ('skip', why) | ('either', ...)"""
    P = b_paths(c, R)
    if c["mode"] == "none":
        return ("fail", "no config file")
    abs_cd = go_dir(P["cfg_abs"])
    per, deep = [], False
    for name, file in b_ifaces(c, R):
        vars = doc_vars(name, file, c["srcname"], P["pkgpath"], c["params"]["structname"], P["template"], P["used"], abs_cd, P["cwd"])
        if uses_idr(c["params"]) and vars["InterfaceDirRelative"] is None:
            return ("skip", "InterfaceDirRelative not determined by the documentation")
        w = o_judge(vars, c["params"])
        if w[0] == "error":
            return ("fail", "template error %s" % sorted(w[1]))
        deep = deep or w[0] == "either"
        v = w[1]
        path = go_clean(v["dir"] + "/" + v["filename"])
        if not path.startswith("/"):
            path = go_clean(P["cwd"] + "/" + path)
        per.append((path, v["pkgname"], v["structname"], name))
    nv = doc_vars(None, "", c["srcname"], P["pkgpath"], c["params"]["structname"], P["template"], P["used"], abs_cd, P["cwd"])
    w = o_judge(nv, c["params"])
    if w[0] == "error":
        return ("fail", "template error in the per-file pass %s" % sorted(w[1]))
    schema = w[1]["template-schema"] if c["probe"] else None
    return ("either" if deep or w[0] == "either" else "ok", per, schema)


def b_sane(c, R):
    """Keep generated runs inside what mockery can write: identifiers, paths below $R, distinct mocks."""
    try:
        e = b_expect(c, R)
    except TUnsup:
        return False
    if e[0] in ("fail", "skip"):
        return e[0] == "fail"
    per = e[1]
    for path, pkg, sn, _ in per:
        # mockery needs the output directory to be inside a Go module
        if not path.startswith(R + "/m/") or not SAFE_PATH.match(path) or not path.endswith(".go"):
            return False
        if not IDENT.match(real(pkg)) or not IDENT.match(real(sn)) or not ascii_only(pkg):
            return False
        if path in {f for _, f in b_ifaces(c, R)}:
            return False
    if len({(p, s) for p, _, s, _ in per}) != len(per):
        return False
    byfile = {}
    for p, pkg, _, _ in per:
        byfile.setdefault(p, set()).add(pkg)
    if any(len(v) > 1 for v in byfile.values()):
        return False
    if e[2] is not None:
        sp = e[2][len("file://"):] if e[2].startswith("file://") else None
        if sp is None:
            return False
        spa = sp if sp.startswith("/") else go_clean(b_paths(c, R)["cwd"] + "/" + sp)
        if not spa.startswith(R + "/") or not SAFE_PATH.match(spa):
            return False
    return True


def b_expect_cwd_reading(c, R):
    """The implemented reading of InterfaceDirRelative (relative to the working directory)."""
    P = b_paths(c, R)
    per = []
    for name, file in b_ifaces(c, R):
        v = doc_vars(name, file, c["srcname"], P["pkgpath"], c["params"]["structname"], P["template"], P["used"], P["cwd"], P["cwd"])
        if v["InterfaceDirRelative"] is None:
            v["InterfaceDirRelative"] = "."
        w = o_judge(v, c["params"])
        if w[0] == "error":
            return []
        path = go_clean(w[1]["dir"] + "/" + w[1]["filename"])
        per.append((path if path.startswith("/") else go_clean(P["cwd"] + "/" + path), w[1]["pkgname"], w[1]["structname"], name))
    return per


def b_sane_cwd_reading(c, R):
    try:
        per = b_expect_cwd_reading(c, R)
    except TUnsup:
        return False
    return bool(per) and all(p.startswith(R + "/m/") and SAFE_PATH.match(p) for p, _, _, _ in per) and set(per) != set(b_expect(c, R)[1])


def d_in_subset(c, maxlen=2500):
    """The oracle and the model can judge the case: nothing outside the modelled template subset, and no
    value that explodes in size (k references to itself grow like k^20; evaluated inside Coq that is too big)."""
    vars = doc_vars(c["name"] if c["iface"] else None, c["file"], c["pkgname"], c["pkgpath"], c["params"]["structname"],
                    c["template"], c["config"], c["abs_cd"], c["cwd"])
    if vars.get("InterfaceDirRelative") is None:
        vars["InterfaceDirRelative"] = "."
    try:
        o_judge(vars, c["params"])
        for k in PARAMS:
            t = c["params"][k]
            for _ in range(CAP + 1):
                if len(t) > maxlen:
                    return False
                try:
                    n = o_render(t, vars)
                except (TParse, TExec):
                    break
                if n == t:
                    break
                t = n
    except TUnsup:
        return False
    return True


def yaml_cfg(c, P, marker=None):
    lines = []
    pr = c["params"] if marker is None else dict(c["params"], dir="decoy_%s" % marker)
    top = ["template: %s" % json.dumps(real(P["template"])), "force-file-write: true"]
    if c["probe"]:
        top.append("formatter: noop")
    vals = ["%s: %s" % (k, json.dumps(real(pr[k]))) for k in PARAMS if not (k == "template-schema" and not c["probe"])]
    if c["level"] == "root":
        top += vals
    lines += top
    lines.append("packages:")
    lines.append("  %s:" % P["pkgpath"])
    inner = (["      all: true"] if not c["listed"] else []) + (["      " + v for v in vals] if c["level"] == "package" else [])
    if inner:
        lines.append("    config:")
        lines += inner
    if c["listed"]:
        lines.append("    interfaces:")
        for n in c["names"]:
            lines.append("      %s: {}" % json.dumps(real(n)))
    return "\n".join(lines) + "\n"


def b_materialize(c, R, schema_path):
    P = b_paths(c, R)
    os.makedirs(R + "/m/" + c["pkgrel"], exist_ok=True)
    os.makedirs(P["cwd"], exist_ok=True)
    open(R + "/m/go.mod", "w").write(GO_MOD)
    shutil.copy(str(REPO / "go.sum"), R + "/m/go.sum")
    D = R + "/m/" + c["pkgrel"]
    for f in b_srcfiles(c):
        open(D + "/" + f["fname"], "wb").write(src_text(c, f, R).encode("utf-8"))
    if c.get("srcfiles"):
        # the directories that the directives name exist (a wrong binding would write there without complaint)
        for d, pk in ((go_clean(D + "/../sibling"), "sibling"), (R + "/m/zz", "zz"), (D + "/grammar", "grammar"), (D + "/gen", "gen")):
            if d.startswith(R + "/m/"):
                os.makedirs(d, exist_ok=True)
                open(d + "/doc.go", "w").write("package %s\n" % pk)
    open(R + "/m/probe.templ", "w").write(PROBE)
    if c["mode"] != "none":
        os.makedirs(os.path.dirname(P["cfg_abs"]), exist_ok=True)
        open(P["cfg_abs"], "wb").write(yaml_cfg(c, P).encode("utf-8"))
    for i, d in enumerate(c["decoys"]):
        dp = go_clean(R + "/" + d)
        os.makedirs(os.path.dirname(dp), exist_ok=True)
        open(dp, "wb").write(yaml_cfg(c, P, marker=i).encode("utf-8"))
    if schema_path:
        sp = schema_path[len("file://"):]
        spa = sp if sp.startswith("/") else go_clean(P["cwd"] + "/" + sp)
        os.makedirs(os.path.dirname(spa), exist_ok=True)
        open(spa, "w").write(SCHEMA)
    return P


MOCK_RE = re.compile(rb"^// (\S+) is an autogenerated mock type for the (\S+) type$", re.M)
PROBE_RE = re.compile(rb"^// VERIF-MOCK (\S+) (\S+)$", re.M)
PKG_RE = re.compile(rb"^package (\S+)", re.M)


def b_link_setup(c, R):
    """Symlinked spellings (c['link']): 'root'   - the case root R is a symlink (.../top -> phys/top): the working
    directory, the module and the config are all reached through it; 'module' - the module root R/m is a
    symlink to R/mreal.  Everything is then created and addressed through the logical spelling."""
    if os.path.islink(R):
        os.unlink(R)
    shutil.rmtree(R, ignore_errors=True)
    link = c.get("link")
    if link == "root":
        phys = os.path.dirname(R) + "/phys/" + os.path.basename(R)
        shutil.rmtree(os.path.dirname(phys), ignore_errors=True)
        os.makedirs(phys)
        os.symlink("phys/" + os.path.basename(R), R)
    elif link == "module":
        os.makedirs(R + "/mreal")
        os.symlink("mreal", R + "/m")


def b_walk(R):
    """files below R, named by their logical spelling (symlinked directories are followed once)"""
    out = []
    for d, _, fs in os.walk(R, followlinks=True):
        if "/mreal" in d[len(R):] or "/phys" in d[len(R):] or "/cfglnk" in d[len(R):]:
            continue
        out += [os.path.join(d, f) for f in fs]
    return out


def b_run(ctx, c, R, schema_path, timeout=STALL):
    """Run mockery once. -> observation dict"""
    b_link_setup(c, R)
    P = b_materialize(c, R, schema_path)
    before = set(b_walk(R))
    env = dict(os.environ, GOPROXY="off", GOFLAGS="-mod=mod")
    env.pop("MOCKERY_CONFIG", None)
    for k in list(env):
        if k.startswith("MOCKERY_"):
            env.pop(k)
    args = ["bash", "-c", 'ulimit -v %d; exec "$0" "$@"' % MEM_KB, ctx.bins["mockery"]]
    envv, flagv = P["env"], P["flag"]
    if c.get("cfglink") and c["mode"] != "none":
        # the config file is named through a symlinked directory
        lnk = R + "/cfglnk"
        os.symlink(os.path.dirname(P["cfg_abs"]), lnk)
        spell = lambda v: (lnk + "/" + os.path.basename(v)) if v and go_clean(v if v.startswith("/") else P["cwd"] + "/" + v) == P["cfg_abs"] else v
        envv, flagv = spell(envv), spell(flagv)
    if envv:
        env["MOCKERY_CONFIG"] = envv
    if flagv:
        args += ["--config", flagv]
    if c.get("pwd") == "unset":
        env.pop("PWD", None)          # the process then sees the physical working directory
    else:
        env["PWD"] = P["cwd"]         # as a shell does after `cd <logical path>`
    t0 = time.time()
    try:
        p = subprocess.run(args, cwd=P["cwd"], env=env, stdout=subprocess.PIPE, stderr=subprocess.PIPE, timeout=timeout)
        rc, hang = p.returncode, False
        tail = (p.stdout + p.stderr).decode(errors="replace")[-1500:]
    except subprocess.TimeoutExpired:
        rc, hang, tail = None, True, "timeout after %.0f s" % timeout
    files = []
    for full in b_walk(R):
        if full in before or not full.endswith(".go"):
            continue
        data = open(full, "rb").read()
        m = PKG_RE.search(data)
        mocks = [(a.decode("latin-1"), bn.decode("latin-1")) for a, bn in (PROBE_RE if c["probe"] else MOCK_RE).findall(data)]
        files.append({"path": full, "pkg": m.group(1).decode("latin-1") if m else "", "mocks": mocks})
    return {"rc": rc, "hang": hang, "secs": round(time.time() - t0, 2), "files": sorted(files, key=lambda f: f["path"]), "tail": tail,
            "cfgfiles": sorted(x for x in before if os.path.basename(x) in (".mockery.yml", ".mockery.yaml"))}


def b_exact(c):
    """The run is consistently spelled (logical working directory in PWD, config named directly): the oracle
    and the model apply verbatim.  Otherwise (PWD unset below a symlink, config named through a symlink) the
    spelling of absolute paths is mixed and placements are compared after resolving symlinks."""
    return not (c.get("link") and c.get("pwd") == "unset") and not c.get("cfglink")


def b_oracle(c, R, exp, obs):
    """-> (failures, symptom) ; symptom classifies the failure for the known-findings list"""
    fails = []
    if obs["hang"]:
        return ["mockery did not finish within %.0f s, and not within %.0f s when this run was repeated alone" % (STALL, CONFIRM)], "hang"
    if re.search(r"panic:|goroutine \d+ \[", obs["tail"]):
        return ["mockery crashed: " + obs["tail"][-300:]], "panic"
    if exp[0] == "skip":
        return [], None
    if exp[0] == "fail":
        if obs["rc"] == 0:
            fails.append("expected a non-zero exit (%s); exit 0, files %r" % (exp[1], [f["path"] for f in obs["files"]]))
        return fails, "exit0"
    if obs["rc"] != 0:
        if exp[0] == "either":
            return [], None
        return ["expected mocks %r; exit %s: %s" % ([(p, real(s)) for p, _, s, _ in exp[1]], obs["rc"], obs["tail"][-400:])], "exit1"
    canon = (lambda x: x) if b_exact(c) else os.path.realpath
    got = {(canon(f["path"]), f["pkg"], s, i) for f in obs["files"] for s, i in f["mocks"]}
    want = {(canon(p_), pk, s, i) for p_, pk, s, i in exp[1]}
    if got != want:
        for w in sorted(want - got):
            fails.append("missing: interface %s as struct %s, package %s, in %s" % (real(w[3]), real(w[2]), w[1], w[0]))
        for g in sorted(got - want):
            fails.append("unexpected: interface %s as struct %s, package %s, in %s" % (real(g[3]), real(g[2]), g[1], g[0]))
    return fails, "wrong-output"


def bcase_term(c, R, obs, nfiles):
    P = b_paths(c, R)
    if obs["rc"] == 0 and not obs["hang"]:
        o = "Some " + coq_list("(%s, %s, %s)" % (b(f["path"]), b(f["pkg"]), coq_list(b(s) for s, _ in f["mocks"])) for f in obs["files"])
    else:
        o = "None"
    return ("{| b_cwd := %s; b_envcfg := %s; b_flagcfg := %s; b_files := %s; b_pkgname := %s; b_pkgpath := %s; "
            "b_template := %s; b_ifaces := %s; b_params := %s; b_nfiles := %d; b_obs := %s |}") % (
        b(P["cwd"]), b(P["env"]), b(P["flag"]), coq_list(b(x) for x in obs["cfgfiles"]), b(c["srcname"]), b(P["pkgpath"]),
        b(P["template"]), coq_list(iface_term(n, f) for n, f in b_ifaces(c, R)), params_term(c["params"]), nfiles, o)


def b_in_idr_class(c, R):
    P = b_paths(c, R)
    return c["mode"] != "none" and uses_idr(c["params"]) and go_dir(P["cfg_abs"]) != P["cwd"]


def b_describe(c, R, obs=None, exp=None):
    P = b_paths(c, R)
    d = {"layout": {"module": "$R/m (module example.com/m)", "interface file": P["file"].replace(R, "$R"), "interfaces": [real(n) for n in c["names"]],
                    "source files": [{"file": "$R/m/%s/%s" % (c["pkgrel"], f["fname"]), "interfaces": [real(n) for n in f["names"]],
                                      "directive before the package clause": f["pre"], "directive before each declaration": f["mid"]} for f in b_srcfiles(c)],
                    "source package": c["srcname"], "working directory": P["cwd"].replace(R, "$R"),
                    "config file": P["cfg_abs"].replace(R, "$R"), "found by": c["mode"],
                    "--config": P["flag"].replace(R, "$R"), "MOCKERY_CONFIG": P["env"].replace(R, "$R"),
                    "other config files": ["$R/" + x for x in c["decoys"]],
                    "symlinks": {"root": "$R is a symlink to phys/top (working directory, module and config are reached through it)",
                                 "module": "$R/m is a symlink to $R/mreal (the module root is a symlink target)"}.get(c.get("link"), "none"),
                    "PWD": "unset (process sees the physical directory)" if c.get("pwd") == "unset" else "working directory as spelled",
                    "config named through symlink $R/cfglnk": bool(c.get("cfglink")), "parameters at": c["level"], "template": "probe (file://)" if c["probe"] else "testify"},
         "parameters": {k: real(v) for k, v in c["params"].items()}}
    if exp is not None:
        d["documented"] = [exp[0]] + ([{"file": p.replace(R, "$R"), "package": pk, "struct": real(s), "interface": real(i)} for p, pk, s, i in exp[1]] if exp[0] in ("ok", "either") else [exp[1]])
    if obs is not None:
        d["observed"] = {"exit": obs["rc"], "hang": obs["hang"], "seconds": obs["secs"],
                         "files": [{"file": f["path"].replace(R, "$R"), "package": f["pkg"], "mocks": [(real(s), real(i)) for s, i in f["mocks"]]} for f in obs["files"]],
                         "log tail": obs["tail"][-600:].replace(R, "$R")}
    return d


def b_shrink(ctx, c, R, still_fails):
    """Simplify the failing run: one interface, default parameters, no decoys, parameters at root."""
    cur = dict(c)
    trials = []
    if len(cur["names"]) > 1:
        trials += [("names", [n]) for n in cur["names"]]
    trials += [(k, None) for k in ("cfglink", "pwd", "link") if cur.get(k)]
    if cur.get("srcfiles"):
        trials += [("srcfiles", [dict(f, pre="", mid="") for f in cur["srcfiles"]]), ("srcfiles", [dict(f, mid="") for f in cur["srcfiles"]])]
    trials += [("decoys", []), ("level", "root"), ("listed", False), ("probe", False)]
    for k, v in trials:
        cand = dict(cur, **{k: v})
        if k == "probe":
            cand["params"] = dict(cand["params"], **{"template-schema": DEFAULTS["template-schema"]})
        if cand["mode"] == "env_and_flag" and not cand["decoys"]:
            continue
        if b_sane(cand, R) and still_fails(cand):
            cur = cand
    for k in PARAMS[:4]:
        for v in ([DEFAULTS[k]] if k != "dir" else ["{{.ConfigDir}}/out", DEFAULTS[k]]):
            if cur["params"][k] == v:
                continue
            cand = dict(cur, params=dict(cur["params"], **{k: v}))
            if b_sane(cand, R) and still_fails(cand):
                cur = cand
                break
    return cur


# ------------------------------------------------------------------ corpus
def corpus_d(root):
    base = {"iface": True, "name": "Foo", "file": root + "/w/m/p/a.go", "pkgname": "p", "pkgpath": "example.com/m/p", "template": "testify",
            "config": root + "/w/m/.mockery.yml", "cwd": root + "/w/m", "weird": False}
    out = []
    for over in [{}, {"structname": "{{.StructName}}x"}, {"structname": "{{.StructName}}"}, {"dir": "{{.StructName}}"}, {"pkgname": ""},
                 {"dir": "{{.StructName | lower}}"}, {"dir": "{{.InterfaceDirRelative}}/x"}, {"pkgname": quote_n("{{.Mock}}", 18)},
                 {"pkgname": quote_n("{{.Mock}}", 19)}, {"filename": quote_n("{{.Nope}}", 25)}, {"pkgname": "a}}b{c{"},
                 {"pkgname": '{{base ""}}|{{dir ""}}|{{clean ""}}|{{base "//"}}|{{dir "/a"}}|{{dir "a/b/"}}|{{clean "a/../../b/./c//"}}|{{clean "/../a"}}|{{dir "//a"}}|{{base "a/b//"}}'}]:
        p = dict(DEFAULTS)
        p.update(over)
        c = dict(base, params=p, kinds={k: "corpus" for k in PARAMS})
        c["abs_cd"] = go_dir(c["config"])
        out.append(c)
    f = VERIF / "corpus" / "C11" / "dcases.json"
    if f.exists():
        for c in json.loads(f.read_text()):
            c = {k: (v.replace("$ROOT", root) if isinstance(v, str) else v) for k, v in c.items()}
            c["params"] = {k: v.replace("$ROOT", root) for k, v in c["params"].items()}
            out.append(c)
    return out


def corpus_b():
    """hand-picked layouts: the config two levels above the working directory, found by search"""
    mk = lambda **kw: dict({"idx": 0, "pkgrel": "p/sub", "srcname": "sub", "fname": "a.go", "names": ["Foo"], "cwd": "m/p/sub", "mode": "search",
                            "cfgpath": "m/.mockery.yml", "decoys": [], "relspell": "plain", "probe": False, "level": "root", "listed": False,
                            "params": dict(DEFAULTS, dir="{{.ConfigDir}}/out", filename="mock_{{.InterfaceName}}.go"),
                            "kinds": {k: "corpus" for k in PARAMS}}, **kw)
    out = [mk(), mk(names=["Foo", "bar"]), mk(cwd="m", cfgpath="m/.mockery.yml"),
           mk(cfgpath=".mockery.yaml", params=dict(DEFAULTS, dir="{{.ConfigDir}}/m/out", filename="mock_{{.InterfaceName}}.go")),
           mk(mode="flag_rel"), mk(mode="env_abs", cfgpath="m/conf/cfg.yml"),
           mk(params=dict(DEFAULTS, structname="{{.StructName}}x")),
           mk(cwd="m", params=dict(DEFAULTS, dir="{{.InterfaceDirRelative}}/mk", filename="mock_{{.InterfaceName}}.go"))]
    # interfaces in files that carry //line directives: the declaring file is the real .go file
    ln = lambda pre, mid, **kw: mk(names=["Foo", "bar", "Reader"], cwd="m", cfgpath="m/.mockery.yml",
                                   srcfiles=[{"fname": "a.go", "names": ["Foo"], "pre": "", "mid": ""},
                                             {"fname": "parser.go", "names": ["bar"], "pre": pre, "mid": mid},
                                             {"fname": "y.go", "names": ["Reader"], "pre": "", "mid": "//line other.go:10"}],
                                   **dict({"params": dict(DEFAULTS, filename="mock_{{.InterfaceFile | base | trimSuffix \".go\"}}_{{.InterfaceName}}_test.go")}, **kw))
    out += [ln("//line grammar/parser.y:2", ""), ln("//line ../sibling/gen.go:7", "/*line gen/y.go:3:1*/"),
            ln("//line $R/m/zz/abs.go:1", "//line $R/m/zz/abs.go:20"), ln("/*line x.go:1:1*/", ""),
            ln("//line ../sibling/gen.go:7", "", params=dict(DEFAULTS, dir="{{.InterfaceDir}}/mocks", filename="mock_{{.InterfaceName}}.go"))]
    f = VERIF / "corpus" / "C11" / "bcases.json"
    if f.exists():
        out += json.loads(f.read_text())
    return out


# ------------------------------------------------------------------ the check
def check(ctx, only=None):
    gate = proof_gate(ctx)
    if not ctx.build_tree(drivers=["drv_tmpl"]):
        ctx.write_evidence(gate, 0, 0, "build failed", [])
        return
    known = load_known("C11")
    dbg("built")
    root = str(ctx.scratch / "d")
    for d in DIRS:
        os.makedirs(root + "/" + d, exist_ok=True)
    nd, nb = (20000, 3000) if ctx.thorough() else (1600, 230)
    if only is not None:
        dcases = [dict(c, **{k: (v.replace("$ROOT", root) if isinstance(v, str) else v) for k, v in c.items() if k != "params"},
                       params={k: v.replace("$ROOT", root) for k, v in c["params"].items()}) for c in only.get("d", [])]
        bcases, witnesses_d, witnesses_b = only.get("b", []), [], only.get("bw", [])
    else:
        dcases = corpus_d(root)
        while len(dcases) < nd:
            c = gen_dcase(ctx.rng, root)
            if d_in_subset(c) and self_refs(c["params"]) < 3:
                dcases.append(c)
        # a value that doubles in every pass (2^20 times its size at the cap): implementation and oracle only
        g = dict(corpus_d(root)[0], params=dict(DEFAULTS, structname="{{.StructName}}{{.StructName}}"), nocoq=True)
        dcases.append(g)
        dbg("dcases", len(dcases))
        R0 = str(ctx.scratch / "b" / "c0" / "top")
        in_class = lambda c: b_in_idr_class(c, R0)
        bcases, witnesses_b = [c for c in corpus_b() if not in_class(c)], [c for c in corpus_b() if in_class(c)]
        i = 0
        while len(bcases) < nb:
            i += 1
            c = gen_bcase(ctx.rng, i)
            if not in_class(c) and b_sane(c, R0):       # the main stream stays outside the known-finding class
                bcases.append(c)
        # the same runs from a working directory that is reached through a symlink (PWD logical, as after `cd`, or
        # unset), with the module root itself a symlink target, and with the config named through a symlink;
        # every 6th main-stream case, plus dedicated InterfaceDirRelative cases (config next to the working
        # directory, interface below it) together with their physical twin
        variants = [{"link": "root"}, {"link": "module"}, {"link": "root", "pwd": "unset"}, {"link": "module", "pwd": "unset"}, {"cfglink": True}]
        symcases = []
        for j in range(0, len(bcases), 6):
            v = variants[(j // 6) % len(variants)]
            if bcases[j]["mode"] == "none" or (v.get("cfglink") and bcases[j]["mode"] not in ("flag_abs", "env_abs", "env_and_flag")):
                v = variants[(j // 6) % 2]
            symcases.append(dict(bcases[j], **v))
        n_idr, t = (60 if ctx.thorough() else 10), 0
        while n_idr > 0 and t < 4000:
            t += 1
            c = gen_bcase(ctx.rng, 200000 + t, want={"idr": True, "samedir": True})
            if c["mode"] == "none" or in_class(c) or c["cwd"] == "m/" + c["pkgrel"] or not c["cwd"].startswith("m"):
                continue
            if not (b_sane(c, R0) and b_expect(c, R0)[0] == "ok"):
                continue
            n_idr -= 1
            bcases.append(c)
            symcases += [dict(c, link="root"), dict(c, link="module"), dict(c, **variants[2 + n_idr % 3])]
        bcases += symcases
        dbg("bcases", len(bcases), "of them symlinked spellings", len(symcases), "draws", i)
        # witness stream for the known finding: InterfaceDirRelative with working directory <> config directory
        for kf in known:
            if kf.get("witness", {}).get("bcase"):
                witnesses_b.insert(0, kf["witness"]["bcase"])
        tries = 0
        while len(witnesses_b) < (40 if ctx.thorough() else 8) and tries < 4000:
            tries += 1
            c = gen_bcase(ctx.rng, 100000 + tries, want={"idr": True})
            c["names"] = c["names"][:1]
            P = b_paths(c, R0)
            if in_class(c) and b_sane(c, R0) and b_expect(c, R0)[0] == "ok" and b_sane_cwd_reading(c, R0):
                witnesses_b.append(c)

    dbg("witnesses", len(witnesses_b))
    # ---------------- driver stream
    tmo = Timeouts()
    outs, secs = run_driver(ctx, dcases, tmo) if dcases else ([], 0)
    # calls that were not judged (timeout not confirmed because the budget was used, or stream stopped) are left out
    live = [i for i, o in enumerate(outs) if o["k"] not in ("skipped-timeout", "notrun")]
    dcases = [dict(dcases[i], nocoq=True) if outs[i]["k"] == "hang" else dcases[i] for i in live]
    outs = [outs[i] for i in live]
    dbg("driver done", secs)
    d_fail = {}
    for i, (c, o) in enumerate(zip(dcases, outs)):
        f, _ = d_oracle(c, o)
        if f:
            d_fail[i] = f
    d_terms = [dcase_term(c, o) for c, o in zip(dcases, outs) if not c.get("nocoq")]
    d_index = [i for i, c in enumerate(dcases) if not c.get("nocoq")]
    d_bad, d_errs = coq_mismatches(ctx, MODH, d_terms) if d_terms else ([], [])
    d_uns, e2 = coq_mismatches(ctx, MODH, d_terms, check="unsupported") if d_terms else ([], [])
    d_errs += e2
    d_gcls, e4 = coq_mismatches(ctx, MODH, d_terms, check="growth_class") if d_terms else ([], [])
    d_errs += e4
    py_gcls = [j for j, i in enumerate(d_index) if self_refs(dcases[i]["params"]) >= 3]

    dbg("coq d done", len(d_bad), len(d_uns), d_errs[:1])
    # ---------------- binary stream
    allb = [(c, False) for c in bcases] + [(c, True) for c in witnesses_b]

    def one(k):
        c, _ = allb[k]
        R = str(ctx.scratch / "b" / ("c%d" % k) / "top")
        try:
            exp = b_expect(c, R)
        except TUnsup as e:
            exp = ("skip", "outside the modelled subset: %s" % e)
        schema = exp[2] if exp[0] in ("ok", "either") else None
        obs = b_run(ctx, c, R, schema)
        return R, exp, obs
    growth = None
    kf_g = [x for x in known if x["id"] == "C11-exponential-self-reference"]
    if kf_g and only is None:
        gw = dict(corpus_d(root)[0], params=dict(DEFAULTS, structname=kf_g[0]["witness"]["structname"]))
        from concurrent.futures import ThreadPoolExecutor as _TPE
        _ex = _TPE(max_workers=1)
        growth = _ex.submit(run_growth_witness, ctx, gw)
    bres = pmap(one, range(len(allb)))
    if growth is not None:
        sym = growth.result()
        _ex.shutdown()
        dbg("growth witness", sym)
        if re.fullmatch(kf_g[0]["symptom"], sym):
            ctx.known("structname mentioning itself 3 times grows like 3^passes: under a %d kB address-space limit the resolver process does not report the infinite loop (it ends abnormally or is still growing at the time limit)" % MEM_KB)
        else:
            rp = ctx.write_replay("growth-witness", {"what": "known finding C11-exponential-self-reference: listed symptom class %s, observed '%s' (a clean answer of the resolver: the symptom changed)" % (kf_g[0]["symptom"], sym),
                                                     "case": d_replay(gw, root)})
            ctx.violation(rp)
    # two-stage timeouts: a run that exceeded STALL seconds in the parallel phase is repeated alone
    drop = set()
    for k, (R, exp, obs) in enumerate(bres):
        if not obs["hang"]:
            continue
        if tmo.may_confirm():
            tmo.retried += 1
            dbg("run %d exceeded %.0f s; repeating it alone with %.0f s" % (k, STALL, CONFIRM))
            obs2 = b_run(ctx, allb[k][0], R, exp[2] if exp[0] in ("ok", "either") else None, timeout=CONFIRM)
            if obs2["hang"]:
                tmo.confirmed += 1
            bres[k] = (R, exp, obs2)
        else:
            tmo.skipped += 1
            drop.add(k)
    if drop:
        tmo.notes.append("%d runs exceeded %.0f s and were not repeated (confirmation budget used)" % (len(drop), STALL))
        allb = [x for k, x in enumerate(allb) if k not in drop]
        bres = [x for k, x in enumerate(bres) if k not in drop]
    dbg("runs done", "timeouts retried/confirmed/skipped", tmo.retried, tmo.confirmed, tmo.skipped)
    b_fail, b_terms, b_known = {}, [], []
    for k, ((c, wit), (R, exp, obs)) in enumerate(zip(allb, bres)):
        f, sym = b_oracle(c, R, exp, obs)
        nfiles = len({p for p, _, _, _ in exp[1]}) if exp[0] in ("ok", "either") else 0
        b_terms.append(bcase_term(c, R, obs, nfiles) if b_exact(c) else None)   # mixed spellings: oracle only (after resolving symlinks)
        if wit:
            # the listed symptom: the output is what "relative to the working directory" gives
            symptom = "other"
            if f and obs["rc"] == 0:
                got = {(f2["path"], f2["pkg"], s, i2) for f2 in obs["files"] for s, i2 in f2["mocks"]}
                if got == set(b_expect_cwd_reading(c, R)):
                    symptom = "interfacedirrelative-relative-to-cwd"
            kf = [x for x in known if x["id"] == "C11-interfacedirrelative-cwd"]
            if f and kf and re.fullmatch(kf[0]["symptom"], symptom):
                b_known.append(k)
            else:
                P = b_paths(c, R)
                b_fail[k] = f or ["known finding C11-interfacedirrelative-cwd no longer reproduces: with working directory %s and the config in %s the output follows the documented reading (relative to ConfigDir)" % (P["cwd"], go_dir(P["cfg_abs"]))]
        elif f:
            b_fail[k] = f
    if b_known:
        ctx.known("InterfaceDirRelative is relative to the working directory, not to ConfigDir (%d witness layouts)" % len(b_known))
    tk = [k for k, t_ in enumerate(b_terms) if t_ is not None]
    live_terms = [b_terms[k] for k in tk]
    b_bad, b_errs = coq_mismatches(ctx, MODH, live_terms, check="bmismatches") if live_terms else ([], [])
    b_cls, e3 = coq_mismatches(ctx, MODH, live_terms, check="idr_class") if live_terms else ([], [])
    b_bad, b_cls = [tk[j] for j in b_bad], [tk[j] for j in b_cls]
    b_errs += e3
    py_cls = [k for k in tk if b_in_idr_class(allb[k][0], bres[k][0])]

    # ---------------- classification
    for i in sorted(d_fail)[:3]:
        c, o = dcases[i], outs[i]
        rp = ctx.write_replay("oracle-resolver-%d" % i, {
            "what": d_fail[i], "stream": "ParseTemplates called directly (drv_tmpl)",
            "case": d_replay(c, root), "observed": {k: (real(v) if isinstance(v, str) else v) for k, v in o.items() if k != "v"} | ({"values": dict(zip(PARAMS, [real(x) for x in o["v"]]))} if o["k"] == "ok" else {})})
        ctx.violation(rp)
    shown = 0
    for k in sorted(b_fail):
        if shown >= 3:
            break
        shown += 1
        (c, wit), (R, exp, obs) = allb[k], bres[k]
        small = c
        if not wit and not obs["hang"]:
            def still(cc, R=R):
                try:
                    e = b_expect(cc, R)
                except TUnsup:
                    return False
                o2 = b_run(ctx, cc, R, e[2] if e[0] in ("ok", "either") else None, timeout=3 * STALL)
                return not o2["hang"] and bool(b_oracle(cc, R, e, o2)[0])
            small = b_shrink(ctx, c, R, still)
            exp = b_expect(small, R)
            obs2 = b_run(ctx, small, R, exp[2] if exp[0] in ("ok", "either") else None, timeout=CONFIRM)
            if obs2["hang"] or not b_oracle(small, R, exp, obs2)[0]:
                small, exp = c, bres[k][1]                 # keep the original failing run
            else:
                obs = obs2
        rp = ctx.write_replay("oracle-run-%d" % k, {
            "what": b_oracle(small, R, exp, obs)[0] or b_fail[k], "stream": "mockery binary in a scratch module",
            "witness_stream": wit, "bcase": small, "readable": b_describe(small, R, obs, exp)})
        ctx.violation(rp)
    any_oracle = bool(d_fail or b_fail)
    if not gate["ok"] and not any_oracle:
        ctx.violation(gate["replay"], nofail=True)
    if (d_bad or d_errs or d_uns or b_bad or b_errs or sorted(b_cls) != sorted(py_cls) or sorted(d_gcls) != sorted(py_gcls)) and not any_oracle:
        ex = []
        for j in d_bad[:3]:
            i = d_index[j]
            ex.append({"case": d_replay(dcases[i], root), "observed": outs[i],
                       "model": coq_show(ctx, MODH, "d_model (%s)" % d_terms[j], name="show_d%d" % i)})
        for k in b_bad[:3]:
            ex.append({"bcase": allb[k][0], "readable": b_describe(allb[k][0], bres[k][0], bres[k][2], bres[k][1]),
                       "model": coq_show(ctx, MODH, "b_model (%s)" % b_terms[k], name="show_b%d" % k)})
        rp = ctx.write_replay("correspondence", {
            "what": "model Cfg/Tmpl.v and the implementation disagree; the documentation oracle found no failing input among %d resolver calls and %d runs" % (len(dcases), len(allb)),
            "obligation": "correspondence Harness/C11.v check_dcase (five resolved values / error class) and check_bcase (output file, package clause, struct name, exit class); guard agreement idr_class",
            "resolver_mismatches": len(d_bad), "run_mismatches": len(b_bad), "outside_subset": len(d_uns),
            "guard_disagreement": sorted(set(b_cls) ^ set(py_cls))[:10], "growth_guard_disagreement": sorted(set(d_gcls) ^ set(py_gcls))[:10], "coq_errors": (d_errs + b_errs)[:3], "examples": ex})
        ctx.violation(rp, nofail=True)

    # ---------------- evidence
    hist = {"param_kinds": {}, "resolver_outcomes": {}, "run_modes": {}, "run_outcomes": {}, "cwd_vs_configdir": {"same": 0, "different": 0},
            "exported": {"exported": 0, "unexported": 0}, "passes_needed": {}}
    for c, o in zip(dcases, outs):
        for k in PARAMS:
            kk = re.sub(r"\d+", "", c["kinds"][k])
            hist["param_kinds"][kk] = hist["param_kinds"].get(kk, 0) + 1
            m = re.match(r"chain(\d+)", c["kinds"][k])
            if m:
                hist["passes_needed"][m.group(1)] = hist["passes_needed"].get(m.group(1), 0) + 1
        hist["resolver_outcomes"][o["k"]] = hist["resolver_outcomes"].get(o["k"], 0) + 1
    for (c, wit), (R, exp, obs) in zip(allb, bres):
        hist["run_modes"][c["mode"]] = hist["run_modes"].get(c["mode"], 0) + 1
        for f in b_srcfiles(c):
            for kind, d in (("before package clause", f["pre"]), ("between declarations", f["mid"])):
                form = "none" if not d else ("/*line*/" if d.startswith("/*") else "//line") + (" absolute" if "$" in d else (" other directory" if "/" in d.split(":")[0].split(" ", 1)[-1] else " same directory"))
                hist.setdefault("line_directives", {}).setdefault(kind, {})
                hist["line_directives"][kind][form] = hist["line_directives"][kind].get(form, 0) + 1
        sp = ("cwd through symlinked %s, PWD %s" % (c["link"], c.get("pwd") or "logical")) if c.get("link") else ("config named through a symlink" if c.get("cfglink") else "physical")
        hist.setdefault("spelling", {})
        hist["spelling"][sp] = hist["spelling"].get(sp, 0) + 1
        hist.setdefault("source_files_per_package", {})
        nsf = str(len(b_srcfiles(c)))
        hist["source_files_per_package"][nsf] = hist["source_files_per_package"].get(nsf, 0) + 1
        oc = "hang" if obs["hang"] else ("exit0" if obs["rc"] == 0 else "exit-nonzero")
        hist["run_outcomes"][oc] = hist["run_outcomes"].get(oc, 0) + 1
        P = b_paths(c, R)
        if c["mode"] != "none":
            hist["cwd_vs_configdir"]["same" if go_dir(P["cfg_abs"]) == P["cwd"] else "different"] += 1
        for n in c["names"]:
            hist["exported"]["exported" if exported_doc(n) else "unexported"] += 1
    nontriv = {json.dumps(d_replay(c, root), sort_keys=True) for c, o in zip(dcases, outs)
               if o["k"] != "ok" or any(o["v"][j] != c["params"][k] for j, k in enumerate(PARAMS))}
    nontriv_b = {json.dumps(c, sort_keys=True) for c, _ in allb}
    samples = [d_replay(c, root) | {"observed": o["k"]} for c, o in list(zip(dcases, outs))[12:14]] + \
              [b_describe(c, R, obs, exp) for (c, _), (R, exp, obs) in list(zip(allb, bres))[:2]]
    ctx.write_evidence(gate, len(dcases) + len(allb), len(nontriv) + len(nontriv_b),
                       "resolver calls: seeded values (literals, variables, pipelines of the modelled functions, references through StructName, escaping chains of depth 1..25 around the cap, self references, malformed templates) in all five parameters, non-trivial = at least one value changed or an error; binary runs: seeded layouts (config next to / above the working directory, found by search, --config, MOCKERY_CONFIG; interface file 1-3 levels deep; packages with a plain source file and one or two files carrying //line and /*line*/ directives before the package clause and between declarations, naming files in the same, a sibling (existing) or an absolute directory; working directory / module root / config path reached through symlinks with PWD logical or unset; exported and unexported interfaces), every run counted; distinct by full input",
                       samples,
                       extra={"histogram": hist, "resolver_calls": len(dcases), "binary_runs": len(allb), "witness_runs": len(witnesses_b),
                              "resolver_mismatches": len(d_bad), "run_mismatches": len(b_bad), "oracle_failures": len(d_fail) + len(b_fail),
                              "outside_subset": len(d_uns), "driver_seconds": round(secs, 2),
                              "timeouts_retried": tmo.retried, "timeouts_confirmed": tmo.confirmed, "timeouts_skipped": tmo.skipped,
                              "timeout_rule": "first stage %.0f s per resolver call / mockery run while everything runs in parallel; a case over the bound is run again alone with %.0f s; only a second timeout is a hang; at most %d confirmations per run, none after a confirmed hang" % (STALL, CONFIRM, MAX_CONFIRM),
                              "timeout_notes": tmo.notes,
                              "max_call_cpu_ms": max([o.get("cpu_ms", 0) for o in outs] or [0]),
                              "max_run_seconds": max([r[2]["secs"] for r in bres] or [0])},
                       assumptions=["resolver stream: drv_tmpl builds a config.Config with the five values and calls ParseTemplates with a synthetic *packages.Package (types.NewPackage) and config.Interface",
                                    "text/template is modelled for: text, {{ pipeline }} of fields, double-quoted strings without escapes and calls of lower/upper/trimPrefix/trimSuffix/base/dir/clean; the generator stays inside this subset (checked: outside_subset = 0)",
                                    "case functions are modelled on ASCII, exportedness on ASCII and Latin-1 first runes; the generator uses only those",
                                    "the oracle evaluates the documented variable meanings (doc comments of config.TemplateData) and Go's documented path functions independently in Python"])


def d_replay(c, root):
    r = {k: (v.replace(root, "$ROOT") if isinstance(v, str) else v) for k, v in c.items() if k not in ("params", "kinds")}
    r["params"] = {k: v.replace(root, "$ROOT") for k, v in c["params"].items()}
    r["kinds"] = c["kinds"]
    return r


def replay(ctx, path):
    d = json.loads(open(path).read())
    only = {"d": [], "b": [], "bw": []}
    if "case" in d:
        only["d"].append(d["case"])
    if "bcase" in d:
        only["bw" if d.get("witness_stream") else "b"].append(d["bcase"])
    for e in d.get("examples", []):
        if "case" in e:
            only["d"].append(e["case"])
        if "bcase" in e:
            only["b"].append(e["bcase"])
    check(ctx, only=only)
