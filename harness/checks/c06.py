"""C06 - generation is deterministic and idempotent.

Most of the assurance for C06 comes from this oracle: the same binary is run k times (quick 6,
thorough 40) on the same generated multi-package configuration - Go draws fresh map orders in
every process - and the whole tree is hashed after each run; then mockery is run again (twice)
over the tree that now contains its own output (force-file-write: true).  All exit codes must be
equal; for successful configurations all hashes must be equal, the rerun must reproduce the tree
byte for byte and add no path (no mocks of mocks: the generated packages lie inside recursive
`all: true` roots, so they ARE candidates).  The set of written paths and the exit class are also
compared with what the Coq model (Cfg/Order.v, run inside Coq with vm_compute) predicts, and the
guard of C06_order_independent is evaluated inside Coq for every configuration.

Configurations: >= 12 keys in every ranged map (packages, interfaces of one package, output
files, imports of one file, template-data), several `configs` per interface, shared
template-data, several output files per package, several packages per output directory, testify /
matryer / a file:// probe template, in-package (test and non-test file) and separate-package
placement, outputs inside the source tree.

NOT generated (other owners; see NOTES/C06.md): nested or overlapping recursive packages and
configured packages below a recursive one (DESIGN.md section 6 row 6, C07; switch
C06_NESTED_RECURSIVE=1 adds that shape), function-local types (C07), `_anchors` (C19),
replace-type and interface-level template/formatter/schema settings (C08), nested template-data
maps (C08 row 16), variadic methods (C01/C03 rows 13, 20)."""
import copy, hashlib, json, os, shutil
import yaml
from common import *
from checks import c12 as C12

MOD = "ex.test/c6"
STD = [("bufio", "*bufio.Reader"), ("bytes", "*bytes.Buffer"), ("context", "context.Context"),
       ("encoding/json", "json.Marshaler"), ("fmt", "fmt.Stringer"), ("io", "io.Reader"),
       ("math/big", "*big.Int"), ("net/http", "*http.Request"), ("net/url", "*url.URL"),
       ("os", "os.FileInfo"), ("regexp", "*regexp.Regexp"), ("sort", "sort.Interface"),
       ("strings", "*strings.Builder"), ("sync", "*sync.Mutex"), ("time", "time.Duration")]
BASIC = ["int", "string", "[]byte", "map[string]int", "bool"]
# Helper packages of the generated module: two pairs of DIFFERENT packages with the SAME package
# name, and a generic type.  rel dir -> (package name, alias used in the sources, body)
HELPERS = {
    "api/core/v1": ("v1", "corev1", "type Pod struct{ Name string }\n"),
    "api/apps/v1": ("v1", "appsv1", "type Deployment struct{ Name string }\n"),
    "x/http": ("http", "xhttp", "type T struct{ N int }\n"),
    "y/http": ("http", "yhttp", "type T struct{ N int }\n"),
    "gen": ("gen", "gen", "type Pair[K comparable, V any] struct {\n\tKey K\n\tVal V\n}\n"),
}
# ONE parameter/result type that names several same-named packages: the qualifiers the mock
# must invent (v1 / v10, http / http0) are handed out while walking the type, so they must not
# depend on any map order (map key/value, func param/result, struct fields, type arguments)
TWIN_TYPES = [
    (["api/core/v1", "api/apps/v1"], "map[corev1.Pod]appsv1.Deployment"),
    (["x/http", "y/http"], "func(a xhttp.T) yhttp.T"),
    (["api/apps/v1", "api/core/v1"], "struct {\n\t\tA appsv1.Deployment\n\t\tB corev1.Pod\n\t}"),
    (["gen", "x/http", "y/http"], "gen.Pair[xhttp.T, yhttp.T]"),
    (["gen", "api/core/v1", "api/apps/v1"], "*gen.Pair[corev1.Pod, []appsv1.Deployment]"),
    (["y/http", "x/http"], "chan map[yhttp.T][]xhttp.T"),
    (["api/core/v1", "api/apps/v1", "x/http", "y/http"], "map[corev1.Pod]func(appsv1.Deployment, xhttp.T) yhttp.T"),
]


def hpath(rel):
    return "%s/%s" % ("ex.test/c6", rel)


def twin(rng):
    rels, t = rng.choice(TWIN_TYPES)
    return ([hpath(r) for r in rels], t)
# complete (as `go mod tidy` writes it) so that the go command, which runs with -mod=mod inside
# packages.Load, has nothing to add once generated mocks import testify
GO_MOD = ("module %s\n\ngo 1.23\n\nrequire github.com/stretchr/testify v1.10.0\n\nrequire (\n"
          "\tgithub.com/davecgh/go-spew v1.1.1 // indirect\n\tgithub.com/pmezard/go-difflib v1.0.0 // indirect\n"
          "\tgithub.com/stretchr/objx v0.5.2 // indirect\n\tgopkg.in/yaml.v3 v3.0.1 // indirect\n)\n") % MOD
NOT_MOCKERYS = ("go.mod", "go.sum")      # written by the go command, never by mockery: not part of the tree hash
SCHEMA_ANY = {"type": "object"}


# ------------------------------------------------------------------ source tree
def gen_iface(rng, name, wide=False, twins=False):
    ms = []
    for mi in range(rng.randint(3, 4) if wide else rng.randint(1, 3)):
        n = rng.randint(4, 5) if wide else rng.randint(0, 3)
        params = [rng.choice(STD) if (wide or rng.random() < 0.7) else (None, rng.choice(BASIC)) for _ in range(n)]
        res = rng.choice([[], ["error"], ["T", "error"], ["T"]])
        res = [(rng.choice(STD) if rng.random() < 0.5 else (None, rng.choice(BASIC))) if r == "T" else (None, "error") for r in res]
        ms.append({"name": "M%d" % mi, "params": params, "results": res})
    if wide:        # make sure one file needs at least 12 different imports
        allp = [STD[i] for i in range(13)]
        ms.append({"name": "All", "params": allp, "results": []})
    ntw = 3 if wide else (1 if (twins and rng.random() < 0.85) else 0)
    for ti in range(ntw):
        res = [twin(rng)] if rng.random() < 0.4 else []
        ms.append({"name": "Twin%d" % ti, "params": [twin(rng)] + ([rng.choice(STD)] if rng.random() < 0.5 else []), "results": res})
    return {"name": name, "methods": ms}


def iface_imports(i):
    out = []
    for m in i["methods"]:
        for pth, _ in m["params"] + m["results"]:
            for q in ([] if not pth else ([pth] if isinstance(pth, str) else pth)):
                if q not in out:
                    out.append(q)
    return out


HELPER_ALIAS = {"ex.test/c6/" + rel: v[1] for rel, v in HELPERS.items()}


def go_source(pkgname, decls):
    imps = sorted({p for d in decls for p in iface_imports(d)})
    s = "package %s\n\n" % pkgname
    if imps:
        s += "import (\n" + "".join(('\t%s "%s"\n' % (HELPER_ALIAS[p], p)) if p in HELPER_ALIAS and HELPER_ALIAS[p] != p.split("/")[-1] else ('\t"%s"\n' % p) for p in imps) + ")\n\n"
    for d in decls:
        s += "type %s interface {\n" % d["name"]
        for m in d["methods"]:
            ps = ", ".join("%s %s" % ("abcdefghijklmnop"[k], t) for k, (_, t) in enumerate(m["params"]))
            rs = [t for _, t in m["results"]]
            r = "" if not rs else (" " + rs[0] if len(rs) == 1 else " (" + ", ".join(rs) + ")")
            s += "\t%s(%s)%s\n" % (m["name"], ps, r)
        s += "}\n\n"
    return s


def gen_tree(rng):
    """[{path, name, files: [{name, decls}]}]: 14 flat packages, one wide package, two recursive roots.
    Every package has two or three source files (c_*.go, n_*.go, t_*.go), each declaring
    interfaces, so that generated in-package files named a_*, k_*, p_*, zz_* sort before, between
    and after the sources."""
    pk = []
    for k in range(14):
        n = "f%02d" % k
        up = n.upper()
        files = [{"name": "c_%s.go" % n, "decls": [gen_iface(rng, up + "A", twins=True)]},
                 {"name": "n_%s.go" % n, "decls": [gen_iface(rng, up + "B")]}]
        if rng.random() < 0.6:
            files.append({"name": "t_%s.go" % n, "decls": [gen_iface(rng, up + "C")]})
        pk.append({"path": n, "name": n, "files": files})
    pk.append({"path": "wide", "name": "wide", "files": [
        {"name": "c_wide.go", "decls": [gen_iface(rng, "W%02d" % k) for k in range(7)]},
        {"name": "n_many.go", "decls": [gen_iface(rng, "Many", wide=True)]},
        {"name": "t_wide.go", "decls": [gen_iface(rng, "W%02d" % k) for k in range(7, 13)]}]})
    for r, subs in (("r0", ["", "/s0", "/s1", "/s1/t0"]), ("r1", ["", "/s0"])):
        for sfx in subs:
            p = r + sfx
            n = p.split("/")[-1]
            tag = p.replace("/", "").upper()
            pk.append({"path": p, "name": n, "files": [{"name": "c_%s.go" % n, "decls": [gen_iface(rng, tag + "A", twins=True)]},
                                                       {"name": "n_%s.go" % n, "decls": [gen_iface(rng, tag + "B")]}]})
    return pk


# ------------------------------------------------------------------ configuration
def cfg(**kw):
    c = {"rec": None, "all": None, "force": None, "dir": None, "file": None, "pkgname": None,
         "tmpl": None, "schema": None, "require": None, "data": None, "structname": None}
    c.update(kw)
    return c


PLACEMENTS = {
    "inpkg_test": dict(dir=("iface", ""), file=("fixed", "mocks_test.go"), pkgname=None),
    "inpkg_test2": dict(dir=None, file=("fixed", "zz_gen_test.go"), pkgname=None),
    "inpkg": dict(dir=("iface", ""), file=("fixed", "zz_mock.go"), pkgname=("src",)),               # after the sources
    "inpkg_before": dict(dir=("iface", ""), file=("fixed", "a_mock.go"), pkgname=("src",)),        # before all sources
    "inpkg_between": dict(dir=None, file=("fixed", "k_mock.go"), pkgname=None),                    # between c_*.go and n_*.go
    "inpkg_between2": dict(dir=("iface", ""), file=("fixed", "p_mock.go"), pkgname=("src",)),      # between n_*.go and t_*.go
    "inpkg_per_iface": dict(dir=("iface", ""), file=("iface", "k_", "_mock.go"), pkgname=None),    # several generated files between the sources
    "other_pkg": None,                                                                               # into ANOTHER configured package's directory (filled in per package)
    "sub": dict(dir=("iface", "/mocks"), file=("fixed", "zz.go"), pkgname=("fixed", "mocks")),
    "sub_per_iface": dict(dir=("iface", "/mocks"), file=("iface", "zz_", ".go"), pkgname=("fixed", "mocks")),
    "shared": dict(dir=("fixed", "shared/all"), file=("pkg", "zz_", ".go"), pkgname=("fixed", "allmocks")),
    "shared_in_root": dict(dir=("fixed", "r0/allmocks"), file=("pkg", "zz_", ".go"), pkgname=("fixed", "allmocks")),
}


def out_of_package(pl):
    return pl in ("sub", "sub_per_iface", "shared", "shared_in_root", "other_pkg")


INPKG_NONTEST = ("inpkg", "inpkg_before", "inpkg_between", "inpkg_between2", "inpkg_per_iface")
SORT_PREFIXES = ["a_", "k_", "p_", "zz_"]


def gen_config(rng, tree, nested=False, formatter=None):
    """formatter None = default (goimports, which re-sorts imports); "noop"/"gofmt" show the
    template's own output; matryer is then replaced by testify because its unformatted output has
    an unused import (DESIGN.md section 6 row 14, C01) and would not load on the rerun."""
    tpl = {}
    root = cfg(force=True, data={"mock-build-tags": "!c6skip"})
    root["formatter"] = formatter
    pkgs = []
    hist = {"placement": {}, "template": {}, "configs_entries": 0, "listed_interfaces": 0, "shape23": False, "formatter": formatter or "goimports"}
    big = {"k%02d" % i: (i if i % 3 == 0 else ("v%d" % i if i % 3 == 1 else (i % 2 == 0))) for i in range(13)}
    shape23 = rng.random() < 0.5
    hist["shape23"] = shape23
    n_custom = 0
    for tp in tree:
        p = tp["path"]
        if p.startswith("r0/") or p.startswith("r1/"):
            continue                                       # discovered by recursion, never configured
        is_root = p in ("r0", "r1")
        if is_root:
            pl = rng.choice(["sub", "inpkg", "inpkg_before", "inpkg_between", "inpkg_per_iface", "inpkg_test", "sub_per_iface"])
            tm = rng.choice(["testify", "matryer"])
        else:
            # half of the flat packages write non-test files next to their sources
            pl = rng.choice(list(INPKG_NONTEST)) if rng.random() < 0.5 else rng.choice(sorted(PLACEMENTS))
            if pl == "other_pkg" and not (p.startswith("f") and p != "f00"):
                pl = "inpkg_between"
            tm = rng.choice(["testify", "testify", "matryer", "custom"])
        if formatter in ("noop", "gofmt") and tm == "matryer":
            tm = "testify"
        hist["placement"][pl] = hist["placement"].get(pl, 0) + 1
        hist["template"][tm] = hist["template"].get(tm, 0) + 1
        if pl == "other_pkg":
            # a lower-numbered flat package receives the file (it then imports this package on the
            # rerun; higher -> lower only, so no import cycle), named so that it sorts between sources
            tgt = "f%02d" % rng.randrange(int(p[1:]))
            plc = dict(dir=("fixed", tgt), file=("pkg", "k_from_", ".go"), pkgname=("fixed", tgt))
        else:
            plc = PLACEMENTS[pl]
        c = cfg(**plc)
        # relative spellings of the output directory next to the absolute default (the run's cwd is
        # the directory of the config file): templated, literal, literal with a detour
        if pl in INPKG_NONTEST or pl in ("inpkg_test", "inpkg_test2", "sub", "sub_per_iface"):
            suffix = "/mocks" if pl in ("sub", "sub_per_iface") else ""
            r = rng.random()
            if r < 0.3:
                c["dir"] = ("iface", suffix, "{{.InterfaceDirRelative}}" + suffix)
                hist["relative_dir"] = hist.get("relative_dir", 0) + 1
            elif r < 0.5 and not is_root:
                c["dir"] = ("fixed", p + suffix, rng.choice(["./%s%s", "%s/../%s%s" % (p, "%s", "%s"), "%s%s"]) % (p, suffix))
                hist["relative_dir"] = hist.get("relative_dir", 0) + 1
        data = {}
        if is_root:
            c["rec"], c["all"] = True, True
        if tm == "matryer":
            c["tmpl"] = "matryer"
            if out_of_package(pl):
                data["skip-ensure"] = True
            if rng.random() < 0.5:
                data["with-resets"] = rng.random() < 0.5
        elif tm == "testify":
            if rng.random() < 0.3:
                c["tmpl"] = "testify"
            if rng.random() < 0.4:
                data["unroll-variadic"] = rng.random() < 0.5
        else:
            c["tmpl"] = "file://./tpl/t0.templ"
            tpl["t0.templ"] = {"kind": "template", "ok": True}
            tpl["t0.templ.schema.json"] = {"kind": "schema", "schema": {"type": "object", "required": ["k00"], "properties": {"k00": {"type": "integer"}, "k01": {"type": "string"}}}}
            data.update(big)
            if shape23 and n_custom >= 1:
                sn = "s_%s.json" % p
                tpl[sn] = {"kind": "schema", "schema": {"type": "object", "required": ["k%02d" % (3 * (n_custom % 4))], "properties": {"k02": {"type": "boolean"}}}}
                c["schema"] = "file://./tpl/" + sn
            n_custom += 1
        c["data"] = data or None
        ifs = []
        decls = [d["name"] for f in tp["files"] for d in f["decls"]]
        if not is_root:
            mode = "listed_all" if p == "wide" else rng.choice(["all", "all", "listed", "listed+all"])
            c["all"] = mode in ("all", "listed+all")
            if mode != "all":
                chosen = decls if p == "wide" else rng.sample(decls, rng.randint(1, len(decls)))
                for n in chosen:
                    hist["listed_interfaces"] += 1
                    r = rng.random()
                    if r < 0.25:
                        ifs.append({"name": n, "cfg": None, "entries": []})
                        continue
                    ic = cfg()
                    if tm == "testify" and rng.random() < 0.5:
                        ic["data"] = {"unroll-variadic": rng.random() < 0.5}
                    ents = []
                    if pl in INPKG_NONTEST and rng.random() < 0.5:
                        # a file of its own for this interface, sorting before / between / after the sources
                        ic["file"] = ("fixed", "%s%s_own.go" % (rng.choice(SORT_PREFIXES), n))
                    if r > 0.6 and pl not in ("shared", "shared_in_root", "other_pkg"):
                        # several configs for one interface: different files, different struct names
                        for e in range(rng.randint(2, 3)):
                            hist["configs_entries"] += 1
                            ec = cfg(structname="Mock{{.InterfaceName}}V%d" % e)
                            base = plc["file"]
                            if base[0] == "fixed":
                                ec["file"] = ("fixed", base[1].replace(".go", "_v%d.go" % e) if not base[1].endswith("_test.go") else base[1].replace("_test.go", "_v%d_test.go" % e))
                            else:
                                ec["file"] = ("iface", "zz_", "_v%d.go" % e)
                            if tm == "testify" and rng.random() < 0.5:
                                ec["data"] = {"unroll-variadic": rng.random() < 0.5}
                            ents.append(ec)
                    ifs.append({"name": n, "cfg": ic, "entries": ents})
        pkgs.append({"path": p, "cfg": c, "ifaces": ifs})
    if nested:
        # DESIGN.md section 6 row 6 (owned by C07): a recursive package below a recursive package
        pkgs.append({"path": "r0/s1", "cfg": cfg(rec=True, all=True, file=("fixed", "zz_nested.go"), dir=("iface", ""), pkgname=("src",)), "ifaces": []})
    return {"root": root, "pkgs": pkgs, "tpl": tpl, "tree": tree}, hist


# ------------------------------------------------------------------ templated values piped through functions
RAW_STRUCTNAME = "{{.Mock}}{{.InterfaceName}}"          # the default `structname`


def func_variants(p, pname):
    """Configurations whose dir / filename / pkgname pipe template variables - in particular
    .StructName, which itself comes from another templated parameter - through the documented
    function library.  On the tree under test the function sees the TEXT of `structname` as
    configured (the variables are bound before the fixpoint iteration starts); the second element
    is what the model is told the value resolves to.  All interface names here are exported."""
    return [
        ("trimPrefix-noop", dict(file=("iface", "mock_Mock", ".go"), file_yaml='mock_{{.StructName | trimPrefix "Mock"}}.go')),
        ("trimPrefix-raw", dict(file=("iface", "mk_", "_gen.go"), file_yaml='mk_{{.StructName | trimPrefix "{{.Mock}}"}}_gen.go')),
        ("len", dict(file=("iface", "n%d_" % len(RAW_STRUCTNAME), ".go"), file_yaml='n{{len .StructName}}_{{.InterfaceName}}.go')),
        ("contains-explicit", dict(structname="Fake{{.InterfaceName}}", file=("iface", "raw_", "_test.go"),
                                   file_yaml='{{if contains "{{" .StructName}}raw{{else}}res{{end}}_{{.InterfaceName}}_test.go')),
        ("replaceAll-explicit", dict(structname="{{.InterfaceName}}Mock", file=("iface", "x_", ".go"),
                                     file_yaml='x_{{.StructName | replaceAll "Mock" ""}}.go')),
        ("len-explicit", dict(structname="Stub{{.InterfaceName | firstUpper}}", file=("iface", "m%d_" % len("Stub{{.InterfaceName | firstUpper}}"), ".go"),
                              file_yaml='m{{len .StructName}}_{{.InterfaceName}}.go')),
        ("pkg-vars", dict(dir=("iface", "/%sm" % pname.upper()), dir_yaml="{{.InterfaceDir}}/{{.SrcPackageName | upper}}m",
                          pkgname=("fixed", "mk" + pname.lower()), pkgname_yaml='mk{{.SrcPackageName | upper | lower}}',
                          file=("fixed", "mock_%s.go" % pname.upper()), file_yaml='mock_{{.SrcPackageName | replaceAll "f" "F" | upper}}.go')),
        ("dir-relative-clean", dict(dir=("iface", ""), dir_yaml='{{.InterfaceDirRelative | clean}}',
                                    file=("iface", "zz_Mock", ".go"), file_yaml='zz_{{.StructName | firstLower}}.go')),
    ]


FAILING_FUNCS = ['{{.StructName | lower}}.go', '{{.StructName | snakecase}}.go', '{{.StructName | replace "Mock" "Fake" 1}}.go',
                 'u_{{.StructName | upper}}.go']


def gen_config_funcs(rng, tree):
    root = cfg(force=True)
    pkgs, hist = [], {"function_variants": {}}
    for tp in tree:
        p = tp["path"]
        if not p.startswith("f"):
            continue
        name, v = rng.choice(func_variants(p, tp["name"]))
        hist["function_variants"][name] = hist["function_variants"].get(name, 0) + 1
        c = cfg(**v)
        decls = [d["name"] for f in tp["files"] for d in f["decls"]]
        ifs = []
        if rng.random() < 0.5:
            c["all"] = True
        else:
            c["all"] = False
            for n in rng.sample(decls, rng.randint(1, len(decls))):
                ifs.append({"name": n, "cfg": None if rng.random() < 0.5 else cfg(), "entries": []})
        if name == "pkg-vars" and rng.random() < 0.5:
            c["tmpl"] = "matryer"
            c["data"] = {"skip-ensure": True}
        pkgs.append({"path": p, "cfg": c, "ifaces": ifs})
    return {"root": root, "pkgs": pkgs, "tpl": {}, "tree": tree}, hist


def gen_config_failing(rng, tree, spelling):
    """One listed interface whose filename cannot be resolved on the tree under test (the function
    mangles the template text): every run must fail.  Judged by the oracle only."""
    small = [tp for tp in tree if tp["path"] in ("f00", "f01")]
    iface = small[0]["files"][0]["decls"][0]["name"]
    pk = [{"path": "f00", "cfg": cfg(all=False, file=("fixed", "unresolvable.go"), file_yaml=spelling),
           "ifaces": [{"name": iface, "cfg": None, "entries": []}]},
          {"path": "f01", "cfg": cfg(all=True, file=("fixed", "zz_mock.go")), "ifaces": []}]
    return {"root": cfg(force=True), "pkgs": pk, "tpl": {}, "tree": small, "oracle_only": True}



# ------------------------------------------------------------------ a template that leaves an import to goimports
RAND_TEMPLATE = """// Code generated by the C06 rand template. DO NOT EDIT.
package {{.PkgName}}
{{ range .Interfaces }}{{ if index .TemplateData "explicit-rand" }}
import "math/rand"
{{ end }}{{ end }}
{{ range .Interfaces }}
// Pick{{.Name}} uses the qualifier `rand` without the template registering or printing an import
// (unless the switch above is on): resolving it is left to the goimports formatter.
var Pick{{.Name}} = rand.Int
{{ end }}
"""


def gen_config_goimports(rng, tree):
    """Default formatter (goimports), a user template that writes `rand.Int` (exported by
    crypto/rand AND math/rand) and leaves the import to the formatter, 8 interfaces of one package
    each in its own file in ONE output directory, one of them importing math/rand explicitly.
    goimports alone breaks the tie by its own fixed rules, so every clean run and every rerun over
    the produced tree must give byte-identical files."""
    wide = next(tp for tp in tree if tp["path"] == "wide")
    names = [d["name"] for f in wide["files"] for d in f["decls"] if d["name"].startswith("W")]
    chosen = rng.sample(names, 8)
    # goimports mimics the ALPHABETICALLY FIRST sibling file that imports a package called `rand`,
    # so the file with the explicit import has to sort before the others to matter
    explicit = min(chosen)
    c = cfg(all=False, dir=("fixed", "randmocks"), file=("iface", "r_", ".go"), pkgname=("fixed", "randmocks"),
            tmpl="file://./tpl/rand.templ", require=False)
    ifs = [{"name": n, "cfg": cfg(data={"explicit-rand": True}) if n == explicit else (None if rng.random() < 0.5 else cfg()), "entries": []} for n in chosen]
    # a second, flat package writes into the same directory with the built-in template
    other = {"path": "f00", "cfg": cfg(all=True, dir=("fixed", "randmocks"), file=("pkg", "zz_", ".go"), pkgname=("fixed", "randmocks")), "ifaces": []}
    return ({"root": cfg(force=True), "pkgs": [{"path": "wide", "cfg": c, "ifaces": ifs}, other],
             "tpl": {"rand.templ": {"kind": "template", "ok": True, "text": RAND_TEMPLATE}}, "tree": tree},
            {"goimports_leaves_import": {"files_in_one_directory": 9, "explicit_math_rand": explicit}})



def corpus_variant_b(tree):
    """Exit status depends on the map order with the pinned cache key: f00 does not require a
    schema (its template-schema is permissive), f01 requires its own schema and violates it."""
    root = cfg(force=True)
    c0 = cfg(all=True, tmpl="file://./tpl/t0.templ", schema="file://./tpl/any.json", require=False, data={"anything": 1},
             **PLACEMENTS["inpkg_test"])
    c1 = cfg(all=True, tmpl="file://./tpl/t0.templ", schema="file://./tpl/strict.json", require=True, data={"z": "not an integer"},
             **PLACEMENTS["inpkg_test"])
    tpl = {"t0.templ": {"kind": "template", "ok": True}, "any.json": {"kind": "schema", "schema": {}},
           "strict.json": {"kind": "schema", "schema": {"type": "object", "properties": {"z": {"type": "integer"}}}}}
    return {"root": root, "pkgs": [{"path": "f00", "cfg": c0, "ifaces": []}, {"path": "f01", "cfg": c1, "ifaces": []}], "tpl": tpl, "tree": tree}


# ------------------------------------------------------------------ printing: YAML and Gallina
def yaml_of_cfg(c, extra=None):
    o = dict(extra or {})
    if c["rec"] is not None: o["recursive"] = c["rec"]
    if c["all"] is not None: o["all"] = c["all"]
    if c["force"] is not None: o["force-file-write"] = c["force"]
    if c["dir"] is not None:
        d = c["dir"]
        if len(d) > 2:                     # (kind, cleaned value for the model, spelling in the file)
            o["dir"] = d[2]
        else:
            o["dir"] = ("{{.InterfaceDir}}" + d[1]) if d[0] == "iface" else d[1]
    if c["file"] is not None:
        f = c["file"]
        o["filename"] = f[1] if f[0] == "fixed" else (f[1] + ("{{.InterfaceName}}" if f[0] == "iface" else "{{.SrcPackageName}}") + f[2])
    if c["pkgname"] is not None:
        o["pkgname"] = "{{.SrcPackageName}}" if c["pkgname"][0] == "src" else c["pkgname"][1]
    # spellings that go through the template function library; the model gets the resolved value
    for key, yk in (("dir_yaml", "dir"), ("file_yaml", "filename"), ("pkgname_yaml", "pkgname")):
        if c.get(key):
            o[yk] = c[key]
    if c["tmpl"] is not None: o["template"] = c["tmpl"]
    if c["schema"] is not None: o["template-schema"] = c["schema"]
    if c["require"] is not None: o["require-template-schema-exists"] = c["require"]
    if c["data"] is not None: o["template-data"] = c["data"]
    if c.get("structname"): o["structname"] = c["structname"]
    return o


def yaml_cfg(case):
    top = yaml_of_cfg(case["root"])
    if case["root"].get("formatter"):
        top["formatter"] = case["root"]["formatter"]
    pk = {}
    for p in case["pkgs"]:
        ent = {"config": yaml_of_cfg(p["cfg"])}
        if p["ifaces"]:
            ifs = {}
            for i in p["ifaces"]:
                if i["cfg"] is None:
                    ifs[i["name"]] = None
                    continue
                ic = {"config": yaml_of_cfg(i["cfg"])}
                if i["entries"]:
                    ic["configs"] = [yaml_of_cfg(e) for e in i["entries"]]
                ifs[i["name"]] = ic
            ent["interfaces"] = ifs
        pk["%s/%s" % (MOD, p["path"])] = ent
    top["packages"] = pk
    return yaml.safe_dump(top, sort_keys=False, default_flow_style=None, width=1000)


def cb(s):
    return coq_bytes(s.encode())


def coq_cfg(c):
    d = c["dir"]
    f = c["file"]
    pn = c["pkgname"]
    return ("{| o_rec := %s; o_all := %s; o_force := %s; o_dir := %s; o_file := %s; o_pkgname := %s; "
            "o_tmpl := %s; o_schema := %s; o_require := %s; o_data := %s |}") % (
        coq_opt(c["rec"], coq_bool), coq_opt(c["all"], coq_bool), coq_opt(c["force"], coq_bool),
        coq_opt(d, lambda v: ("(DIface %s)" if v[0] == "iface" else "(DFixed %s)") % cb(v[1])),
        coq_opt(f, lambda v: "(FFixed %s)" % cb(v[1]) if v[0] == "fixed" else ("(%s %s %s)" % ("FIface" if v[0] == "iface" else "FPkg", cb(v[1]), cb(v[2])))),
        coq_opt(pn, lambda v: "PSrc" if v[0] == "src" else "(PFixed %s)" % cb(v[1])),
        C12.coq_ostr(c["tmpl"]), C12.coq_ostr(c["schema"]), coq_opt(c["require"], coq_bool), C12.coq_obj(c["data"] or {}))


ROOT_DEFAULTS = cfg(rec=False, all=False, force=False, dir=("iface", ""), file=("fixed", "mocks_test.go"), pkgname=("src",),
                    tmpl="testify", schema=None, require=True, data={})


def effective_root(case):
    r = dict(ROOT_DEFAULTS)
    for k, v in case["root"].items():
        if v is not None:
            r[k] = v
    return r


def coq_tree(tree_pkgs):
    out = []
    for tp in tree_pkgs:
        files = []
        for f in tp["files"]:
            decls = coq_list("{| id_name := %s; id_imports := %s |}" % (
                cb(d["name"]), coq_list("{| ipath := %s; iname := %s; ialias := [] |}" % (cb(p), cb(p.split("/")[-1])) for p in iface_imports(d))) for d in f["decls"])
            files.append("{| tf_name := %s; tf_decls := %s |}" % (cb(f["name"]), decls))
        out.append("{| tp_path := %s; tp_name := %s; tp_files := %s |}" % (cb(tp["path"]), cb(tp["name"]), coq_list(files)))
    return coq_list(out)


def subs_of(pkgdirs, configured):
    """`go list p/...` for every package that could be asked: sub-directories holding at least one
    non-test Go file, in import-path order."""
    ds = sorted(pkgdirs)
    return {p: [q for q in ds if q == p or q.startswith(p + "/")] for p in sorted(set(configured) | set(ds))}


def coq_subs(s):
    return coq_list("(%s, %s)" % (cb(k), coq_list(cb(x) for x in v)) for k, v in sorted(s.items()) if v)


def world_term(case, builtins, fl_mode, subs):
    fs = []
    for rel, f in sorted(case["tpl"].items()):
        view = (f["ok"], None) if f["kind"] == "template" else (True, f["schema"])
        fs.append("(%s, {| c_tmpl_ok := %s; c_schema := %s |})" % (cb("file://./tpl/" + rel), coq_bool(view[0]), coq_opt(view[1], C12.coq_schema)))
    env = "{| e_fs := %s; e_builtins := %s; e_empty_ok := false |}" % (
        coq_list(fs), coq_list("(%s, %s)" % (cb(k), C12.coq_schema(v)) for k, v in sorted(builtins.items())))
    pk = []
    for p in case["pkgs"]:
        ifs = []
        for i in p["ifaces"]:
            ic = i["cfg"] if i["cfg"] is not None else cfg()
            ifs.append("(%s, {| oi_cfg := %s; oi_entries := %s |})" % (cb(i["name"]), coq_cfg(ic), coq_list(coq_cfg(e) for e in i["entries"])))
        pk.append("(%s, {| op_cfg := %s; op_ifaces := %s |})" % (cb(p["path"]), coq_cfg(p["cfg"]), coq_list(ifs)))
    return ("{| ow_root := %s; ow_pkgs := %s; ow_subs := %s; ow_tree := %s; ow_env := %s; ow_fl := %s; ow_km := KTemplateSchema |}") % (
        coq_cfg(effective_root(case)), coq_list(pk), coq_subs(subs), coq_tree(case["tree"]), env,
        "FLFirstMock" if fl_mode == "first-mock" else "FLPackage")


# ------------------------------------------------------------------ implementation runs
def materialize(ctx, case, d):
    shutil.rmtree(d, ignore_errors=True)
    (d / "tpl").mkdir(parents=True)
    (d / "go.mod").write_text(GO_MOD)
    shutil.copy(str(ctx.tree / "go.sum"), str(d / "go.sum"))
    for tp in case["tree"]:
        (d / tp["path"]).mkdir(parents=True, exist_ok=True)
        for f in tp["files"]:
            (d / tp["path"] / f["name"]).write_text(go_source(tp["name"], f["decls"]))
    for rel, (pname, _, body) in HELPERS.items():
        (d / rel).mkdir(parents=True, exist_ok=True)
        (d / rel / "types.go").write_text("package %s\n\n%s" % (pname, body))
    for rel, f in case["tpl"].items():
        (d / "tpl" / rel).write_text((f.get("text") or C12.PROBE_OK) if f["kind"] == "template" else json.dumps(f["schema"]))
    (d / ".mockery.yml").write_text(yaml_cfg(case))


def tree_state(d):
    files = {}
    for root, _, fs in os.walk(d):
        for f in fs:
            p = os.path.join(root, f)
            if os.path.relpath(p, d) in NOT_MOCKERYS:
                continue
            files[os.path.relpath(p, d)] = hashlib.sha256(open(p, "rb").read()).hexdigest()
    h = hashlib.sha256(json.dumps(sorted(files.items())).encode()).hexdigest()
    return files, h


def pkg_dirs(d):
    out = set()
    for root, _, fs in os.walk(d):
        if any(f.endswith(".go") and not f.endswith("_test.go") for f in fs):
            rel = os.path.relpath(root, d)
            if rel != ".":
                out.add(rel)
    return out


def mockery(ctx, d):
    p = run([ctx.bins["mockery"], "--config", ".mockery.yml"], cwd=d, env=go_env({"GOFLAGS": "-mod=mod", "MOCKERY_LOG_LEVEL": "error"}), timeout=300)
    return (0 if p.returncode == 0 else (1 if p.returncode == 1 else 2)), (p.stdout.decode(errors="replace")[-800:] + p.stderr.decode(errors="replace")[-800:])


def exercise(ctx, case, idx, k, reruns=2):
    """k runs from the pristine tree (same path every time), then reruns over the last output."""
    base = ctx.scratch / ("c06-%03d" % idx)
    pristine, work = base / "pristine", base / "work"
    materialize(ctx, case, pristine)
    before, _ = tree_state(pristine)
    runs = []
    for _ in range(k):
        shutil.rmtree(work, ignore_errors=True)
        shutil.copytree(pristine, work)
        ex, log = mockery(ctx, work)
        files, h = tree_state(work)
        runs.append({"exit": ex, "hash": h, "new": sorted(set(files) - set(before)), "files": files, "log": log})
    dirs1 = pkg_dirs(work)
    re = []
    prev_files = runs[-1]["files"]
    for _ in range(reruns):
        ex, log = mockery(ctx, work)
        files, h = tree_state(work)
        re.append({"exit": ex, "hash": h, "new": sorted(set(files) - set(prev_files)),
                   "changed": sorted(f for f in files if f in prev_files and files[f] != prev_files[f]), "log": log})
        prev_files = files
    res = {"runs": runs, "reruns": re, "dirs0": sorted(pkg_dirs(pristine)), "dirs1": sorted(dirs1), "must_fail": bool(case.get("oracle_only"))}
    shutil.rmtree(base, ignore_errors=True)
    return res


def oracle(res):
    """C06 evaluated directly on the observations."""
    errs = []
    runs, re = res["runs"], res["reruns"]
    exits = sorted({r["exit"] for r in runs})
    if 2 in exits:
        errs.append("a run crashed (exit status other than 0/1)")
    if len(exits) > 1:
        errs.append("exit status differs between runs of the same inputs: %s" % [r["exit"] for r in runs])
        return errs
    if res.get("must_fail") and exits == [0]:
        errs.append("the configuration cannot be resolved (a function mangles the text of a templated parameter) but the runs exit 0")
    if exits == [0]:
        hs = sorted({r["hash"] for r in runs})
        if len(hs) > 1:
            a = runs[0]
            b = next(r for r in runs if r["hash"] != a["hash"])
            diff = sorted(f for f in set(a["files"]) | set(b["files"]) if a["files"].get(f) != b["files"].get(f))
            errs.append("successful runs of the same inputs wrote different trees (%d distinct hashes); differing files: %s" % (len(hs), diff[:8]))
        for j, r in enumerate(re):
            if r["exit"] != 0:
                errs.append("rerun %d over its own output exits %d" % (j + 1, r["exit"]))
            if r["new"]:
                errs.append("rerun %d added files: %s" % (j + 1, r["new"][:8]))
            if r["changed"]:
                errs.append("rerun %d changed files: %s" % (j + 1, r["changed"][:8]))
    return errs


def case_term(case, builtins, fl_mode, res):
    configured = [p["path"] for p in case["pkgs"]]
    s1 = subs_of(res["dirs0"], configured)
    s2 = subs_of(res["dirs1"], configured)
    r0, rr = res["runs"][0], res["reruns"][0]
    return "{| c_world := %s; c_subs2 := %s; c_exit1 := %d; c_new1 := %s; c_exit2 := %d; c_new2 := %s |}" % (
        world_term(case, builtins, fl_mode, s1), coq_subs(s2), r0["exit"], coq_list(cb(x) for x in r0["new"]),
        rr["exit"], coq_list(cb(x) for x in rr["new"]))


def describe(case, res=None):
    d = {"config_yaml": yaml_cfg(case), "tpl_files": case["tpl"],
         "packages_in_tree": [tp["path"] for tp in case["tree"]]}
    if res is not None:
        d["runs"] = [{"exit": r["exit"], "hash": r["hash"][:16], "new_files": len(r["new"])} for r in res["runs"]]
        d["reruns"] = [{"exit": r["exit"], "hash": r["hash"][:16], "new": r["new"][:8], "changed": r["changed"][:8]} for r in res["reruns"]]
        bad = [r for r in res["runs"] + res["reruns"] if r["exit"] != 0]
        if bad:
            d["log_tail_of_a_failing_run"] = bad[0]["log"][-600:]
    return d


def shrink(ctx, case, k, budget=8):
    """Drop configured packages while the oracle still fails (each trial = k runs)."""
    cur = case
    i = 0
    while i < len(cur["pkgs"]) and budget > 0 and len(cur["pkgs"]) > 1:
        t = copy.deepcopy(cur)
        del t["pkgs"][i]
        budget -= 1
        if oracle(exercise(ctx, t, 900 + budget, k)):
            cur = t
        else:
            i += 1
    return cur


def check(ctx, only=None):
    gate = proof_gate(ctx)
    if not ctx.build_tree():
        ctx.write_evidence(gate, 0, 0, "build failed", [])
        return
    fl_mode = C12.calibrate(ctx)
    builtins, outside = C12.load_builtins(ctx)
    k = 40 if ctx.thorough() else 6
    ncfg = 12 if ctx.thorough() else 5
    nested = os.environ.get("C06_NESTED_RECURSIVE") == "1"
    hists = []
    if only is not None:
        cases = only
    else:
        tree0 = gen_tree(ctx.rng)
        cases = [corpus_variant_b(tree0)]
        for j in range(ncfg):
            tree = gen_tree(ctx.rng)
            c, h = gen_config(ctx.rng, tree, nested=nested and j % 2 == 1, formatter=[None, "noop", "gofmt", None][j % 4])
            cases.append(c)
            hists.append(h)
        # templated values piped through functions: one configuration the model also predicts, and
        # small ones that must fail in every run (the flip probability per run can be low: more runs)
        special = {}
        c, h = gen_config_funcs(ctx.rng, gen_tree(ctx.rng))
        special[len(cases)] = max(k, 8)
        cases.append(c)
        hists.append(h)
        c, h = gen_config_goimports(ctx.rng, gen_tree(ctx.rng))
        special[len(cases)] = max(k, 8)
        cases.append(c)
        hists.append(h)
        for sp in (FAILING_FUNCS if ctx.thorough() else ctx.rng.sample(FAILING_FUNCS, 2)):
            special[len(cases)] = max(k, 12)
            cases.append(gen_config_failing(ctx.rng, tree0, sp))
    ks = [max(k, 10) if (only is None and j == 0) else k for j in range(len(cases))]
    if only is None:
        for j, kk in special.items():
            ks[j] = kk
    results = pmap(lambda j: exercise(ctx, cases[j], j, ks[j]), range(len(cases)), workers=min(JOBS, 6))
    oerr = [oracle(r) for r in results]
    bad, errs, outside_guard = [], [], []
    if fl_mode is None or outside:
        errs.append("calibration failed or built-in schema outside the subset: %s %s" % (fl_mode, outside))
    else:
        modelled = [j for j, c in enumerate(cases) if not c.get("oracle_only")]
        terms = [case_term(cases[j], builtins, fl_mode, results[j]) for j in modelled]
        bad, errs = coq_mismatches(ctx, "Cfg.Schema Gen.Alloc Cfg.Order Harness.C06", terms, shard=4, extra_import="From Coq Require Import ZArith.")
        outside_guard, e2 = coq_mismatches(ctx, "Cfg.Schema Gen.Alloc Cfg.Order Harness.C06", terms, shard=4,
                                           extra_import="From Coq Require Import ZArith.", check="outside_guard")
        errs += e2
        bad = [modelled[i] for i in bad]
        outside_guard = [modelled[i] for i in outside_guard]
    failing = [i for i, e in enumerate(oerr) if e]
    for i in failing[:2]:
        small = shrink(ctx, cases[i], ks[i]) if only is None else cases[i]
        r = exercise(ctx, small, 990 + i, ks[i])
        rp = ctx.write_replay("oracle-%d" % i, {"what": oracle(r) or oerr[i], "case": small, "readable": describe(small, r),
                                                 "note": "order dependence is probabilistic: the replay runs the configuration %d times" % ks[i]})
        ctx.violation(rp)
    if not gate["ok"] and not failing:
        ctx.violation(gate["replay"], nofail=True)
    if (bad or errs) and not failing:
        detail = []
        for i in bad[:2]:
            tm = case_term(cases[i], builtins, fl_mode, results[i])
            exp = coq_show(ctx, "Cfg.Schema Gen.Alloc Cfg.Order Harness.C06", "explain (%s)" % tm)
            detail.append({"case": cases[i], "readable": describe(cases[i], results[i]), "model_explain(guard, exit1, paths1, guard2, exit2, paths2)": exp[:6000],
                           "observed_new_paths": results[i]["runs"][0]["new"]})
        rp = ctx.write_replay("correspondence", {
            "what": "model Cfg/Order.v and the implementation disagree on exit class / set of written paths; the k-run hash oracle found no C06 failure",
            "obligation": "correspondence Harness/C06.v check_case backing C06_order_independent / C06_idempotent (paths and exit class predicted by the model)",
            "mismatching_cases": len(bad), "coq_errors": errs, "examples": detail})
        ctx.violation(rp, nofail=True)
    # evidence
    total_runs = sum(len(r["runs"]) + len(r["reruns"]) for r in results)
    sizes = []
    for c, r in zip(cases, results):
        sizes.append({"packages_keys": len(c["pkgs"]), "max_interfaces_keys": max([len(p["ifaces"]) for p in c["pkgs"]] + [0]),
                      "output_files": len(r["runs"][0]["new"]),
                      "max_imports_in_a_file": max([len(iface_imports(d)) for tp in c["tree"] for f in tp["files"] for d in f["decls"]] + [0]),
                      "max_template_data_keys": max([len(p["cfg"]["data"] or {}) for p in c["pkgs"]] + [0]),
                      "exit": r["runs"][0]["exit"], "runs": len(r["runs"]), "distinct_hashes": len({x["hash"] for x in r["runs"]})})
    distinct = len({json.dumps(c, sort_keys=True, default=str) for c, r in zip(cases, results) if r["runs"][0]["exit"] == 0 and len(r["runs"][0]["new"]) >= 12})
    ctx.write_evidence(gate, total_runs, distinct,
                       "one evaluation = one mockery process on a generated multi-package module (k runs from the pristine tree + 2 reruns over the output per configuration); non-trivial = a configuration that succeeds and writes at least 12 files; distinct by full configuration",
                       [describe(c, r) for c, r in list(zip(cases, results))[1:2]],
                       extra={"input_histogram": {"per_configuration": sizes, "generator": hists},
                              "k_runs": k, "configurations": len(cases), "model_mismatches": len(bad), "oracle_failures": len(failing),
                              "outside_guard": len(outside_guard), "nested_recursive_switch": nested,
                              "oracle_only_configurations": sum(1 for c in cases if c.get("oracle_only")),
                              "file_level_template_data_comes_from": fl_mode,
                              "not_modelled": "rendered bytes (compared by hash only), struct names, path cleaning, config templating, exclude-subpkg-regex, qualifier allocation"},
                       assumptions=["Go's map iteration randomisation is the only source of order variation between processes; k independent processes sample it",
                                    "generated files contain no interface declarations and _test.go files are not loaded (model: add_outputs); checked by the rerun with all: true + recursive"])


def replay(ctx, path):
    d = json.loads(open(path).read())
    cs = [d["case"]] if "case" in d else [e["case"] for e in d.get("examples", [])]
    for c in cs:           # JSON turned the tuples into lists
        def fix(x):
            for key in ("dir", "file", "pkgname"):
                if x.get(key) is not None:
                    x[key] = tuple(x[key])
        fix(c["root"])
        for p in c["pkgs"]:
            fix(p["cfg"])
            for i in p["ifaces"]:
                if i["cfg"] is not None:
                    fix(i["cfg"])
                for e in i["entries"]:
                    fix(e)
        for tp in c["tree"]:
            for f in tp["files"]:
                for dd in f["decls"]:
                    for m in dd["methods"]:
                        m["params"] = [tuple(x) for x in m["params"]]
                        m["results"] = [tuple(x) for x in m["results"]]
    check(ctx, only=cs)
